#!/usr/bin/env python3
"""Generate /verif/MANIFEST.json from the table below (keeps the manifest valid at all times)."""
import json
import os
import subprocess

HERE = os.path.dirname(os.path.dirname(os.path.abspath(__file__)))

# property -> (design section, technique, level text, level note)
CLAIMED = {}
NOT_APPLICABLE = {}


def claim(pid, technique, text, note, design_ref):
    CLAIMED[pid] = dict(technique=technique, text=text, note=note, design_ref=design_ref)


def na(pid, reason):
    NOT_APPLICABLE[pid] = reason


# ---------------------------------------------------------------------------------------
exec(open(os.path.join(HERE, "tools", "claims.py")).read())
# ---------------------------------------------------------------------------------------


def fix_commits():
    try:
        out = subprocess.run(["git", "-C", "/repo", "log", "--format=%H %s"], capture_output=True, text=True).stdout
    except Exception:
        return []
    return [l.split()[0] for l in out.splitlines() if l.split(" ", 1)[1].startswith("fix:")][::-1]


def main():
    props = [json.loads(l)["id"] for l in open(os.path.join(HERE, "properties.jsonl"))]
    checks = []
    for pid in props:
        if pid in CLAIMED:
            c = CLAIMED[pid]
            checks.append({
                "property_id": pid,
                "quick_cmd": f"./check {pid} --tier quick",
                "thorough_cmd": f"./check {pid} --tier thorough",
                "evidence_file": f"/verif/evidence/{pid}.json",
                "replay_cmd_template": f"./check {pid} --tier quick --replay {{path}}",
                "engine": "sa",
                "level_claimed": {"category": "other", "text": c["text"], "design_ref": c["design_ref"]},
                "level_note": c["note"],
                "technique": c["technique"],
            })
    nas = [{"property_id": p, "reason": NOT_APPLICABLE.get(p, "no static check implemented yet")} for p in props if p not in CLAIMED]
    man = {
        "version": 1,
        "setup_cmd": "test -x /venv/bin/python && /venv/bin/python -c 'import ast, sympy, networkx' && chmod +x ./check",
        "hooks": {
            "guard": "LANL_PYSEQM_VERIF",
            "enable": "none needed: the checks only parse /repo's working tree; no instrumentation hook exists",
            "baseline_off_cmd": "cd /repo && /venv/bin/python -m pytest -ra -q -p no:cacheprovider --timeout=900 --continue-on-collection-errors",
            "source_commits": fix_commits(),
            "add_only": False,
        },
        "engines": [{
            "name": "sa",
            "path": "/verif/sa",
            "serves_properties": sorted(CLAIMED),
            "kind_free_text": "repository-specific static analysis over Python ast: statement CFG (must-pass-through, dominance, "
                              "event words), guard/polarity extraction, def-chain taint, constant folding of literal tables, "
                              "affine/integer re-interpretation of extracted index expressions, sympy normalisation of "
                              "extracted straight-line expressions; never imports or runs PYSEQM",
        }],
        "checks": checks,
        "not_applicable": nas,
        "notes": "All checks are static (ast-based). Exit 0 pass, 1 VIOLATION, 2 ANALYSIS-ERROR (anchor drift / internal error). "
                 "Known findings: /verif/known_findings.json. See DESIGN.md.",
    }
    with open(os.path.join(HERE, "MANIFEST.json"), "w") as fh:
        json.dump(man, fh, indent=1)
    print(f"MANIFEST.json: {len(checks)} checks, {len(nas)} not_applicable, {len(man['hooks']['source_commits'])} fix commits")


if __name__ == "__main__":
    main()
