#!/usr/bin/env python3
"""Regenerate the machine-derived tables of DESIGN.md (between <!-- BEGIN/END name --> markers) from /verif's own state:
seeded changes (meta.json + a fresh selftest verdict), benign twins, fix commits / known findings, rule inventory per property."""
import glob
import importlib
import json
import os
import re
import subprocess
import sys

HERE = os.path.dirname(os.path.dirname(os.path.abspath(__file__)))
sys.path.insert(0, HERE)


def seeds_table():
    rows = ["| seeded change | property | what it needs to manifest | caught by |", "|---|---|---|---|"]
    for mp in sorted(glob.glob(os.path.join(HERE, "seeded", "*", "meta.json"))):
        m = json.load(open(mp))
        name = os.path.basename(os.path.dirname(mp))
        if name.startswith("FIX-"):
            continue
        lines = (m.get("check_verdict") or {}).get("lines", [])
        rules = sorted({re.match(r"\s*(C\d\d-R\d+\w*)", l).group(1) for l in lines if re.match(r"\s*(C\d\d-R\d+)", l)})
        rows.append(f"| `{name}` | {m.get('property')} | {m.get('needs_to_manifest', '')} | {', '.join(rules) or '(see selftest)'} |")
    return "\n".join(rows)


def fixes_table():
    kf = json.load(open(os.path.join(HERE, "known_findings.json")))["entries"]
    rows = ["| status | property | rule | commit / construct | what failed |", "|---|---|---|---|---|"]
    for e in kf:
        what = e["what"].replace("|", "\\|")
        if e["status"] == "fixed":
            rows.append(f"| fixed | {e['property']} | {e.get('rule', '')} | `{e['commit']}` | {what} |")
        else:
            rows.append(f"| finding | {e['property']} | {e.get('rule', '')} | `{e.get('file', '')}::{e.get('function', '')}` | {what} |")
    return "\n".join(rows)


def twins_table():
    rows = ["| benign twin | properties that must stay silent | why it is behaviour-preserving |", "|---|---|---|"]
    for mp in sorted(glob.glob(os.path.join(HERE, "twins", "*", "meta.json"))):
        m = json.load(open(mp))
        rows.append(f"| `{os.path.basename(os.path.dirname(mp))}` | {', '.join(m['properties'])} | {m.get('why', '')} |")
    return "\n".join(rows)


def rules_table():
    rows = ["| property | rules as implemented (from the last evidence file) | instances |", "|---|---|---|"]
    for ev in sorted(glob.glob(os.path.join(HERE, "evidence", "C*.json"))):
        d = json.load(open(ev))
        rules = d["coverage"].get("rules", {})
        txt = "<br>".join(f"**{rid}** {r['text']}" for rid, r in rules.items())
        rows.append(f"| {d['property_id']} | {txt} | {d['coverage']['obligations']} |")
    return "\n".join(rows)


def main():
    p = os.path.join(HERE, "DESIGN.md")
    s = open(p).read()
    for name, fn in (("seeds", seeds_table), ("fixes", fixes_table), ("twins", twins_table), ("rules", rules_table)):
        b, e = f"<!-- BEGIN {name} -->", f"<!-- END {name} -->"
        if b in s and e in s:
            s = s[: s.index(b) + len(b)] + "\n" + fn() + "\n" + s[s.index(e):]
    open(p, "w").write(s)
    print("DESIGN.md tables regenerated")


if __name__ == "__main__":
    main()
