#!/usr/bin/env python3
"""Confirm a sub-agent mutation in its scratch worktree and file it under /verif/seeded/<id>/.

usage: confirm_seed.py <PROP> <worktree> <k> <seed-id> "<tests to run>" [--needs "..."]
Steps (all in the scratch worktree, never in /repo):
  clean tree: demo must pass;  apply mutation: demo must fail, listed tests must pass;  revert.
Then runs the property's check against a scratch copy of /repo with the patch applied and records the verdict.
"""
import json
import os
import shutil
import subprocess
import sys
import time

HERE = os.path.dirname(os.path.dirname(os.path.abspath(__file__)))
ENV = dict(os.environ, OMP_NUM_THREADS="2", MKL_NUM_THREADS="2", PYTHONDONTWRITEBYTECODE="1")


def sh(cmd, cwd, timeout=3000):
    p = subprocess.run(cmd, shell=True, cwd=cwd, env=dict(ENV, PYTHONPATH=cwd), capture_output=True, text=True, timeout=timeout)
    return p.returncode, (p.stdout + p.stderr)[-3000:]


def main():
    prop, wt, k, sid, tests = sys.argv[1:6]
    needs = sys.argv[sys.argv.index("--needs") + 1] if "--needs" in sys.argv else ""
    out = os.path.join(wt, "out")
    diff, demo = os.path.join(out, f"mutation_{k}.diff"), os.path.join(out, f"demo_{k}.py")
    ran = []
    rc, o = sh("git status --porcelain -- seqm scripts tests", wt)
    if o.strip():
        print("worktree not clean:", o)
        return 2
    is_pytest = "def test_" in open(demo).read() and "__main__" not in open(demo).read()
    demo_cmd = f"/venv/bin/python -m pytest -q -p no:cacheprovider {demo}" if is_pytest else f"/venv/bin/python {demo}"
    rc0, o0 = sh(demo_cmd, wt)
    ran.append({"cmd": demo_cmd + " (unmodified tree)", "exit": rc0})
    rc, o = sh(f"git apply {diff}", wt)
    if rc:
        print("apply failed", o)
        return 2
    try:
        rc1, o1 = sh(demo_cmd, wt)
        ran.append({"cmd": demo_cmd + " (mutation applied)", "exit": rc1, "tail": o1[-600:]})
        tcmd = f"/venv/bin/python -m pytest -q -p no:cacheprovider --timeout=900 -n 6 {tests}"
        t0 = time.time()
        rct, ot = sh(tcmd, wt)
        ran.append({"cmd": tcmd + " (mutation applied)", "exit": rct, "summary": ot.strip().splitlines()[-1] if ot.strip() else "", "wall_s": round(time.time() - t0)})
    finally:
        sh("git checkout -- seqm scripts tests", wt)
    ok = rc0 == 0 and rc1 != 0 and rct == 0
    print(f"demo clean={rc0} mutated={rc1} tests={rct} -> {'CONFIRMED' if ok else 'NOT CONFIRMED'}")
    if not ok:
        print(o0[-800:], "\n----\n", o1[-800:], "\n----\n", ot[-800:])
        return 1
    # verdict of our checks on a scratch copy of /repo's current tree
    p = subprocess.run(["/venv/bin/python", os.path.join(HERE, "tools", "mutate.py"), prop, "--patch", diff], capture_output=True, text=True, cwd=HERE)
    rebased = diff.replace(".diff", ".rebased.diff")
    if "PATCH FAILED" in p.stdout and os.path.exists(rebased):
        # the agent's worktree predates later fix: commits; an equivalent patch against the current tree is used for the check
        p = subprocess.run(["/venv/bin/python", os.path.join(HERE, "tools", "mutate.py"), prop, "--patch", rebased], capture_output=True, text=True, cwd=HERE)
        shutil.copy(rebased, os.path.join(HERE, "seeded", sid, "patch.rebased.diff")) if os.path.isdir(os.path.join(HERE, "seeded", sid)) else None
        os.makedirs(os.path.join(HERE, "seeded", sid), exist_ok=True)
        shutil.copy(rebased, os.path.join(HERE, "seeded", sid, "patch.rebased.diff"))
    verdict_lines = [l for l in p.stdout.splitlines() if l.startswith(("  C", "VIOLATION", "ANALYSIS", "C")) and "replay=" not in l]
    detected = "VIOLATION" in p.stdout
    d = os.path.join(HERE, "seeded", sid)
    os.makedirs(d, exist_ok=True)
    shutil.copy(diff, os.path.join(d, "patch.diff"))
    shutil.copy(demo, os.path.join(d, "demo.py"))
    notes = os.path.join(out, f"notes_{k}.md")
    if os.path.exists(notes):
        shutil.copy(notes, os.path.join(d, "notes.md"))
    meta = {
        "id": sid, "property": prop, "source": "independent sub-agent given only the property text and a scratch worktree",
        "needs_to_manifest": needs, "base_commit": subprocess.run(["git", "rev-parse", "HEAD"], cwd=wt, capture_output=True, text=True).stdout.strip(),
        "confirmed": ran,
        "check_verdict": {"detected": detected, "lines": [l[:400] for l in verdict_lines][:8], "at": time.strftime("%Y-%m-%dT%H:%M:%S")},
    }
    with open(os.path.join(d, "meta.json"), "w") as fh:
        json.dump(meta, fh, indent=1)
    print(f"filed {d}; detected={detected}")
    return 0


if __name__ == "__main__":
    sys.exit(main())
