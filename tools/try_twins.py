#!/usr/bin/env python3
"""Apply each out/twin_k.diff of a benign-twin worktree to a scratch copy of /repo and run every property's quick check on it (in parallel).
usage: try_twins.py <worktree> [k ...]        prints, per twin, the checks that are not silent"""
import glob, os, subprocess, sys, tempfile, shutil
from concurrent.futures import ThreadPoolExecutor
HERE = os.path.dirname(os.path.dirname(os.path.abspath(__file__)))
PROPS = [f"C{i:02d}" for i in range(1, 21)]

def run(prop, root):
    env = dict(os.environ, PYTHONDONTWRITEBYTECODE="1", VERIF_EVIDENCE_DIR=os.path.join(root, "_evidence_" + prop))
    p = subprocess.run(["/venv/bin/python", "-m", "sa.cli", prop, "--tier", "quick", "--repo", root], cwd=HERE, env=env, capture_output=True, text=True)
    return prop, p.returncode, p.stdout + p.stderr

def main():
    wt = sys.argv[1]
    odir = os.path.join(wt, "out") if os.path.isdir(os.path.join(wt, "out")) else wt
    only = os.environ.get("ONLY_PROPS")
    global PROPS
    if only:
        PROPS = only.split(",")
    ks = sys.argv[2:] or sorted({os.path.basename(f)[5:-5] for f in glob.glob(os.path.join(odir, "twin_*.diff"))})
    for k in ks:
        diff = os.path.abspath(os.path.join(odir, f"twin_{k}.diff"))
        d = tempfile.mkdtemp(prefix="pyseqm_twin_")
        try:
            for sub in ("seqm", "scripts"):
                shutil.copytree(os.path.join("/repo", sub), os.path.join(d, sub), ignore=shutil.ignore_patterns("__pycache__", "*.pyc"))
            r = subprocess.run(["patch", "-p1", "-s", "-f", "--no-backup-if-mismatch", "-d", d, "-i", diff], capture_output=True, text=True)
            if r.returncode:
                print(f"twin {k}: PATCH FAILED {r.stdout[:200]} {r.stderr[:300]}")
                continue
            with ThreadPoolExecutor(max_workers=10) as ex:
                res = list(ex.map(lambda p: run(p, d), PROPS))
            noisy = [(p, rc, out) for p, rc, out in res if rc != 0]
            print(f"twin {k}: " + (f"all {len(PROPS)} silent" if not noisy else "FLAGGED by " + ", ".join(f"{p}(rc={rc})" for p, rc, _ in noisy)))
            for p, rc, out in noisy:
                for l in out.splitlines():
                    if l.startswith(("  " + p, "ANALYSIS")):
                        print("    " + l[:420])
        finally:
            shutil.rmtree(d, ignore_errors=True)

main()
