#!/usr/bin/env python3
"""apply a patch to a scratch copy and run the interpreted output pipeline (sa/h5model.py) on it: try_pipeline.py <patch> [fresh|resume|both]"""
import os, shutil, subprocess, sys, tempfile, time
sys.path.insert(0, os.path.dirname(os.path.dirname(os.path.abspath(__file__))))
d = tempfile.mkdtemp(prefix="pyseqm_pipe_")
try:
    for sub in ("seqm", "scripts"):
        shutil.copytree(os.path.join("/repo", sub), os.path.join(d, sub), ignore=shutil.ignore_patterns("__pycache__", "*.pyc"))
    if sys.argv[1] != "-":
        r = subprocess.run(["patch", "-p1", "-s", "-f", "--no-backup-if-mismatch", "-d", d, "-i", os.path.abspath(sys.argv[1])], capture_output=True, text=True)
        if r.returncode:
            print("PATCH FAILED", r.stdout, r.stderr); sys.exit(3)
    which = sys.argv[2] if len(sys.argv) > 2 else "both"
    os.environ["VERIF_NORM_LEVEL"] = os.environ.get("VERIF_NORM_LEVEL", "0")
    from sa.loader import Repo, AnalysisError
    from sa import h5model
    repo = Repo(d)
    t = time.time()
    try:
        if which in ("fresh", "both"):
            for tb, msgs in h5model.interpreted_fresh_runs(repo):
                if msgs: print("FRESH", tb, msgs[:2])
        if which in ("resume", "both"):
            for tb, ck, msgs, n in h5model.interpreted_resume_runs(repo):
                if msgs: print("RESUME", tb, ck, n, msgs[:2])
    except AnalysisError as e:
        print("ANALYSIS-ERROR", e)
    print("done %.1fs" % (time.time() - t))
finally:
    shutil.rmtree(d, ignore_errors=True)
