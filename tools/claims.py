# Claims table, exec'd by gen_manifest.py.  claim(pid, technique, level text, level note, design_ref)

claim("C11",
      "abstract interpretation of the run loop, output setup and writers against a model of HDF5 / text files (sa/h5model.py + sa/npsym.py, finite cadence tables, [EA+]); "
      "config-key taint on step-modulo guards (call-site + in-sink, polarity aware) + integer re-interpretation of allocation/cursor formulas as the shape-based layer",
      "Decides, for every output stream C11 enumerates, that the only step-dependent gates controlling its write derive from the "
      "stream's own cadence key, hold as 'step is a multiple', test the same step label that is stored, carry a positivity "
      "guard (zero suppresses), that the initial snapshot is written and allocated, and that the allocation / resume-cursor "
      "formulas equal the number of due steps on an exhaustive small-integer domain. This covers every cadence tuple by "
      "construction (independence is shown by taint, not by sampling tuples). In addition (R8) the base engine's run loop, its output setup, OutputConfig, HDF5Writer and "
      "XYZWriter are interpreted from their syntax trees against a model of h5py / text files for 16 cadence tables (every stream switched off somewhere, every stream alone "
      "somewhere, coprime cadences, permuted molecule ids, excited-state sub-streams) and for kill-and-resume at every loop iteration; the rows that end up in each sink must be "
      "exactly the due steps, labelled and filled with that step's stamped values. Where R8 holds, findings of the shape-based rules about the same code are not reported "
      "(they are then artefacts of spelling); the gating of the nonadiabatic stream inside the surface-hopping engine stays with the shape-based rules.",
      "Does not decide that stored values equal the state (see C08 bookkeeping rule) nor h5py behaviour. Trusted: guard-shape "
      "recognition (X % Y ==/!= 0 under and/or/not, enclosing ifs, early exits), def-chain label resolver, integer evaluator.",
      "DESIGN.md section 4, C11")

claim("C10",
      "abstract interpretation of run loop + writers + save_checkpoint + run_from_checkpoint against a model of the file system with flush semantics (sa/h5model.py, kill at every "
      "loop iteration and right after every checkpoint publish, [EA+]); CFG must-pass-through / dominance on the checkpoint and step-loop code, who-may-call on torch.save, typed-dictionary key-flow "
      "(writer vs reader keys), resume-path positioning of every sink, interprocedural flow-sensitive loop-carried-state analysis of every engine's step (must-write dataflow)",
      "Decides the crash-consistency protocol on all CFG paths: atomic temp+os.replace checkpoint write reached by every "
      "save_checkpoint; every output event of an iteration flushed before the checkpoint on every path; every key the resume "
      "code reads is written by a checkpoint writer; every sink reopened on resume positions itself from step_offset (HDF5 "
      "cursors, XYZ truncation); RNG state captured/restored in the right order with no re-seed; absolute step labels; no "
      "one-time initialisation repeated on resume; every attribute of the driver or the molecule that carries a value from one step into the "
      "next (per concrete engine class) is written by the checkpoint writer chain and assigned on the resume path, or recomputed by initialize() "
      "from restored molecule state, or is an inventoried scratch/report attribute. These are for-all-crash-point statements because they are "
      "path/ordering facts, not sampled crashes. R10 adds the by-value reading for the base engine: the interpreted uninterrupted run is compared, file by file, with the "
      "interpreted resumed run from every kill point, for the files as written and for the files as of their last flush (what a hard kill leaves), through the real "
      "save_checkpoint / run_from_checkpoint code (torch.save, os.replace, torch.load replaced by a model disk). R11 shares C09's restart-slot rule.",
      "Does not decide byte equality of HDF5 datasets, torn writes inside libhdf5, or that the restored tensors are numerically "
      "sufficient to reproduce the trajectory. Trusted: CFG builder, key-flow inference, os.replace atomicity.",
      "DESIGN.md section 4, C10")

claim("C08",
      "CFG event-word typestate of all integrator steps + sympy normal form of event coefficients + constant analysis of unit constants + def/use freshness on the run loop",
      "Decides that every path of each of the five step implementations is T?-K-D-E-A-K-T? with exactly the velocity-Verlet "
      "coefficients (the shape that makes the scheme symmetric, second order and reversible), that the unit constants are "
      "mutually reciprocal and equal CODATA to 1e-6, that Ek/T/V handed to every writer are recomputed after the last velocity "
      "mutation of the iteration on every path, that whole-batch values are written under the right molecule id, that the COM "
      "projection uses COM-relative positions and restores kinetic energy, and inventories every write to the phase-space state.",
      "Does not decide measured order, reversibility error, drift or momentum conservation of the force field itself (Newton's "
      "third law is C01-R4). Trusted: event recognition by attribute name on `molecule`, sympy, embedded CODATA values.",
      "DESIGN.md section 4, C08")

claim("C09",
      "constant analysis of the literal coefficient table against the published table + root locus; constant propagation of the coefficient "
      "block; linear-form extraction of every propagate variant; integer re-interpretation of the circular-buffer index expressions; sympy identity for E(D,P)",
      "Exhaustive over k=3..9 and over every buffer/restart phase for m=4..10: table = Niklasson Table I, sum c = 0, root locus "
      "inside the unit disk for kappa_eff in (0,kappa]; the coefficients actually built and every propagate variant reproduce a "
      "stationary density; slot/coefficient age pairing, oldest-slot overwrite and restart read are consistent; shadow energy "
      "reduces to the SCF energy at D=P.",
      "Does not decide the rank-m kernel numerics, Fermi-operator expansion or measured drift. Trusted: embedded published table, numpy.roots, sympy.",
      "DESIGN.md section 4, C09")

claim("C12",
      "abstract interpretation of Molecular_Dynamics_Langevin.initialize on a symbolic driver / molecule (sa/npsym.py, [EA+]: identities checked on whatever the routine leaves in "
      "langevin_c1 / langevin_c2, every input changed alone between repeated calls); expression algebra (sympy) on the def-chain as the shape-based layer; CFG event words + interpreted O-V-O step for placement",
      "Decides the fluctuation-dissipation identity c1^2 + c2^2/(k_B T/m) = 1 identically in dt, damp, T and mass, c1 = exp(-dt/2damp), "
      "the limits damp->inf and T=0, the exact shape of the O-step (fresh unit normal per component, global generator) and its "
      "placement as first and last event of every thermostatted path under one condition, and the degrees-of-freedom accounting. The coefficient identities are decided by value: "
      "initialize() is interpreted with symbolic dt, damp, T and inverse masses, so helper functions, records and temporaries do not matter, and a memo that survives a change of "
      "masses / time step / damping time / temperature is visible (each is changed alone between calls on the same object).",
      "Does not decide the long-run mean temperature (statistical). Trusted: sympy, torch.randn_like semantics.",
      "DESIGN.md section 4, C12")

claim("C13",
      "CFG reachability with transitive mod-ref on velocities, dominance of seeding, sympy check of the draw/rescale chain, ZeroOnPad abstract interpretation",
      "Decides that user velocities reach step 0 untouched on every path, that the seed dominates initialisation and the loop with "
      "the caller's value and nothing else re-seeds, the exact-rescale chain of the Maxwell-Boltzmann draw, that every in-place "
      "velocity update adds a value that is zero on padding rows, and the COM-removal mode validation / momentum expressions / "
      "kinetic-energy restoration.",
      "The COM projection and the initial draw are decided by their postconditions, obtained by interpreting the routines with exact arithmetic on a padded batch (sa/npsym.py): zero "
      "linear / angular momentum per molecule, kinetic energy restored, padding at rest, every molecule's own temperature exactly Temp. "
      "Does not decide the realised temperature distribution or momenta magnitudes over draws. Assumes mass, mass_inverse and force are zero on padding rows.",
      "DESIGN.md section 4, C13")

claim("C17",
      "symbolic straight-line interpretation of the RK4 sub-step (sympy); abstract interpretation (sa/npsym.py, exact rational requests, [EA+]) of the fewest-switches selection, "
      "of the velocity adjustment and of the hop-loop bookkeeping; row-0 who-may-read rules; expression algebra on the Tully surfaces",
      "Decides the RK4 stage/weight structure of the electronic propagation, the clamp->sum->normalise->single-draw shape of the "
      "fewest-switches probabilities, that the velocity adjustment as coded conserves energy identically and takes the smaller "
      "root along the mass-weighted coupling vector, that no path reporting a frustrated hop wrote velocities or active state, "
      "and that per-trajectory data are never indexed by another trajectory's index or broadcast from row 0.",
      "Does not decide norm conservation numerically, nor that the trivial-crossing relabel is a permutation. One recorded known "
      "finding (batch-global RK4 sub-step count). Trusted: sympy; rhs_amp treated as an opaque right-hand side.",
      "DESIGN.md section 4, C17")

claim("C20",
      "CFG ordering/dominance in onestep, sympy normal form of the update, guard extraction for the stop test, flag-sensitive tagged reachability for the report",
      "Decides that each iteration evaluates, then reads the fresh force, then applies x += alpha*force once under no_grad; that the "
      "loop is capped by range(max_evl) and breaks exactly on max|force| <= tol; that the returned values are the last evaluation's; "
      "that 'not converged' is reachable only through loop exhaustion and 'converged' only through break on all flag-feasible "
      "paths; that the only coordinate write is zero on padding rows and free of batch reductions.",
      "Does not decide monotone descent. Assumes force = -dE/dx and zero on padding (C01). Report statements are found by their message literals (also through module-level string "
      "constants). The residual is recognised by structure (any chain of max-reductions over |force|; per-molecule maxima under all()/any() in the stop test), the energy change as a linear form.",
      "DESIGN.md section 4, C20")

claim("C03",
      "counter-rule loop-boundedness over per-function CFGs (all `while` loops in seqm/ and scripts/), def-use pass-through of the convergence flag, "
      "boolean dataflow of the convergence mask, constant folding of thresholds, loop-invariant taint from the start density (R8), abstract interpretation of the density builders "
      "on designed Fock matrices with exact eigendecomposition (sa/densitymodel.py, R9, [EA+])",
      "Decides termination structurally for every `while` loop in the package (counter stepped on every cycle and compared with an "
      "invariant bound, or end-of-file I/O loop), that the per-molecule flag returned to the caller is exactly the result of the "
      "convergence test in every driver and through every layer up to Electronic_Structure.notconverged, that the test contains "
      "all four criteria against eps times a bounded module constant combined by `|`, that eps reaches it unchanged, and that "
      "MAX_ITER caps every driver. R8: nothing computed once from the start density (its trace, its diagonal) enters the iteration except the iterate and loop-carried state, so the "
      "fixed point does not depend on the initial density. R9: every diagonalisation arm of make_Pnew_factory (forward / unrolled, restricted / unrestricted) returns, for padded, "
      "homogeneous, equal-size-different-layout and single batches, exactly 2 x the projector on the lowest nocc eigenvectors of each molecule's own Fock block (hence symmetric, "
      "trace 2 nocc, idempotent, commuting with F, reproduced on re-diagonalisation, nothing on padding orbitals) -- exact rational arithmetic on the interpreted source.",
      "Does not decide the SP2 purification arm by value (exact squaring of rational matrices is too slow; it is read by structure), the convergence of the iteration itself, nor termination of "
      "library calls. Trusted: sa.loops counter rule, CFG builder.",
      "DESIGN.md section 4, C03")

claim("C07",
      "inventory/who-may-cut rule on graph-breaking operations along the energy path, interface checks of the four autograd Functions, "
      "sympy implicit-function-theorem check of the rho1/rho2 backward, CFG dominance of the detach in the SCF adjoint",
      "Decides that caller-supplied parameter tensors reach molecule.parameters without a graph cut and that no new graph cut "
      "appears on the energy path; that every custom backward returns one cotangent per forward input, unpacks saved tensors in "
      "the saved order and lines SCF's cotangents up with (M, w, W, gss, gpp, gsp, gp2, hsp); that the rho1/rho2 backward is the "
      "implicit-function derivative of the very residual the forward solves; that the SCF adjoint differentiates detached "
      "leaves, reads no class state, and that the unrolled mode updates the density out of place.",
      "Does not decide finite-difference agreement or Hessian symmetry numerically. Trusted: sympy (with a 60-digit random-point "
      "identity test where radicals do not normalise), frozen inventory of accepted cuts (each with a reason).",
      "DESIGN.md section 4, C07")

claim("C15",
      "effect / mod-ref inventory: class-level and module-level mutable state, cache-key completeness, taint classification of stores into "
      "caller settings dictionaries, sibling agreement of the parameter preparers, mutable-default writers, process-global setters",
      "Decides absence of hidden persistent state by exhaustively inventorying where state that outlives a call can be written: "
      "autograd Functions keep nothing on the class that a later pass reads; the only module-level mutable objects written inside "
      "functions are three caches whose keys contain every input of the cached value and whose id() bases are immortal constants; "
      "every store into a caller's settings dictionary is configuration-derived (one recorded known finding: 'elements'); optional "
      "parameter keys cannot be persisted, sibling preparers reset the same keys; process-global setters are a fixed list.",
      "Does not decide thread-count independence or bitwise repeatability (floating-point reduction order is a run-time fact). "
      "Trusted: the frozen inventories with reasons; single-threaded Python driver.",
      "DESIGN.md section 4, C15")

claim("C01",
      "sibling def-chain agreement between energy-side and derivative-side integral pipelines, truth-table comparison of special-case predicates, "
      "affine analysis of finite-difference stencils, CFG force-assembly rule, sympy derivative of the symbolically interpreted core-core energy and of all 27 local-frame integrals, "
      "abstract interpretation of the rotation / contraction routines over symbolic tensors (sa/npsym.py) with polynomial-identity tests",
      "Decides that the analytical derivative code differentiates the same parameter pipeline the energy code evaluates, that the "
      "core-core special cases and method dispatch agree on every element pair, that every semi-numerical stencil is central, "
      "restoring and differenced in the right order, that forces are minus the gradient of the reported energy with a clean "
      "gradient buffer and an antisymmetric real-atom scatter (padding rows exactly zero), and - by expression algebra - that the "
      "analytical core-core gradient equals the derivative of the core-core energy for all six (method, X-H) cases and that every "
      "element of the local-frame derivative kernel der_TETCILF (22 heavy-heavy, 4 heavy-hydrogen, 1 hydrogen-hydrogen) is d/dr of the "
      "corresponding energy integral (element interpreter + sympy differentiation, 45-digit identity test at random rational points).",
      "Also decided (third pass, all by interpreting the source over symbolic arrays, sa/npsym.py): the derivative of the rotated integrals is the product-rule derivation of the "
      "polynomial the energy routine stores at the same packed index (110 exact identities, three directions), the frame derivative assembled from the quaternion builder's gradient "
      "branch and the Jacobian of the normalisation is d/du of the energy-side frame (27 identities), e1b_x/e2a_x are the energy's core-electron map, and the density contraction "
      "contract_ao_derivatives_with_density equals the derivative of the package's own elec_energy(fock(hcore)) at fixed density for RHF and UHF on a padded batch (exact rationals). "
      "Does not decide numerical agreement of whole-energy finite differences (truncation error of the finite-difference routines, SCF convergence error), the excited-state Z-vector "
      "gradient, or the overlap derivative beyond its stencil. Trusted: sympy, the interpreters (validated by seeded variants and regression mutants).",
      "DESIGN.md section 4, C01")

claim("C04",
      "CFG event words over the SCF drivers (sibling agreement), argument-list agreement of all Fock builds, sympy reduction of the unrestricted "
      "one-centre terms to the restricted formulas, attribute-universe check on Molecule reads, loop-invariant taint from the start density (R7), density builders by value (R8, sa/densitymodel.py, [EA+])",
      "Decides the structural reasons why solver paths agree: every driver iterates density-builder -> Fock -> energy -> the same "
      "convergence test with identical Fock arguments and builders obtained from one factory; unrolled and in-place arms compute "
      "the same update; the unrestricted halving is present in every driver and in the adjoint; the unrestricted one-centre and "
      "exchange terms reduce algebraically to the restricted NDDO formulas for a closed shell; every attribute read on a Molecule "
      "exists (a typo kills exactly one configuration). R7: the iterated map keeps no memory of the start density (restart independence). R8: all diagonalisation arms of the "
      "builder factory return the same aufbau projector of each molecule's own Fock block, by value.",
      "This is the thinnest claim in the set: numerical agreement between solver configurations and monotone approach to the "
      "limit are NOT decided; they follow from C03's convergence clauses only for a unique fixed point. Trusted: sympy, CFG.",
      "DESIGN.md section 4, C04")

claim("C06",
      "abstract interpretation over a linearity lattice, constant folding of every literal packing table against its formula, sympy comparison of "
      "symbolically extracted one-centre terms with the published NDDO formulas, truth tables of core-core predicates, name/position "
      "agreement at 100+ long positional call sites",
      "Decides the algebraic facts of the model that do not need a numerical oracle: the two-electron operator is affine in P "
      "(response operator G homogeneous linear); all 45 literal pair-index / weight / triangle tables satisfy their defining "
      "formulas (Coulomb permutational symmetry of the packed integrals); the one-centre two-electron terms in fock and G equal "
      "the published formulas (independent oracle embedded in the checker); core-core special cases and Gaussian counts equal the "
      "method definitions; no long positional call swaps same-typed arguments.",
      "Also decided since the second round: all 22 heavy-heavy, 4 heavy-hydrogen and the H-H local-frame two-centre integrals equal a "
      "first-principles Dewar-Thiel point-charge oracle (sa/multipole.py: only the point-charge pictures of the six sp charge distributions, "
      "the Klopman-Ohno interaction and rotational invariance are embedded; the two axis-orientation bits are fitted on two integrals and then "
      "predict the other twenty); block reshape/transpose chains keep axis meaning; no pure tensor result is discarded; the h_pp floor. "
      "Not decided: Slater overlap branches, the rho0/rho1/rho2 *values* produced by the secant solvers, the rotation to the molecular frame "
      "(C02), parameter CSV contents. Third pass: both Fock builders (RHF, UHF; sp symbolic, spd with exact rationals and the d-shell W terms switched off) equal the textbook NDDO "
      "operator F = H + sum P (mn|ls) - P^s (ml|ns) on a padded symbolic batch, the core Hamiltonian assembly (U, partners' core-electron blocks, 1/2 (beta+beta) S, Kbeta) and the "
      "energy functionals (elec_energy closed/open shell, isolated-atom energy) equal their definitions -- all by abstract interpretation of the source (sa/npsym.py). "
      "Trusted: sympy, 45-digit evaluation at random rational points for the identity tests.",
      "DESIGN.md section 4, C06")

claim("C14",
      "positional producer/consumer agreement of result tuples along the call chain, expression checks of the energy assembly, gap index and charge/dipole formulas",
      "Decides that no observable is swapped or dropped between the function that computes it and the attribute that publishes it "
      "(6 pipeline edges), that Etot/Hf/excitation/dispersion are assembled in the right order exactly once, that every gap is "
      "e[nocc]-e[nocc-1] of its own spin block, and that charges and dipole are computed from the reported density with the "
      "method's orbital count and the same core charges.",
      "Energy bookkeeping (total_energy, heat_formation, elec_energy), atomic charges (closed/open shell, 4/9 orbitals) and the ground-state dipole are decided by interpreting the "
      "routines over symbolic arrays on padded batches (sa/npsym.py) -- including a batch whose atom count is a multiple of the batch size although the molecules differ. "
      "Does not decide numerical identities (eigenvalues of the reported Fock matrix, dipole vs charges). Trusted: alias map of names, sympy.",
      "DESIGN.md section 4, C14")

claim("C02",
      "dependence analysis over the lattice {constant, piecewise-constant, smooth} in the frame builders (chart-site detection), constant folding of chart "
      "thresholds, who-may-read inventory of absolute coordinates, radial-form analysis of the pair predicate, re-interpretation of the integral rotation "
      "loop against the tensor-transformation law with a first-principles local tensor (exact random rotations), two-chart symbolic orthonormality of the frames",
      "Decides where the local->molecular frame builders substitute a constant for a smoothly varying value under a condition on "
      "the bond vector (the mechanism by which forces lose covariance on a measure-zero but user-typical set while energies stay "
      "invariant), bounds the size of those regions, and decides that absolute coordinates enter the package only as differences "
      "or through the inventoried origin-dependent consumers. The two charts present at this commit are recorded known findings "
      "(triaged at run time); a new chart site or an enlarged region is a violation. Since the second round it also decides that all 100 + 10 "
      "packed molecular-frame two-electron integrals are the tensor transform of the local-frame integrals for every orthogonal frame (the local "
      "tensor comes from the point-charge oracle of C06, so its axial symmetry is derived, not assumed), that the quaternion frame is orthogonal "
      "with its first row on the bond vector on both charts, that the Euler-angle frames of the overlap routines are unit vectors on both charts, "
      "that the pair selection is the rotation-invariant sphere, and that the one-centre Fock terms are isotropic in the p shell. R7: the p and d blocks of the spd rotation table "
      "(GenerateRotationMatrix, interpreted on twelve exact unit vectors: generic in several octants, planar, axial) are orthogonal matrices -- a necessary condition of invariance that a "
      "mistyped / halved / sign-flipped d entry breaks off the coordinate planes.",
      "Does not decide the Slater-Koster overlap rotation formulas themselves, that the d block is the *right* orthogonal representation (only that it is orthogonal), or anything numerical. "
      "Trusted: dependence lattice, sympy, 40-digit evaluation at exact rational rotations.",
      "DESIGN.md section 4, C02")

claim("C18",
      "guard table decided by three-valued CFG exploration under the violating valuation (no path to the normal exit or to a result producer), "
      "predicate checks on the guard operands (comparison direction, electron count algebra, occupation range, routine table), call-order dominance in the callers",
      "Decides, for each of the 33 documented preconditions / unsupported combinations in the table, that every control-flow path a "
      "violating request can take through the guarding function ends in a raise before the function returns or calls a result "
      "producer, however the guard is spelled; that the guard operands are the documented predicates (non-increasing adjacent "
      "comparison, valence electrons minus charge, N/2 +- (mult-1)/2, 0 <= nocc <= norb, the jcall table); and that check_input runs "
      "before parsing and the solver factory before the first SCF iteration.",
      "The validators that can be interpreted (check_input exhaustively on 2x3 arrays over {0,1,2}; the electron-count guards of Parser.forward and the COM-mode validation on concrete "
      "requests, sa/npsym.py) are decided that way, independent of the spelling of the guard; the flow-graph exploration decides the other rows and is the fallback. "
      "Does not decide the second sentence of C18 (finite results or a flag for every accepted input): that quantifies over floating point "
      "values of exp/sqrt/division chains. Atom spellings are enumerated; a re-spelling outside the enumerated forms is reported as a missing test. "
      "Trusted: CFG builder, meaning of .any()/.all()/torch.equal/isinstance.",
      "DESIGN.md section 4, C18")

claim("C19",
      "def-chain analysis of the pair-list predicate (radial-form recognition, power/cutoff agreement), masked-call discipline for the overlap routines, "
      "affine distance taint + frozen threshold inventory, core-electron blocks of the interpreted rotation routine (sa/npsym.py), sympy limits of the symbolically interpreted core-core energy",
      "Decides the cutoff clause completely at the source level (the kept set is the open ball of the configured radius in the raw coordinate "
      "difference, nothing else filters pairs, default radius is infinite for any molecule) and the structural necessary conditions of "
      "additivity: no other distance switch exists apart from the inventoried overlap truncation at 40 bohr, overlap routines never see "
      "pairs beyond it, every core-electron element is -Z_partner (mu nu|ss) of the same rotated integrals, core-core tends to "
      "Z_A Z_B (ss|ss) with corrections o(r^-6).",
      "Does not decide the numerical decay exponent of the residual interaction nor the asymptotics of the multipole integrals themselves. "
      "Trusted: sympy limits, radial-form recogniser (square-sum / norm spellings enumerated).",
      "DESIGN.md section 4, C19")

claim("C16",
      "solver-protocol conformance of the three Davidson drivers: counter-rule loop bound + CFG exit analysis, guard extraction on `done` stores, "
      "row-selector provenance (mask / index def-chains) for result-buffer stores, slice/eigh shape of the reported block, tuple-binding and "
      "co-permutation checks of the MO matching helper",
      "Decides the clauses of C16 that are properties of the iteration protocol rather than of numbers: a molecule is reported converged only "
      "through the residual test against the caller's tolerance (or the inventoried stagnation exit), running out of iterations always raises, "
      "converged eigenpairs are frozen against later iterations of slower batch mates (batch-composition independence of the stored result), the "
      "reported energies are the contiguous lowest block of an ascending eigh, orbital energies stay paired with re-ordered orbitals across "
      "geometry sequences, and AO-basis guesses are orthonormalised. Because convergence is judged by the residual only, the answer cannot "
      "depend on the starting guess beyond the tolerance.",
      "Third pass: the sigma build IS decided -- makeA_pi_batched(T) = J[T] - 1/2 K[T] for a non-symmetric transition density (polynomial identity in T) and "
      "matrix_vector_product_batched = (e_a - e_i) V + [2 (ia|jb) - (ij|ab)] V (A) / the transposed contraction (B), chunked and unchunked, on a uniform batch with hydrogen packing "
      "(sa/npsym.py, exact rationals). Does not decide that no lower root is missed (root skipping near degeneracy), "
      "orthonormality to machine precision, or RPA <= CIS: those need the dense matrix as an oracle. Stagnation exits are inventoried, not judged. "
      "Trusted: eigh ordering, guard extraction.",
      "DESIGN.md section 4, C16")

claim("C05",
      "representative-row rule decided by guard extraction + interprocedural requirement propagation over the resolved call graph; spin-flatten expansion lint; "
      "masked-occupation def-use rule; Parser.forward interpreted on concrete padded batches (sa/npsym.py); symbol-occurrence non-interference on interpreted outputs (dipole) and "
      "density builders by value on padded / mixed-layout batches (R6, [EA+])",
      "Decides four structural necessary conditions of batch transparency for every batch composition at once: no per-molecule size or "
      "occupation is taken from row 0 for the whole batch unless a uniformity fact about that same quantity holds there (locally or on "
      "every call chain from the entry points; same species does not discharge nocc), per-molecule vectors follow the (m0a, m0b, m1a, ...) "
      "order of spin-flattened matrices, fractional occupations never leak onto padding orbitals, and the flattened block indices "
      "(maskd, mask, mask_l, atom_molid, pair_molid, idxi/idxj) and the aligned per-pair records (atomic numbers, distance, unit vector) equal their definitions on ~40 interpreted "
      "padded batches (1-3 molecules, every real-atom count, finite and infinite cutoff). R6: the interpreted dipole of each molecule of a padded symbolic batch contains no "
      "padding-slot coordinate and no batch-mate symbol (non-interference read off the polynomial), and the density builders give each molecule the projector of its own block.",
      "Does not decide numerical equality of alone-vs-batched results, batch-coupled control flow inside converged tolerances (DIIS resets, "
      "shared Newton loops), or same-element atom permutation covariance. Two chains (nonadiabatic drivers, XL-ESMD) are discharged by "
      "protocol facts confirmed at run time and inventoried in the rule. Trusted: name-based recognition of per-molecule quantities, "
      "callee resolution by simple name.",
      "DESIGN.md section 4, C05")
