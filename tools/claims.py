# Claims table, exec'd by gen_manifest.py.  claim(pid, technique, level text, level note, design_ref)

claim("C11",
      "config-key taint on step-modulo guards (call-site + in-sink, polarity aware) + integer re-interpretation of allocation/cursor formulas",
      "Decides, for every output stream C11 enumerates, that the only step-dependent gates controlling its write derive from the "
      "stream's own cadence key, hold as 'step is a multiple', test the same step label that is stored, carry a positivity "
      "guard (zero suppresses), that the initial snapshot is written and allocated, and that the allocation / resume-cursor "
      "formulas equal the number of due steps on an exhaustive small-integer domain. This covers every cadence tuple by "
      "construction (independence is shown by taint, not by sampling tuples).",
      "Does not decide that stored values equal the state (see C08 bookkeeping rule) nor h5py behaviour. Trusted: guard-shape "
      "recognition (X % Y ==/!= 0 under and/or/not, enclosing ifs, early exits), def-chain label resolver, integer evaluator.",
      "DESIGN.md section 4, C11")

claim("C10",
      "CFG must-pass-through / dominance on the checkpoint and step-loop code, who-may-call on torch.save, typed-dictionary key-flow "
      "(writer vs reader keys), resume-path positioning of every sink",
      "Decides the crash-consistency protocol on all CFG paths: atomic temp+os.replace checkpoint write reached by every "
      "save_checkpoint; every output event of an iteration flushed before the checkpoint on every path; every key the resume "
      "code reads is written by a checkpoint writer; every sink reopened on resume positions itself from step_offset (HDF5 "
      "cursors, XYZ truncation); RNG state captured/restored in the right order with no re-seed; absolute step labels; no "
      "one-time initialisation repeated on resume. These are for-all-crash-point statements because they are path/ordering "
      "facts, not sampled crashes.",
      "Does not decide byte equality of HDF5 datasets, torn writes inside libhdf5, or that the restored tensors are numerically "
      "sufficient to reproduce the trajectory. Trusted: CFG builder, key-flow inference, os.replace atomicity.",
      "DESIGN.md section 4, C10")
