# Claims table, exec'd by gen_manifest.py.  claim(pid, technique, level text, level note, design_ref)

claim("C11",
      "config-key taint on step-modulo guards (call-site + in-sink, polarity aware) + integer re-interpretation of allocation/cursor formulas",
      "Decides, for every output stream C11 enumerates, that the only step-dependent gates controlling its write derive from the "
      "stream's own cadence key, hold as 'step is a multiple', test the same step label that is stored, carry a positivity "
      "guard (zero suppresses), that the initial snapshot is written and allocated, and that the allocation / resume-cursor "
      "formulas equal the number of due steps on an exhaustive small-integer domain. This covers every cadence tuple by "
      "construction (independence is shown by taint, not by sampling tuples).",
      "Does not decide that stored values equal the state (see C08 bookkeeping rule) nor h5py behaviour. Trusted: guard-shape "
      "recognition (X % Y ==/!= 0 under and/or/not, enclosing ifs, early exits), def-chain label resolver, integer evaluator.",
      "DESIGN.md section 4, C11")
