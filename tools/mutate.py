#!/usr/bin/env python3
"""Apply one textual edit (or a patch file) to a scratch copy of /repo's working tree and run a check on it.

usage: mutate.py <PROP> <relfile> <old> <new>      (exact, unique substring replacement)
       mutate.py <PROP> --patch <file.diff>
The scratch copy lives under a fresh mkdtemp outside /repo and /verif and is removed afterwards.
"""
import os
import shutil
import subprocess
import sys
import tempfile

HERE = os.path.dirname(os.path.dirname(os.path.abspath(__file__)))


def scratch_copy():
    d = tempfile.mkdtemp(prefix="pyseqm_mut_")
    for sub in ("seqm", "scripts"):
        shutil.copytree(os.path.join("/repo", sub), os.path.join(d, sub), ignore=shutil.ignore_patterns("__pycache__", "*.pyc"))
    return d


def run_check(prop, root, tier="quick"):
    env = dict(os.environ, PYTHONDONTWRITEBYTECODE="1", VERIF_EVIDENCE_DIR=os.path.join(root, "_evidence"))
    p = subprocess.run(["/venv/bin/python", "-m", "sa.cli", prop, "--tier", tier, "--repo", root], cwd=HERE, env=env,
                       capture_output=True, text=True)
    return p.returncode, p.stdout + p.stderr


def main():
    prop = sys.argv[1]
    d = scratch_copy()
    try:
        if sys.argv[2] == "--patch":
            r = subprocess.run(["git", "apply", "--unsafe-paths", "--directory", d, os.path.abspath(sys.argv[3])], capture_output=True, text=True, cwd=d)
            if r.returncode:
                r = subprocess.run(["patch", "-p1", "-d", d, "-i", os.path.abspath(sys.argv[3])], capture_output=True, text=True)
            if r.returncode:
                print("PATCH FAILED", r.stdout, r.stderr)
                return 3
        else:
            regex = sys.argv[2] == "--sub"   # mutate.py PROP --sub relfile regex repl [regex repl ...]: every match is replaced
            rel = sys.argv[3] if regex else sys.argv[2]
            pairs = sys.argv[4:] if regex else sys.argv[3:]
            p = os.path.join(d, rel)
            s = open(p).read()
            for old, new in zip(pairs[0::2], pairs[1::2]):
                if regex:
                    import re
                    s, n = re.subn(old, new, s)
                    if not n:
                        print(f"regex does not match: {old!r}")
                        return 3
                    continue
                if s.count(old) != 1:
                    print(f"edit does not apply uniquely ({s.count(old)} matches): {old[:60]!r}")
                    return 3
                s = s.replace(old, new)
            open(p, "w").write(s)
            compile(open(p).read(), p, "exec")
            name = os.environ.get("SAVE_TWIN")
            if name:
                # record the edit as a benign twin: a behaviour-preserving variant every listed check must accept
                import difflib, json
                a = open(os.path.join("/repo", rel)).read().splitlines(keepends=True)
                b = s.splitlines(keepends=True)
                diff = "".join(difflib.unified_diff(a, b, "a/" + rel, "b/" + rel))
                td = os.path.join(HERE, "twins", name)
                os.makedirs(td, exist_ok=True)
                open(os.path.join(td, "patch.diff"), "w").write(diff)
                json.dump({"properties": prop.split(","), "expect": "pass", "why": os.environ.get("TWIN_WHY", "")}, open(os.path.join(td, "meta.json"), "w"), indent=1)
            name = os.environ.get("SAVE_MUTANT")
            if name:
                # record the edit as a checker regression mutant (written by the author of the checker, not an independent seed)
                import difflib, json
                a = open(os.path.join("/repo", rel)).read().splitlines(keepends=True)
                b = s.splitlines(keepends=True)
                diff = "".join(difflib.unified_diff(a, b, "a/" + rel, "b/" + rel))
                td = os.path.join(HERE, "mutants", name)
                os.makedirs(td, exist_ok=True)
                open(os.path.join(td, "patch.diff"), "w").write(diff)
                json.dump({"properties": prop.split(","), "expect": "violation", "why": os.environ.get("MUTANT_WHY", "")}, open(os.path.join(td, "meta.json"), "w"), indent=1)
        for pr in prop.split(","):
            rc, out = run_check(pr, d)
            lines = [l for l in out.splitlines() if l.startswith(("VIOLATION", "ANALYSIS", "KNOWN", "  C")) or l.startswith("[")]
            print("\n".join(lines))
            print(f"{pr} exit={rc}")
    finally:
        shutil.rmtree(d, ignore_errors=True)


if __name__ == "__main__":
    sys.exit(main())
