#!/usr/bin/env python3
"""show_normalized.py <patch.diff> <relfile> <qualname>: print the normalised source of one function of the patched tree"""
import ast, os, shutil, subprocess, sys, tempfile
HERE = os.path.dirname(os.path.dirname(os.path.abspath(__file__)))
sys.path.insert(0, HERE)
from sa.loader import Repo
diff, rel, q = sys.argv[1:4]
d = tempfile.mkdtemp(prefix="pyseqm_norm_")
try:
    for sub in ("seqm", "scripts"):
        shutil.copytree(os.path.join("/repo", sub), os.path.join(d, sub))
    subprocess.run(["patch", "-p1", "-s", "-f", "-d", d, "-i", os.path.abspath(diff)], check=True)
    m = Repo(d).mod(rel)
    print("normalized:", m.normalized)
    print(ast.unparse(m.func(q)))
finally:
    shutil.rmtree(d, ignore_errors=True)
