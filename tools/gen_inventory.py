#!/usr/bin/env python3
"""Freeze the function / local-name inventory of the reference tree (the committed HEAD of /repo) into sa/inventory.json.
Run only when /repo's committed tree changes by a fix: commit (never from a working tree with uncommitted edits)."""
import ast, io, json, os, subprocess, sys
HERE = os.path.dirname(os.path.dirname(os.path.abspath(__file__)))
sys.path.insert(0, HERE)
from sa.normalize import _functions, local_names
files = subprocess.run(["git", "-C", "/repo", "ls-tree", "-r", "--name-only", "HEAD"], capture_output=True, text=True).stdout.split()
inv = {}
for rel in files:
    if not rel.endswith(".py") or not rel.startswith(("seqm/", "scripts/")):
        continue
    src = subprocess.run(["git", "-C", "/repo", "show", f"HEAD:{rel}"], capture_output=True, text=True).stdout
    try:
        import warnings
        with warnings.catch_warnings():
            warnings.simplefilter("ignore")
            tree = ast.parse(src)
    except SyntaxError:
        continue
    inv[rel] = {"functions": {q: sorted(local_names(f)) for q, (f, c, b) in _functions(tree).items()}}
head = subprocess.run(["git", "-C", "/repo", "rev-parse", "HEAD"], capture_output=True, text=True).stdout.strip()
inv["_reference_commit"] = head
json.dump(inv, open(os.path.join(HERE, "sa", "inventory.json"), "w"), indent=0, sort_keys=True)
print(len(inv) - 1, "files,", sum(len(v["functions"]) for k, v in inv.items() if k != "_reference_commit"), "functions; reference", head[:8])
