"""Tiny symbolic tensor interpreter: numpy object arrays of sympy expressions with real broadcasting.

Used where a rule needs the *meaning* of a few lines of per-trajectory tensor algebra (dot products, sums over axes, broadcasting
with unsqueeze) independently of how the locals are called.  Nothing from the repository is executed: statements are re-read as
equations over small symbolic arrays supplied by the rule.
"""
from __future__ import annotations

import ast
from typing import Any, Callable, Dict, Optional

from .loader import AnalysisError, call_name, callee_attr, norm


class TensorSym:
    def __init__(self, env: Dict[str, Any], subscript_hook: Optional[Callable] = None, ifexp_body: bool = True):
        import numpy as np
        import sympy as sp
        self.np, self.sp = np, sp
        self.env = dict(env)
        self.hook = subscript_hook
        self.ifexp_body = ifexp_body

    # ---- helpers
    def _elementwise(self, f, x):
        np = self.np
        if isinstance(x, np.ndarray):
            return np.vectorize(f, otypes=[object])(x)
        return f(x)

    def _axis(self, call, default=None):
        for kw in call.keywords:
            if kw.arg in ("dim", "axis"):
                return ast.literal_eval(kw.value)
        if len(call.args) > 1:
            try:
                return ast.literal_eval(call.args[1])
            except Exception:
                return default
        return default

    def ev(self, n):
        np, sp = self.np, self.sp
        if isinstance(n, ast.Constant):
            if isinstance(n.value, bool) or n.value is None:
                return n.value
            if isinstance(n.value, (int, float)):
                return sp.nsimplify(n.value, rational=True)
            raise AnalysisError(f"tensorsym: constant {n.value!r}")
        t = norm(n)
        if isinstance(n, (ast.Name, ast.Attribute)):
            if t in self.env:
                return self.env[t]
            raise AnalysisError(f"tensorsym: unbound {t}")
        if isinstance(n, ast.Subscript):
            if t in self.env:
                return self.env[t]
            if self.hook is not None:
                r = self.hook(n, self)
                if r is not None:
                    return r
            base = self.ev(n.value)
            sl = n.slice
            idx = tuple(self._index(e) for e in (sl.elts if isinstance(sl, ast.Tuple) else [sl]))
            return base[idx if len(idx) > 1 else idx[0]]
        if isinstance(n, ast.UnaryOp) and isinstance(n.op, ast.USub):
            return -self.ev(n.operand)
        if isinstance(n, ast.BinOp):
            a, b = self.ev(n.left), self.ev(n.right)
            if isinstance(n.op, ast.Add):
                return a + b
            if isinstance(n.op, ast.Sub):
                return a - b
            if isinstance(n.op, ast.Mult):
                return a * b
            if isinstance(n.op, ast.Div):
                return a / b
            if isinstance(n.op, ast.Pow):
                return a ** b
            raise AnalysisError(f"tensorsym: operator {t}")
        if isinstance(n, ast.IfExp):
            return self.ev(n.body if self.ifexp_body else n.orelse)
        if isinstance(n, ast.Call):
            nm = call_name(n) or ""
            at = callee_attr(n)
            if nm in ("torch.sum", "th.sum") and n.args:
                x = self.ev(n.args[0])
                ax = self._axis(n)
                return np.sum(x, axis=ax) if isinstance(x, np.ndarray) else x
            if at == "sum" and isinstance(n.func, ast.Attribute) and not nm.startswith("torch."):
                x = self.ev(n.func.value)
                ax = None
                for kw in n.keywords:
                    if kw.arg in ("dim", "axis"):
                        ax = ast.literal_eval(kw.value)
                if n.args:
                    ax = ast.literal_eval(n.args[0])
                return np.sum(x, axis=ax) if isinstance(x, np.ndarray) else x
            if nm in ("torch.sqrt", "th.sqrt", "math.sqrt"):
                return self._elementwise(sp.sqrt, self.ev(n.args[0]))
            if nm in ("torch.sign",):
                return self._elementwise(sp.sign, self.ev(n.args[0]))
            if nm in ("torch.abs", "abs"):
                return self._elementwise(sp.Abs, self.ev(n.args[0]))
            if nm in ("torch.dot",) and len(n.args) == 2:
                return np.sum(self.ev(n.args[0]) * self.ev(n.args[1]))
            if nm in ("float",) and n.args:
                return self.ev(n.args[0])
            if isinstance(n.func, ast.Attribute) and not nm.startswith(("torch.", "th.")):
                x = self.ev(n.func.value)
                if at == "unsqueeze":
                    return np.expand_dims(x, ast.literal_eval(n.args[0]))
                if at == "squeeze":
                    return np.squeeze(x, axis=ast.literal_eval(n.args[0])) if n.args else np.squeeze(x)
                if at in ("clone", "detach", "contiguous", "item", "double", "float"):
                    return x
                if at == "reshape" or at == "view":
                    shape = tuple(ast.literal_eval(a) for a in n.args)
                    return np.reshape(x, shape[0] if len(shape) == 1 and isinstance(shape[0], tuple) else shape)
            raise AnalysisError(f"tensorsym: call {t}")
        raise AnalysisError(f"tensorsym: node {t}")

    def _index(self, e):
        if isinstance(e, ast.Slice):
            lo = ast.literal_eval(e.lower) if e.lower is not None else None
            up = ast.literal_eval(e.upper) if e.upper is not None else None
            return slice(lo, up)
        if isinstance(e, ast.Constant):
            if e.value is Ellipsis:
                return Ellipsis
            if e.value is None:
                return None
            return e.value
        v = self.ev(e)
        if isinstance(v, int):
            return v
        raise AnalysisError(f"tensorsym: index {norm(e)}")

    def run(self, stmts, on_store: Optional[Callable] = None):
        """interpret simple assignments in order; guards (`if ...: return/raise`) are skipped; with-blocks are entered"""
        for st in stmts:
            if isinstance(st, ast.With):
                self.run(st.body, on_store)
            elif isinstance(st, ast.Assign) and len(st.targets) == 1:
                t = st.targets[0]
                if isinstance(t, ast.Name):
                    try:
                        self.env[t.id] = self.ev(st.value)
                    except AnalysisError:
                        self.env.pop(t.id, None)
                elif on_store is not None:
                    on_store(t, st, self)
