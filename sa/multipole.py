"""First-principles oracle for the 22 local-frame two-centre two-electron integrals of an sp basis (Dewar-Thiel point-charge model).

Physics embedded (and nothing else):
  * every one-centre charge distribution is a set of point charges --
        ss        monopole                   {(1, 0)}                                                     additive term rho_0
        s p_k     dipole along k             {(+1/2, +D1 e_k), (-1/2, -D1 e_k)}                            additive term rho_1
        p_k p_k   monopole + linear quadrupole {(1/4, +2 D2 e_k), (-1/2, 0), (1/4, -2 D2 e_k)}            rho_0 / rho_2
        p_k p_l   square quadrupole          {(+1/4, D2(e_k+e_l)), (-1/4, D2(-e_k+e_l)), (+1/4, -D2(e_k+e_l)), (-1/4, D2(e_k-e_l))}   rho_2
  * two point charges q_i on A and q_j on B interact as  ev * q_i q_j / sqrt(|r_i - r_j|^2 + (rho_l^A + rho_l'^B)^2)   (Klopman-Ohno),
    B sits at distance r on the local z axis;
  * [p_pi p_pi' | p_pi p_pi'] = 1/2 ([pp|pp] - [pp|p*p*])   (rotational invariance).
The orientation of the local z axis on each atom is a convention (two sign bits); it is fitted, not assumed.
"""
from __future__ import annotations

import itertools


def symbols():
    import sympy as sp
    r = sp.Symbol("r", positive=True)
    names = ["D1a", "D1b", "D2a", "D2b", "rho0a", "rho0b", "rho1a", "rho1b", "rho2a", "rho2b", "ev"]
    return r, {n: sp.Symbol(n, positive=True) for n in names}


def distribution(kind, D1, D2, sz):
    """list of (component l, [(q, (x, y, z)), ...]); sz = +-1 orientation of the local z axis"""
    import sympy as sp
    h, q = sp.Rational(1, 2), sp.Rational(1, 4)
    ex, ey, ez = (1, 0, 0), (0, 1, 0), (0, 0, sz)

    def sc(c, v):
        return tuple(c * t for t in v)

    def add(u, v):
        return tuple(a + b for a, b in zip(u, v))
    mono = (0, [(sp.Integer(1), (0, 0, 0))])
    if kind == "SS":
        return [mono]
    if kind in ("SO", "SP", "SP*"):
        e = {"SO": ez, "SP": ex, "SP*": ey}[kind]
        return [(1, [(h, sc(D1, e)), (-h, sc(-D1, e))])]
    if kind in ("OO", "PP", "P*P*"):
        e = {"OO": ez, "PP": ex, "P*P*": ey}[kind]
        return [mono, (2, [(q, sc(2 * D2, e)), (-h, (0, 0, 0)), (q, sc(-2 * D2, e))])]
    if kind in ("PO", "P*O", "P*P"):
        e1, e2 = {"PO": (ex, ez), "P*O": (ey, ez), "P*P": (ey, ex)}[kind]
        return [(2, [(q, add(sc(D2, e1), sc(D2, e2))), (-q, add(sc(-D2, e1), sc(D2, e2))), (q, add(sc(-D2, e1), sc(-D2, e2))), (-q, add(sc(D2, e1), sc(-D2, e2)))])]
    raise ValueError(kind)


# MOPAC storage order (comment block of the routine): first pair on atom A, second on atom B
ORDER = [("SS", "SS"), ("SO", "SS"), ("OO", "SS"), ("PP", "SS"), ("SS", "SO"), ("SO", "SO"), ("SP", "SP"), ("OO", "SO"), ("PP", "SO"), ("PO", "SP"),
         ("SS", "OO"), ("SS", "PP"), ("SO", "OO"), ("SO", "PP"), ("SP", "PO"), ("OO", "OO"), ("PP", "OO"), ("OO", "PP"), ("PP", "PP"), ("PO", "PO"),
         ("PP", "P*P*"), ("P*P", "P*P")]


def integral(ka, kb, sa, sb):
    import sympy as sp
    r, S = symbols()
    rho = {("a", 0): S["rho0a"], ("a", 1): S["rho1a"], ("a", 2): S["rho2a"], ("b", 0): S["rho0b"], ("b", 1): S["rho1b"], ("b", 2): S["rho2b"]}
    A = distribution(ka, S["D1a"], S["D2a"], sa)
    B = distribution(kb, S["D1b"], S["D2b"], sb)
    tot = sp.Integer(0)
    for la, ca in A:
        for lb, cb in B:
            add2 = (rho[("a", la)] + rho[("b", lb)]) ** 2
            for qa, pa in ca:
                for qb, pb in cb:
                    dx, dy, dz = pa[0] - pb[0], pa[1] - pb[1], pa[2] - (pb[2] + r)
                    tot += S["ev"] * qa * qb / sp.sqrt(dx ** 2 + dy ** 2 + dz ** 2 + add2)
    return tot


def table(sa, sb):
    out = []
    for i, (ka, kb) in enumerate(ORDER):
        if (ka, kb) == ("P*P", "P*P"):
            out.append(None)       # defined through rotational invariance below
        else:
            out.append(integral(ka, kb, sa, sb))
    out[21] = (out[18] - out[20]) / 2
    return out


def conventions():
    return list(itertools.product((1, -1), (1, -1)))
