"""Masked-singularity rule: `torch.where(cond, A, B)` does not protect the gradient of the branch that is not selected.

If B contains a division (or sqrt / log / acos) that is singular exactly where `cond` selects A, the forward value is fine but
autograd multiplies a zero upstream gradient with an infinite local derivative: NaN forces with no error and no flag.  The rule
fires when, outside `torch.autograd.Function.forward/backward` bodies (no graph is recorded there),
  * a branch of a `where` contains a singular operation whose operand is not visibly protected (clamp / clamp_min / maximum /
    `+ eps` / an inner where), and
  * the condition is a threshold test (<, <=, >, >=, abs, isclose) whose def-chain shares a root variable with that operand,
    i.e. the `where` exists to mask that very singularity.
The repository's safe idioms are enumerated: masked in-place assignment before the normalisation, safe denominators, singular
expressions evaluated only on the selected rows (`x[mask] = f(y[mask])`).
"""
from __future__ import annotations

import ast

from .loader import call_name, callee_attr, norm, short

SING_CALLS = {"torch.sqrt", "torch.log", "torch.rsqrt", "torch.acos", "torch.asin", "th.sqrt", "th.log", "torch.arccos", "torch.arcsin", "torch.reciprocal"}
PROTECT_CALLS = {"clamp", "clamp_min", "clamp_", "clamp_min_", "maximum", "where", "max"}


def _defs(func):
    d = {}
    for st in ast.walk(func):
        if isinstance(st, ast.Assign) and len(st.targets) == 1 and isinstance(st.targets[0], ast.Name):
            d.setdefault(st.targets[0].id, []).append(st.value)
        elif isinstance(st, ast.AugAssign) and isinstance(st.target, ast.Name):
            d.setdefault(st.target.id, []).append(st.value)
    return d


def roots(expr, defs, params, depth=0, seen=None):
    """parameter names (and attribute reads) the value of `expr` is computed from"""
    seen = set() if seen is None else seen
    out = set()
    for n in ast.walk(expr):
        if isinstance(n, ast.Name):
            if n.id in params:
                out.add(n.id)
            elif n.id in defs and n.id not in seen and depth < 10:
                seen.add(n.id)
                for v in defs[n.id]:
                    out |= roots(v, defs, params, depth + 1, seen)
    return out


def protected(e, defs, depth=0):
    """is the operand visibly bounded away from the singular point"""
    if depth > 4:
        return False
    if isinstance(e, ast.Constant):
        return True
    if isinstance(e, ast.Call):
        at = callee_attr(e)
        nm = (call_name(e) or "").split(".")[-1]
        if at in PROTECT_CALLS or nm in PROTECT_CALLS:
            return True
        if at in ("unsqueeze", "reshape", "view", "expand", "squeeze") and isinstance(e.func, ast.Attribute):
            return protected(e.func.value, defs, depth + 1)
    if isinstance(e, ast.BinOp) and isinstance(e.op, ast.Add):
        # x + eps with a literal / named small constant
        for side in (e.left, e.right):
            if isinstance(side, ast.Constant) or (isinstance(side, ast.Name) and side.id.lower() in ("eps", "tiny", "epsilon")):
                return True
    if isinstance(e, ast.Name) and len(defs.get(e.id, [])) == 1:
        return protected(defs[e.id][0], defs, depth + 1)
    return False


def is_threshold(cond, defs, depth=0):
    if depth > 4:
        return False
    for n in ast.walk(cond):
        if isinstance(n, ast.Compare) and isinstance(n.ops[0], (ast.Lt, ast.LtE, ast.Gt, ast.GtE)):
            return True
        if isinstance(n, ast.Call) and (call_name(n) or "").split(".")[-1] in ("isclose",):
            return True
        if isinstance(n, ast.Name) and len(defs.get(n.id, [])) == 1 and is_threshold(defs[n.id][0], defs, depth + 1):
            return True
    return False


def check(ctx, rid, subdirs=("seqm/seqm_functions", "seqm/basics.py")):
    repo = ctx.repo
    n_sites = 0
    for m in repo.modules(*subdirs):
        # functions of autograd.Function classes record no graph
        exempt = set()
        for cname, cls in m.classes.items():
            if any("Function" in norm(b) for b in cls.bases):
                for st in cls.body:
                    if isinstance(st, ast.FunctionDef):
                        exempt.add(f"{cname}.{st.name}")
        for qual, func in m.functions.items():
            if qual in exempt:
                continue
            defs = None
            for c in ast.walk(func):
                if not (isinstance(c, ast.Call) and (call_name(c) or "") in ("torch.where", "th.where") and len(c.args) == 3):
                    continue
                if m.qualname_of(c) != qual:
                    continue
                if defs is None:
                    defs = _defs(func)
                    params = {a.arg for a in func.args.args + func.args.kwonlyargs}
                cond = c.args[0]
                for branch in c.args[1:]:
                    sing = []
                    for x in ast.walk(branch):
                        if isinstance(x, ast.BinOp) and isinstance(x.op, ast.Div):
                            sing.append(("division by", x.right))
                        elif isinstance(x, ast.Call) and (call_name(x) or "") in SING_CALLS and x.args:
                            sing.append((f"{call_name(x)} of", x.args[0]))
                    for what, operand in sing:
                        n_sites += 1
                        if protected(operand, defs):
                            ctx.ok(rid, f"{short(m.rel)}:{qual}", f"where-branch `{short(norm(branch), 60)}`: {what} `{short(norm(operand), 40)}` is bounded away from its singular point", nontrivial=False)
                            continue
                        r_op = roots(operand, defs, params)
                        r_c = roots(cond, defs, params)
                        shared = r_op & r_c
                        if shared and is_threshold(cond, defs):
                            ctx.fail(rid, m, c, qual, f"torch.where(..., {short(norm(branch), 60)})",
                                     f"`{short(norm(c), 110)}`: the branch `{short(norm(branch), 60)}` ({what} `{short(norm(operand), 40)}`) is evaluated for every row, and its "
                                     f"operand and the condition both derive from {sorted(shared)}: where the condition masks the singular point the forward value is fine but "
                                     f"autograd produces 0*inf = NaN (forces / parameter gradients become NaN with no error and no flag)")
                        else:
                            ctx.ok(rid, f"{short(m.rel)}:{qual}", f"where-branch `{short(norm(branch), 60)}`: {what} `{short(norm(operand), 40)}` is unrelated to the condition "
                                   f"(roots {sorted(r_op)[:3]} vs {sorted(r_c)[:3]})")
    n_sites += check_masked_overwrite(ctx, rid, subdirs)
    return n_sites


def check_masked_overwrite(ctx, rid, subdirs):
    """`T = f(x) / g(x)` ... `T[mask] = constant`: the rows selected by the mask are overwritten in the forward pass, but they went through the division first; when the mask
    selects exactly the rows on which the denominator vanishes (mask and denominator derive from the same inputs), autograd differentiates 0/0 on those rows and the gradient of
    *every* upstream quantity becomes NaN.  The safe order -- overwrite the operand first, then normalise -- is what the repository uses (rotate_with_quaternion)."""
    repo = ctx.repo
    n = 0
    for m in repo.modules(*subdirs):
        exempt = set()
        for cname, cls in m.classes.items():
            if any("Function" in norm(b) for b in cls.bases):
                for st in cls.body:
                    if isinstance(st, ast.FunctionDef):
                        exempt.add(f"{cname}.{st.name}")
        for qual, func in m.functions.items():
            if qual in exempt:
                continue
            stores = [st for st in ast.walk(func) if isinstance(st, ast.Assign) and len(st.targets) == 1 and isinstance(st.targets[0], ast.Subscript)
                      and isinstance(st.targets[0].value, ast.Name) and isinstance(st.targets[0].slice, ast.Name) and m.qualname_of(st) == qual]
            if not stores:
                continue
            defs = _defs(func)
            params = {a.arg for a in func.args.args + func.args.kwonlyargs}
            for st in stores:
                tname, mname = st.targets[0].value.id, st.targets[0].slice.id
                mdefs = defs.get(mname, [])
                if len(mdefs) != 1 or not is_threshold(mdefs[0], defs):
                    continue
                # the definition of T that reaches this store: the last plain assignment to T before it
                tdefs = [d for d in ast.walk(func) if isinstance(d, ast.Assign) and len(d.targets) == 1 and isinstance(d.targets[0], ast.Name) and d.targets[0].id == tname
                         and d.lineno < st.lineno]
                if not tdefs:
                    continue
                tdef = max(tdefs, key=lambda d: d.lineno).value
                sing = []
                for x in ast.walk(tdef):
                    if isinstance(x, ast.BinOp) and isinstance(x.op, ast.Div):
                        sing.append(("division by", x.right))
                    elif isinstance(x, ast.Call) and (call_name(x) or "") in SING_CALLS and x.args:
                        sing.append((f"{call_name(x)} of", x.args[0]))
                for what, operand in sing:
                    n += 1
                    if protected(operand, defs):
                        continue
                    shared = roots(operand, defs, params) & roots(mdefs[0], defs, params)
                    # the operand is computed from values that were themselves repaired on the masked rows before (overwrite-then-normalise): safe
                    repaired_before = any(isinstance(s2, ast.Assign) and isinstance(s2.targets[0], ast.Subscript) and isinstance(s2.targets[0].value, ast.Name)
                                          and isinstance(s2.targets[0].slice, ast.Name) and s2.targets[0].slice.id == mname and s2.lineno < max(tdefs, key=lambda d: d.lineno).lineno
                                          and s2.targets[0].value.id in {x.id for x in ast.walk(operand) if isinstance(x, ast.Name)} |
                                          {y.id for x in ast.walk(operand) if isinstance(x, ast.Name) for v in defs.get(x.id, []) for y in ast.walk(v) if isinstance(y, ast.Name)}
                                          for s2 in ast.walk(func))
                    if shared and not repaired_before:
                        ctx.fail(rid, m, st, qual, f"{tname}[{mname}] = ... after {what} {short(norm(operand), 30)}",
                                 f"`{short(norm(st), 80)}` overwrites the rows selected by `{mname}` only after `{tname} = {short(norm(tdef), 50)}` ({what} `{short(norm(operand), 30)}`) was "
                                 f"evaluated for every row; mask and {what.split()[0]} operand both derive from {sorted(shared)}, so on the masked rows the operand is (near) zero: the forward "
                                 f"value is repaired but autograd differentiates the singular expression there (NaN forces / parameter gradients, no error, no flag)")
                    else:
                        ctx.ok(rid, f"{short(m.rel)}:{qual}", f"masked overwrite `{short(norm(st), 50)}`: the singular operand was repaired on the masked rows before it is used"
                               if repaired_before else f"masked overwrite `{short(norm(st), 50)}` is unrelated to the {what.split()[0]} operand", nontrivial=False)
    return n
