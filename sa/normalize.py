"""Inventory-anchored normalisation of a parsed module.

The rules of this checker are anchored on the functions of the reference tree (sa/inventory.json: qualified function names and the local
names of every function, generated from the pinned commit plus the fix commits).  A later edit may extract statements of an anchored
function into a *new* helper, or name sub-expressions with *new* temporaries.  Both are undone here, before any rule looks at the tree, by
two semantics-preserving rewrites:

  * calls to functions that are not in the inventory are inlined into their callers (parameters bound to the arguments, early returns
    lowered to if/else, helper locals renamed on clashes); a helper whose every call was inlined is dropped from the tree;
  * a local that is not in the inventory, is assigned exactly once, and whose defining expression cannot change between the definition
    and its uses (no reassignment / in-place mutation of anything it reads, no impure call unless used once) is substituted into its uses.

On the reference tree itself nothing is new, so the tree is returned untouched.  A call or temporary that does not meet the conditions is
left alone -- the rules then see the edited structure and either understand it or fail closed.
"""
from __future__ import annotations

import ast
import copy
import json
import os
from typing import Dict, List, Optional, Set

_INV = None
IMPURE_PREFIX = ("rand", "normal", "bernoulli", "multinomial", "manual_seed", "seed", "print", "open", "save", "load", "write", "flush", "append", "pop",
                 "remove", "close", "warn", "copy", "deepcopy", "time", "perf_counter", "synchronize", "backward", "step", "zero_grad", "update", "setdefault", "clear",
                 "extend", "insert", "next", "iter", "input", "exit", "register", "apply")


def inventory():
    global _INV
    if _INV is None:
        p = os.path.join(os.path.dirname(os.path.abspath(__file__)), "inventory.json")
        try:
            _INV = json.load(open(p))
        except FileNotFoundError:
            _INV = {}
    return _INV


def _functions(tree):
    """{qualname: (FunctionDef, class name or None, container body list)} for module-level functions and methods (one class level)"""
    out = {}

    def visit(body, prefix, cls):
        for st in body:
            if isinstance(st, (ast.FunctionDef, ast.AsyncFunctionDef)):
                out[prefix + st.name] = (st, cls, body)
            elif isinstance(st, ast.ClassDef):
                visit(st.body, prefix + st.name + ".", st.name)
            elif isinstance(st, (ast.If, ast.Try)) and cls is None:
                for fld in ("body", "orelse", "finalbody"):
                    visit(getattr(st, fld, []) or [], prefix, cls)
    visit(tree.body, "", None)
    return out


def local_names(func) -> Set[str]:
    names = {a.arg for a in func.args.posonlyargs + func.args.args + func.args.kwonlyargs}
    if func.args.vararg:
        names.add(func.args.vararg.arg)
    if func.args.kwarg:
        names.add(func.args.kwarg.arg)
    for n in ast.walk(func):
        if isinstance(n, ast.Name) and isinstance(n.ctx, (ast.Store, ast.Del)):
            names.add(n.id)
        elif isinstance(n, (ast.FunctionDef, ast.AsyncFunctionDef)) and n is not func:
            names.add(n.name)           # a nested function is a local of its enclosing function
        elif isinstance(n, (ast.FunctionDef, ast.AsyncFunctionDef, ast.ClassDef)) and n is not func:
            names.add(n.name)
        elif isinstance(n, ast.ExceptHandler) and n.name:
            names.add(n.name)
        elif isinstance(n, (ast.Import, ast.ImportFrom)):
            for al in n.names:
                names.add((al.asname or al.name).split(".")[0])
    return names


# ----------------------------------------------------------------------------------------------------------------- inlining
def _always_returns(stmts) -> bool:
    for st in stmts:
        if isinstance(st, (ast.Return, ast.Raise)):
            return True
        if isinstance(st, ast.If) and st.orelse and _always_returns(st.body) and _always_returns(st.orelse):
            return True
    return False


def _has_return(node) -> bool:
    for n in ast.walk(node):
        if isinstance(n, ast.Return):
            return True
    return False


def _inlinable(func) -> bool:
    if func.args.vararg or func.args.posonlyargs:
        return False
    if func.args.kwarg:
        # **kw is supported when the body only forwards it (`g(..., **kw)`)
        kw = func.args.kwarg.arg
        fwd = sum(1 for n in ast.walk(func) if isinstance(n, ast.keyword) and n.arg is None and isinstance(n.value, ast.Name) and n.value.id == kw)
        uses = sum(1 for n in ast.walk(func) if isinstance(n, ast.Name) and n.id == kw)
        if uses != fwd:
            return False
    for d in func.decorator_list:
        if not (isinstance(d, ast.Name) and d.id == "staticmethod"):
            return False
    if isinstance(func, ast.AsyncFunctionDef):
        return False

    def ok_block(stmts, top):
        for st in stmts:
            if isinstance(st, (ast.FunctionDef, ast.AsyncFunctionDef, ast.ClassDef, ast.Global, ast.Nonlocal)):
                return False
            for n in ast.walk(st):
                if isinstance(n, (ast.Yield, ast.YieldFrom, ast.Await, ast.Lambda)):
                    if isinstance(n, ast.Lambda):
                        continue
                    return False
            if isinstance(st, (ast.For, ast.While, ast.With, ast.Try, ast.AsyncFor, ast.AsyncWith)):
                if _has_return(st):
                    return False
            elif isinstance(st, ast.If):
                if not ok_block(st.body, False) or not ok_block(st.orelse, False):
                    return False
        return True
    return ok_block(func.body, True)


def _negate(t):
    flip = {ast.Is: ast.IsNot, ast.IsNot: ast.Is, ast.Eq: ast.NotEq, ast.NotEq: ast.Eq, ast.In: ast.NotIn, ast.NotIn: ast.In}
    if isinstance(t, ast.UnaryOp) and isinstance(t.op, ast.Not):
        return t.operand
    if isinstance(t, ast.Compare) and len(t.ops) == 1 and type(t.ops[0]) in flip:
        return ast.copy_location(ast.Compare(left=t.left, ops=[flip[type(t.ops[0])]()], comparators=t.comparators), t)
    return ast.copy_location(ast.UnaryOp(op=ast.Not(), operand=t), t)


def _lower(stmts, mode, target):
    """rewrite a helper body without `return`: mode 'assign' -> the returned value is stored into copies of `target`; 'drop' -> discarded;
    'return' -> kept (the call site was `return helper(...)`)"""
    if mode == "return":
        return stmts
    out = []
    for i, st in enumerate(stmts):
        if isinstance(st, ast.Return):
            if mode == "assign":
                val = st.value if st.value is not None else ast.Constant(value=None)
                split = None
                if len(target) == 1 and isinstance(target[0], ast.Tuple) and isinstance(val, ast.Tuple) and len(val.elts) == len(target[0].elts) \
                        and not any(isinstance(e, ast.Starred) for e in list(val.elts) + list(target[0].elts)):
                    # `a, b = helper()` with `return x, y`: element-wise assignments when no later element reads an earlier target
                    tn = [{n.id for n in ast.walk(t) if isinstance(n, ast.Name)} for t in target[0].elts]
                    rd = [{n.id for n in ast.walk(v) if isinstance(n, ast.Name)} for v in val.elts]
                    if all(not (tn[i] & rd[j]) for i in range(len(tn)) for j in range(i + 1, len(rd))):
                        split = [ast.copy_location(ast.Assign(targets=[copy.deepcopy(t)], value=v, lineno=st.lineno), st) for t, v in zip(target[0].elts, val.elts)]
                if split is not None:
                    out.extend(split)
                else:
                    out.append(ast.copy_location(ast.Assign(targets=[copy.deepcopy(t) for t in target], value=val, lineno=st.lineno), st))
            elif st.value is not None and any(isinstance(n, ast.Call) for n in ast.walk(st.value)):
                out.append(ast.copy_location(ast.Expr(value=st.value), st))
            return out
        if isinstance(st, ast.If) and _has_return(st):
            rest = stmts[i + 1:]
            body = list(st.body) + ([] if _always_returns(st.body) else copy.deepcopy(rest))
            orelse = list(st.orelse) + ([] if (st.orelse and _always_returns(st.orelse)) else copy.deepcopy(rest))
            nb, no = _lower(body, mode, target), _lower(orelse, mode, target)
            nb = [x for x in nb if not isinstance(x, ast.Pass)]
            if not nb and no:
                # `if c: <nothing> else: B`  ->  `if not c: B`
                out.append(ast.copy_location(ast.If(test=_negate(st.test), body=no, orelse=[]), st))
            else:
                out.append(ast.copy_location(ast.If(test=st.test, body=nb or [ast.Pass()], orelse=no), st))
            return out
        out.append(st)
    if mode == "assign" and not _always_returns(stmts):
        # falling off the end returns None
        last = stmts[-1] if stmts else None
        a = ast.Assign(targets=[copy.deepcopy(t) for t in target], value=ast.Constant(value=None), lineno=getattr(last, "lineno", 1))
        out.append(a)
    return out


def _as_expression(stmts):
    """the body as one expression when it is `return e` possibly under if/else chains of returns; None otherwise"""
    stmts = [st for st in stmts if not isinstance(st, ast.Pass)]
    if not stmts:
        return None
    st = stmts[0]
    if isinstance(st, ast.Return) and st.value is not None:
        return st.value
    if isinstance(st, ast.If) and _always_returns(st.body) and not any(isinstance(n, ast.Raise) for b in (st.body, st.orelse) for x in b for n in ast.walk(x)):
        a = _as_expression(st.body)
        b = _as_expression(st.orelse if st.orelse else stmts[1:])
        if a is not None and b is not None:
            return ast.IfExp(test=st.test, body=a, orelse=b)
    return None


class _Subst(ast.NodeTransformer):
    def __init__(self, mapping: Dict[str, ast.AST]):
        self.mapping = mapping

    def visit_Name(self, node):
        if node.id in self.mapping:
            new = copy.deepcopy(self.mapping[node.id])
            if isinstance(node.ctx, ast.Store) and isinstance(new, ast.Name):
                new.ctx = ast.Store()
            elif isinstance(node.ctx, (ast.Store, ast.Del)):
                return node
            return ast.copy_location(new, node)
        return node


def _split_parallel(st):
    """`a, b = (x, y)` produced by inlining a `return x, y`: sequential assignments when no later value reads an earlier target (otherwise the statement stays)"""
    if not (isinstance(st, ast.Assign) and len(st.targets) == 1 and isinstance(st.targets[0], (ast.Tuple, ast.List)) and isinstance(st.value, (ast.Tuple, ast.List))
            and len(st.targets[0].elts) == len(st.value.elts) and all(isinstance(t, ast.Name) for t in st.targets[0].elts)
            and not any(isinstance(v, ast.Starred) for v in st.value.elts)):
        return [st]
    names = [t.id for t in st.targets[0].elts]
    for j, v in enumerate(st.value.elts):
        reads = {n.id for n in ast.walk(v) if isinstance(n, ast.Name)}
        # a value may read its own target (self-assignment `a = a` is dropped, `a = f(a)` is sequentially the same) but not an earlier, different target that changes
        for i in range(j):
            if names[i] in reads and not (isinstance(st.value.elts[i], ast.Name) and st.value.elts[i].id == names[i]):
                return [st]
    return [ast.copy_location(ast.Assign(targets=[ast.Name(id=nm, ctx=ast.Store())], value=v, lineno=st.lineno), st) for nm, v in zip(names, st.value.elts)]


def _drop_self_assign(stmts):
    out = []
    stmts = [x for st in stmts for x in _split_parallel(st)]
    for st in stmts:
        if isinstance(st, ast.Assign) and len(st.targets) == 1 and isinstance(st.targets[0], ast.Name) and isinstance(st.value, ast.Name) and st.value.id == st.targets[0].id:
            continue
        if isinstance(st, ast.If):
            st.body = _drop_self_assign(st.body) or [ast.Pass()]
            st.orelse = _drop_self_assign(st.orelse)
        out.append(st)
    return out


def _simple(e) -> bool:
    if isinstance(e, (ast.Name, ast.Constant)):
        return True
    if isinstance(e, ast.Attribute):
        return _simple(e.value)
    if isinstance(e, ast.Subscript):
        return _simple(e.value) and isinstance(e.slice, ast.Constant)
    if isinstance(e, ast.UnaryOp) and isinstance(e.operand, ast.Constant):
        return True
    return False


class Inliner:
    def __init__(self, tree, rel):
        self.tree, self.rel = tree, rel
        inv = inventory().get(rel)
        self.funcs = _functions(tree)
        self.new = {} if inv is None else {q: v for q, v in self.funcs.items() if q not in inv["functions"]}
        # new closures: a function defined inside an inventoried function under a name the reference does not know.  Inlining a closure at its call site preserves the
        # meaning exactly (its free variables are the enclosing function's variables, read at call time in both versions), provided it declares no nonlocal / global
        if inv is not None:
            for q, (func, cls, _) in list(self.funcs.items()):
                ref = inv["functions"].get(q)
                if ref is None:
                    continue
                for blk in _blocks(func):
                    for st in blk:
                        if isinstance(st, ast.FunctionDef) and st.name not in ref and not any(isinstance(n, (ast.Nonlocal, ast.Global, ast.Yield, ast.YieldFrom)) for n in ast.walk(st)) \
                                and not st.decorator_list:
                            self.new[f"{q}.<locals>.{st.name}"] = (st, None, blk)
        self.cur_q = None
        self.counter = 0
        self.failed: Set[str] = set()
        self.failed_expr: Set[str] = set()
        # class -> bases (by name, same module)
        self.bases = {}
        for st in ast.walk(tree):
            if isinstance(st, ast.ClassDef):
                self.bases[st.name] = [b.id for b in st.bases if isinstance(b, ast.Name)]

    def _mro(self, cls):
        seen, todo = [], [cls]
        while todo:
            c = todo.pop(0)
            if c in seen or c is None:
                continue
            seen.append(c)
            todo.extend(self.bases.get(c, []))
        return seen

    def resolve(self, call, cls):
        f = call.func
        if isinstance(f, ast.Name) and self.cur_q is not None and f"{self.cur_q}.<locals>.{f.id}" in self.new:
            return f"{self.cur_q}.<locals>.{f.id}", False
        if isinstance(f, ast.Name) and f.id in self.new and self.new[f.id][1] is None:
            return f.id, False
        if isinstance(f, ast.Attribute) and isinstance(f.value, ast.Name):
            recv = f.value.id
            if recv in ("self", "cls") and cls is not None:
                # a method that several classes define is dispatched on the object's class at run time: inlining one definition would fix the dispatch statically
                if sum(1 for q_ in self.funcs if q_.endswith("." + f.attr)) > 1:
                    return None, False
                for c in self._mro(cls):
                    q = f"{c}.{f.attr}"
                    if q in self.new:
                        return q, not self._static(q)
                    if q in self.funcs:
                        return None, False      # an inventoried method of the hierarchy shadows any new one
                cands = [q for q in self.new if q.endswith("." + f.attr) and self.new[q][1] is not None]
                if len(cands) == 1:
                    return cands[0], not self._static(cands[0])
            elif recv in self.bases or any(q.startswith(recv + ".") for q in self.funcs):
                q = f"{recv}.{f.attr}"
                if q in self.new and self._static(q):
                    return q, False
        return None, False

    def _static(self, q):
        return any(isinstance(d, ast.Name) and d.id == "staticmethod" for d in self.new[q][0].decorator_list)

    def instantiate(self, q, call, bound_self, caller_names, mode, target, loads_elsewhere=frozenset()):
        func = self.new[q][0]
        self.counter += 1
        k = self.counter
        params = [a.arg for a in func.args.args]
        if bound_self:
            if not params:
                return None
            self_name = params[0]
            params = params[1:]
        args = list(call.args)
        if any(isinstance(a, ast.Starred) for a in args) or any(kw.arg is None for kw in call.keywords) or len(args) > len(params):
            return None
        binding: Dict[str, ast.AST] = {}
        for p, a in zip(params, args):
            binding[p] = a
        kwonly = [a.arg for a in func.args.kwonlyargs]
        extras = []
        for kw in call.keywords:
            if kw.arg in binding:
                return None
            if kw.arg not in params and kw.arg not in kwonly:
                if func.args.kwarg is None:
                    return None
                extras.append(kw)
                continue
            binding[kw.arg] = kw.value
        defaults = func.args.defaults
        for i, p in enumerate(params):
            if p not in binding:
                j = i - (len(params) - len(defaults))
                if j < 0:
                    return None
                binding[p] = defaults[j]
        for p, d in zip(kwonly, func.args.kw_defaults):
            if p not in binding:
                if d is None:
                    return None
                binding[p] = d
        body = copy.deepcopy(func.body)
        if body and isinstance(body[0], ast.Expr) and isinstance(body[0].value, ast.Constant) and isinstance(body[0].value.value, str):
            body = body[1:]
        assigned = set()
        for st in body:
            for n in ast.walk(st):
                if isinstance(n, ast.Name) and isinstance(n.ctx, (ast.Store, ast.Del)):
                    assigned.add(n.id)
        mapping: Dict[str, ast.AST] = {}
        pre: List[ast.stmt] = []
        if bound_self:
            mapping[self_name] = copy.deepcopy(call.func.value)
        # a helper local with the name of the single assignment target keeps its name (the value ends up there anyway) unless an argument reads it
        keep = set()
        if mode == "assign" and target and len(target) == 1 and isinstance(target[0], ast.Name):
            keep.add(target[0].id)
        elif mode == "assign" and target and len(target) == 1 and isinstance(target[0], (ast.Tuple, ast.List)) and all(isinstance(e, ast.Name) for e in target[0].elts):
            # `a, b = helper(...)` where every return of the helper is `return a, b` position by position: the helper's locals a, b are the caller's a, b
            rets = [r for st in body for r in ast.walk(st) if isinstance(r, ast.Return)]
            tn = [e.id for e in target[0].elts]
            if rets and all(isinstance(r.value, ast.Tuple) and len(r.value.elts) == len(tn) for r in rets):
                for i, nm in enumerate(tn):
                    if all(isinstance(r.value.elts[i], ast.Name) and r.value.elts[i].id == nm for r in rets) and tn.count(nm) == 1:
                        keep.add(nm)
        arg_reads = {n.id for a in binding.values() for n in ast.walk(a) if isinstance(n, ast.Name)}
        keep -= arg_reads
        caller_names = set(caller_names) - keep
        for p, a in binding.items():
            if isinstance(a, ast.Name) and a.id == p and p in assigned and p not in loads_elsewhere:
                # the helper rebinds its parameter and the caller hands in a variable of the same name that it never reads again: the helper's statements
                # may work on the caller's variable directly
                continue
            if _simple(a) and p not in assigned and not ({n.id for n in ast.walk(a) if isinstance(n, ast.Name)} & (assigned - set(caller_names))):
                mapping[p] = a
            else:
                tmp = f"{p}__{func.name.strip('_')}{k}" if (p in caller_names or p in assigned) else p
                pre.append(ast.copy_location(ast.Assign(targets=[ast.Name(id=tmp, ctx=ast.Store())], value=copy.deepcopy(a), lineno=call.lineno), call))
                if tmp != p:
                    mapping[p] = ast.Name(id=tmp, ctx=ast.Load())
        for v in sorted(assigned):
            if v in binding:
                continue
            if v in caller_names:
                mapping[v] = ast.Name(id=f"{v}__{func.name.strip('_')}{k}", ctx=ast.Load())
        sub = _Subst(mapping)
        body = [sub.visit(st) for st in body]
        if func.args.kwarg is not None:
            kwn = func.args.kwarg.arg
            for st in body:
                for c in ast.walk(st):
                    if isinstance(c, ast.Call):
                        newk = []
                        for k_ in c.keywords:
                            if k_.arg is None and isinstance(k_.value, ast.Name) and k_.value.id == kwn:
                                newk.extend(copy.deepcopy(x) for x in extras)
                            else:
                                newk.append(k_)
                        c.keywords = newk
        lowered = _lower(body, mode, target)
        out = pre + lowered
        return _drop_self_assign(out)

    # ------------------------------------------------------------------
    def rewrite_function(self, q) -> bool:
        func, cls, _ = self.funcs[q]
        self.cur_q = q
        changed = self.inline_expressions(func, cls)
        for _ in range(6):
            names = local_names(func) | {n.id for n in ast.walk(func) if isinstance(n, ast.Name)}
            if not self._rewrite_block(func.body, cls, names, q):
                break
            changed = True
        return changed

    def _find_call(self, node, cls, everywhere=False):
        """first call of a new helper in evaluation positions that are always evaluated exactly once (unless everywhere=True)"""
        todo = [node]
        while todo:
            n = todo.pop(0)
            if isinstance(n, ast.Call):
                q, bs = self.resolve(n, cls)
                if q is not None and (q not in self.failed or everywhere) and (not everywhere or q not in self.failed_expr):
                    return n, q, bs
            if not everywhere:
                if isinstance(n, (ast.ListComp, ast.SetComp, ast.DictComp, ast.GeneratorExp, ast.Lambda)):
                    continue
                if isinstance(n, ast.BoolOp):
                    todo.append(n.values[0])
                    continue
                if isinstance(n, ast.IfExp):
                    todo.append(n.test)
                    continue
            todo.extend(ast.iter_child_nodes(n))
        return None

    def inline_expressions(self, func, cls) -> bool:
        """expression-level inlining of helpers whose body is a single (conditional) expression: valid in any position"""
        changed = False
        for _ in range(20):
            found = self._find_call(func, cls, everywhere=True)
            if found is None:
                break
            call, q, bound_self = found
            hf = self.new[q][0]
            body = hf.body[1:] if (hf.body and isinstance(hf.body[0], ast.Expr) and isinstance(hf.body[0].value, ast.Constant) and isinstance(hf.body[0].value.value, str)) else hf.body
            expr = _as_expression(body) if _inlinable(hf) and hf is not func else None
            ok = expr is not None
            mapping = {}
            if ok:
                params = [a.arg for a in hf.args.args]
                if bound_self:
                    mapping[params[0]] = call.func.value
                    params = params[1:]
                if any(isinstance(a, ast.Starred) for a in call.args) or any(kw.arg is None for kw in call.keywords) or len(call.args) > len(params):
                    ok = False
                else:
                    for p_, a in zip(params, call.args):
                        mapping[p_] = a
                    for kw in call.keywords:
                        if kw.arg in mapping or kw.arg not in params + [a.arg for a in hf.args.kwonlyargs]:
                            ok = False
                        mapping[kw.arg] = kw.value
                    for i, p_ in enumerate(params):
                        if p_ not in mapping:
                            j = i - (len(params) - len(hf.args.defaults))
                            if j < 0:
                                ok = False
                            else:
                                mapping[p_] = hf.args.defaults[j]
                    for p_, d in zip([a.arg for a in hf.args.kwonlyargs], hf.args.kw_defaults):
                        if p_ not in mapping:
                            if d is None:
                                ok = False
                            else:
                                mapping[p_] = d
                if ok:
                    uses = {}
                    for n in ast.walk(expr):
                        if isinstance(n, ast.Name):
                            uses[n.id] = uses.get(n.id, 0) + 1
                    for p_, a in mapping.items():
                        if not _simple(a) and uses.get(p_, 0) > 1 and _call_purity(a) == "impure":
                            ok = False
                    # names bound inside the helper expression (comprehension variables) must not capture argument names
                    bound = {n.id for n in ast.walk(expr) if isinstance(n, ast.Name) and isinstance(n.ctx, ast.Store)}
                    if bound & {n.id for a in mapping.values() for n in ast.walk(a) if isinstance(n, ast.Name)}:
                        ok = False
            if not ok:
                self.failed_expr.add(q)
                continue
            new = _Subst(mapping).visit(copy.deepcopy(expr))

            class R(ast.NodeTransformer):
                def visit_Call(s, node):
                    if node is call:
                        return ast.copy_location(new, node)
                    return s.generic_visit(node)
            R().visit(func)
            ast.fix_missing_locations(func)
            changed = True
        return changed

    def _rewrite_block(self, stmts, cls, names, owner) -> bool:
        i = 0
        changed = False
        while i < len(stmts):
            st = stmts[i]
            # recurse into compound statements first (their headers are handled below)
            for fld in ("body", "orelse", "finalbody"):
                blk = getattr(st, fld, None)
                if isinstance(blk, list) and blk and isinstance(blk[0], ast.stmt):
                    if self._rewrite_block(blk, cls, names, owner):
                        changed = True
            for h in getattr(st, "handlers", []) or []:
                if self._rewrite_block(h.body, cls, names, owner):
                    changed = True
            # `x = A if c else B` / `return A if c else B` with a new helper called in one arm: written out as an if statement so that the arm can be inlined
            if isinstance(st, (ast.Assign, ast.Return)) and isinstance(st.value, ast.IfExp) and \
                    (self._find_call(st.value.body, cls) is not None or self._find_call(st.value.orelse, cls) is not None) and self._find_call(st.value.test, cls) is None:
                ie = st.value
                mk = (lambda v: ast.copy_location(ast.Assign(targets=copy.deepcopy(st.targets), value=v, lineno=st.lineno), st)) if isinstance(st, ast.Assign) \
                    else (lambda v: ast.copy_location(ast.Return(value=v), st))
                new_if = ast.copy_location(ast.If(test=ie.test, body=[mk(ie.body)], orelse=[mk(ie.orelse)]), st)
                ast.fix_missing_locations(new_if)
                stmts[i] = new_if
                changed = True
                continue
            # the expression part of this statement
            header = None
            if isinstance(st, (ast.Assign, ast.AugAssign, ast.AnnAssign, ast.Return, ast.Expr)):
                header = st.value
            elif isinstance(st, ast.If):
                header = st.test
            elif isinstance(st, ast.For):
                header = st.iter
            elif isinstance(st, ast.With):
                header = None
            if header is None:
                i += 1
                continue
            found = self._find_call(header, cls)
            if found is None:
                i += 1
                continue
            call, q, bound_self = found
            if q == owner or not _inlinable(self.new[q][0]):
                self.failed.add(q)
                continue
            whole = header is call
            inside = {id(n) for n in ast.walk(st)}
            owner_func = self.funcs[owner][0]
            le = frozenset(n.id for n in ast.walk(owner_func) if isinstance(n, ast.Name) and isinstance(n.ctx, ast.Load) and id(n) not in inside)
            inst = lambda *a_: self.instantiate(*a_, loads_elsewhere=le)
            if whole and isinstance(st, ast.Assign):
                new = inst(q, call, bound_self, names, "assign", st.targets)
                repl = new
            elif whole and isinstance(st, ast.Expr):
                new = inst(q, call, bound_self, names, "drop", None)
                repl = new
            elif whole and isinstance(st, ast.Return):
                new = inst(q, call, bound_self, names, "return", None)
                repl = new
                if new is not None and not _always_returns(new):
                    repl = new + [ast.copy_location(ast.Return(value=None), st)]
            else:
                self.counter += 1
                tmp = f"_ret_{self.new[q][0].name.strip('_')}{self.counter}"
                new = inst(q, call, bound_self, names, "assign", [ast.Name(id=tmp, ctx=ast.Store())])
                if new is not None:
                    class R(ast.NodeTransformer):
                        def visit_Call(s, node):
                            if node is call:
                                return ast.copy_location(ast.Name(id=tmp, ctx=ast.Load()), node)
                            return s.generic_visit(node)
                    R().visit(st)
                    repl = new + [st]
                    names.add(tmp)
                else:
                    repl = None
            if repl is None:
                self.failed.add(q)
                continue
            for r in repl:
                ast.fix_missing_locations(r)
            stmts[i:i + 1] = repl
            for r in repl:
                for n in ast.walk(r):
                    if isinstance(n, ast.Name):
                        names.add(n.id)
            changed = True
            # do not advance: the spliced statements may contain further helper calls
        return changed

    def run(self) -> bool:
        if not self.new:
            return False
        changed = False
        # helpers first (so that helpers calling helpers are flattened), then everything else
        order = [q for q in sorted(self.new) if q in self.funcs] + [q for q in sorted(self.funcs) if q not in self.new]
        for _ in range(3):
            any_change = False
            for q in order:
                if self.rewrite_function(q):
                    any_change = True
            changed = changed or any_change
            if not any_change:
                break
        # drop helpers that are no longer referenced
        for q, (func, cls, container) in list(self.new.items()):
            nm = func.name
            refs = 0
            for n in ast.walk(self.tree):
                if n is func:
                    continue
                if isinstance(n, ast.Name) and n.id == nm and cls is None:
                    refs += 1
                elif isinstance(n, ast.Attribute) and n.attr == nm:
                    refs += 1
                elif isinstance(n, ast.Constant) and n.value == nm:
                    refs += 1
            # references from inside the helper itself do not count
            inner = sum(1 for n in ast.walk(func) if (isinstance(n, ast.Name) and n.id == nm) or (isinstance(n, ast.Attribute) and n.attr == nm))
            if refs - inner <= 0 and func in container and not (cls is None and nm in getattr(self, "keep", ())):
                container.remove(func)
                if not container:
                    container.append(ast.Pass())
                changed = True
        return changed


# ----------------------------------------------------------------------------------------------------------------- temporaries
def _reads(e) -> Set[str]:
    return {n.id for n in ast.walk(e) if isinstance(n, ast.Name)}


def _chain(n) -> Optional[str]:
    """dotted text of a Name / attribute chain (subscripts are dropped: x.a[i] -> x.a)"""
    parts = []
    while True:
        if isinstance(n, ast.Attribute):
            parts.append(n.attr)
            n = n.value
        elif isinstance(n, ast.Subscript):
            n = n.value
        elif isinstance(n, ast.Name):
            parts.append(n.id)
            return ".".join(reversed(parts))
        else:
            return None


def _read_paths(e) -> Set[str]:
    """maximal attribute chains read by e"""
    out = set()

    def visit(n):
        if isinstance(n, (ast.Attribute, ast.Name)):
            c = _chain(n)
            if c is not None:
                out.add(c)
                return
        for ch in ast.iter_child_nodes(n):
            visit(ch)
    visit(e)
    return out


def _mutation_paths(stmts):
    """(paths stored through / mutated in place, base names passed whole to an opaque call) anywhere in stmts"""
    paths, opaque = set(), set()
    for st in stmts:
        for n in ast.walk(st):
            if isinstance(n, ast.Name) and isinstance(n.ctx, (ast.Store, ast.Del)):
                paths.add(n.id)
            elif isinstance(n, (ast.Subscript, ast.Attribute)) and isinstance(getattr(n, "ctx", None), (ast.Store, ast.Del)):
                c = _chain(n)
                if c:
                    paths.add(c)
            elif isinstance(n, ast.Call):
                f = n.func
                nm = f.attr if isinstance(f, ast.Attribute) else f.id if isinstance(f, ast.Name) else ""
                if isinstance(f, ast.Attribute) and (nm.endswith("_") or nm in ("append", "extend", "pop", "update", "clear", "remove", "insert", "setdefault", "sort", "reverse", "backward")):
                    c = _chain(f.value)
                    if c:
                        paths.add(c)
                tensor_lib = isinstance(f, ast.Attribute) and _chain(f.value) in ("torch", "np", "math", "torch.linalg")
                method_of_value = isinstance(f, ast.Attribute) and not (isinstance(f.value, ast.Name) and f.value.id in ("self", "cls")) and not nm.endswith("_")
                if not tensor_lib and not method_of_value:
                    # a repository function / method of self may change whatever it is handed
                    for a in list(n.args) + [k.value for k in n.keywords]:
                        c = _chain(a) if isinstance(a, (ast.Name, ast.Attribute)) else None
                        if c:
                            opaque.add(c)
                    if isinstance(f, ast.Attribute) and isinstance(f.value, ast.Name) and f.value.id in ("self", "cls"):
                        opaque.add(f.value.id)
    return paths, opaque


def _conflict(read_paths, mut_paths, opaque) -> bool:
    for r in read_paths:
        for m in mut_paths:
            if r == m or r.startswith(m + ".") or m.startswith(r + "."):
                return True
        for o in opaque:
            if r == o or r.startswith(o + "."):
                return True
    return False


def _call_purity(e):
    """'pure' (no call), 'torch' (only tensor-library / method calls that do not mutate), 'impure'"""
    worst = "pure"
    for n in ast.walk(e):
        if isinstance(n, ast.Call):
            f = n.func
            nm = f.attr if isinstance(f, ast.Attribute) else f.id if isinstance(f, ast.Name) else ""
            if not nm or nm.endswith("_") or any(nm.startswith(p) for p in IMPURE_PREFIX):
                return "impure"
            if isinstance(f, ast.Attribute) and isinstance(f.value, ast.Name) and f.value.id in ("self", "cls"):
                return "impure"
            if isinstance(f, ast.Name) and nm not in ("len", "int", "float", "bool", "min", "max", "abs", "range", "tuple", "list", "str", "isinstance", "sum", "sorted", "round", "getattr", "dict", "set", "enumerate", "zip"):
                return "impure"
            worst = "torch"
        elif isinstance(n, (ast.Yield, ast.Await, ast.NamedExpr, ast.Lambda, ast.ListComp, ast.DictComp, ast.SetComp, ast.GeneratorExp)):
            return "impure"
    return worst


def _mutations(stmts) -> Set[str]:
    """base names that are (re)assigned, deleted, stored through, or mutated in place anywhere in stmts"""
    out = set()
    for st in stmts:
        for n in ast.walk(st):
            if isinstance(n, ast.Name) and isinstance(n.ctx, (ast.Store, ast.Del)):
                out.add(n.id)
            elif isinstance(n, (ast.Subscript, ast.Attribute)) and isinstance(getattr(n, "ctx", None), (ast.Store, ast.Del)):
                b = n
                while isinstance(b, (ast.Subscript, ast.Attribute)):
                    b = b.value
                if isinstance(b, ast.Name):
                    out.add(b.id)
            elif isinstance(n, ast.Call) and isinstance(n.func, ast.Attribute):
                nm = n.func.attr
                if nm.endswith("_") or nm in ("append", "extend", "pop", "update", "clear", "remove", "insert", "setdefault", "sort", "reverse", "backward"):
                    b = n.func.value
                    while isinstance(b, (ast.Subscript, ast.Attribute, ast.Call)):
                        b = b.func if isinstance(b, ast.Call) else b.value
                    if isinstance(b, ast.Name):
                        out.add(b.id)
                # a call that receives an object may mutate it: only self / molecule-like containers matter for the rules
    return out


def substitute_temporaries(func, ref_locals: Set[str]) -> bool:
    changed = False
    for _ in range(8):
        if not _substitute_once(func, ref_locals):
            break
        changed = True
    return changed


def _substitute_once(func, ref_locals) -> bool:
    assigned: Dict[str, int] = {}
    for n in ast.walk(func):
        if isinstance(n, ast.Name) and isinstance(n.ctx, (ast.Store, ast.Del)):
            assigned[n.id] = assigned.get(n.id, 0) + 1
    params = {a.arg for a in func.args.args + func.args.kwonlyargs}

    def blocks(node):
        for fld in ("body", "orelse", "finalbody"):
            blk = getattr(node, fld, None)
            if isinstance(blk, list) and blk and isinstance(blk[0], ast.stmt):
                yield blk
                for st in blk:
                    if not isinstance(st, (ast.FunctionDef, ast.AsyncFunctionDef, ast.ClassDef)):
                        yield from blocks(st)
        for h in getattr(node, "handlers", []) or []:
            yield h.body
            for st in h.body:
                yield from blocks(st)
    for blk in blocks(func):
        for i, st in enumerate(blk):
            if not (isinstance(st, ast.Assign) and len(st.targets) == 1 and isinstance(st.targets[0], ast.Name)):
                continue
            v = st.targets[0].id
            if v in ref_locals or v in params or assigned.get(v, 0) != 1 or v.startswith("__"):
                continue
            expr = st.value
            purity = _call_purity(expr)
            rest = blk[i + 1:]
            uses = [n for s in rest for n in ast.walk(s) if isinstance(n, ast.Name) and n.id == v and isinstance(n.ctx, ast.Load)]
            all_uses = [n for n in ast.walk(func) if isinstance(n, ast.Name) and n.id == v and isinstance(n.ctx, ast.Load)]
            if len(uses) != len(all_uses) or not uses:
                continue            # used outside the dominated region (or never): leave it
            if any(isinstance(n, (ast.FunctionDef, ast.Lambda)) and any(isinstance(m, ast.Name) and m.id == v for m in ast.walk(n)) for s in rest for n in ast.walk(s)):
                continue
            if purity == "impure" and len(uses) != 1:
                continue
            # the statements up to and including the last one that uses v
            last = max(k for k, s in enumerate(rest) if any(n in uses for n in ast.walk(s)))
            span = rest[:last + 1]
            muts = _mutations(span)
            reads = _reads(expr)
            # a use inside a loop body sees later iterations' mutations as well: handled because the whole loop statement is in `span`
            alias = isinstance(expr, (ast.Name, ast.Attribute)) and _simple(expr)
            if alias:
                # a plain alias of an object: in-place changes through either name are the same change; only rebinding breaks the equivalence
                rebound = {n.id for s_ in span for n in ast.walk(s_) if isinstance(n, ast.Name) and isinstance(n.ctx, (ast.Store, ast.Del))}
                attr_rebound = {ast.unparse(n) for s_ in span for n in ast.walk(s_) if isinstance(n, ast.Attribute) and isinstance(n.ctx, (ast.Store, ast.Del))}
                if (reads & rebound) or v in rebound or ast.unparse(expr) in attr_rebound or any(ast.unparse(expr).startswith(a + ".") for a in attr_rebound):
                    continue
            else:
                mp, opq = _mutation_paths(span)
                # loop counters of `for k in range(...)` are integers: handing them to a call cannot change them
                opq = opq - {n.target.id for n in ast.walk(func) if isinstance(n, ast.For) and isinstance(n.target, ast.Name) and isinstance(n.iter, ast.Call)
                             and isinstance(n.iter.func, ast.Name) and n.iter.func.id == "range"}
                one_next = len(span) == 1 and isinstance(span[0], (ast.Expr, ast.Assign, ast.AugAssign, ast.Return)) and len(uses) == 1
                if not one_next and len(span) == 1 and len(uses) == 1 and isinstance(span[0], ast.If) and any(n is uses[0] for n in ast.walk(span[0].test)):
                    one_next = True         # used once, in the test of the very next `if`: evaluated before anything in its arms runs
                fresh_scalar = purity == "pure" and isinstance(expr, (ast.BinOp, ast.Compare, ast.BoolOp, ast.UnaryOp, ast.IfExp))
                if v in mp or (v in opq and not fresh_scalar):
                    continue
                if _conflict(_read_paths(expr), mp, opq) and not one_next:
                    # (a single use in the very next simple statement evaluates the expression before that statement's own effect, exactly as the temporary did)
                    continue
            if purity == "impure":
                # exactly one use: it must be in the first statement of the span that has any call (evaluation order of side effects)
                first_call = next((k for k, s in enumerate(span) if any(isinstance(n, ast.Call) for n in ast.walk(s))), None)
                if first_call is None or not any(n in uses for n in ast.walk(span[first_call])):
                    continue
                if isinstance(span[first_call], (ast.For, ast.While)):
                    continue
            sub = _Subst({v: expr})
            for k, s in enumerate(span):
                blk[i + 1 + k] = sub.visit(s)
            del blk[i]
            if not blk:
                blk.append(ast.Pass())
            ast.fix_missing_locations(func)
            return True
    return False


def coalesce_copies(func, ref_locals: Set[str]) -> bool:
    """`t = E ... X = t` with t a new single-assignment local and X untouched in between: t is renamed to X and the copy dropped"""
    changed = False
    for _ in range(12):
        assigned: Dict[str, int] = {}
        for n in ast.walk(func):
            if isinstance(n, ast.Name) and isinstance(n.ctx, (ast.Store, ast.Del)):
                assigned[n.id] = assigned.get(n.id, 0) + 1
        done = False
        for blk in _blocks(func):
            for j, st in enumerate(blk):
                if not (isinstance(st, ast.Assign) and len(st.targets) == 1 and isinstance(st.targets[0], ast.Name) and isinstance(st.value, ast.Name)):
                    continue
                X, t = st.targets[0].id, st.value.id
                if t in ref_locals or assigned.get(t, 0) != 1 or X == t:
                    continue
                # definition of t earlier in the same block
                i = next((k for k in range(j - 1, -1, -1) if isinstance(blk[k], ast.Assign) and any(isinstance(n, ast.Name) and n.id == t and isinstance(n.ctx, ast.Store)
                                                                                                        for tg in blk[k].targets for n in ast.walk(tg))), None)
                if i is None:
                    continue
                between = blk[i:j]
                if any(isinstance(n, ast.Name) and n.id == X for s_ in between for n in ast.walk(s_)):
                    continue
                # every use of t lies in this block from i on
                all_uses = [n for n in ast.walk(func) if isinstance(n, ast.Name) and n.id == t]
                here = [n for s_ in blk[i:] for n in ast.walk(s_) if isinstance(n, ast.Name) and n.id == t]
                if len(all_uses) != len(here):
                    continue
                # X must not be reassigned later while t is still used
                later_t_use = [k for k in range(j + 1, len(blk)) if any(isinstance(n, ast.Name) and n.id == t for n in ast.walk(blk[k]))]
                if later_t_use:
                    lastu = later_t_use[-1]
                    if any(isinstance(n, ast.Name) and n.id == X and isinstance(n.ctx, (ast.Store, ast.Del)) for s_ in blk[j + 1:lastu + 1] for n in ast.walk(s_)):
                        continue
                for n in here:
                    n.id = X
                del blk[j]
                done = changed = True
                break
            if done:
                break
        if not done:
            break
    return changed


def _blocks(node):
    for fld in ("body", "orelse", "finalbody"):
        blk = getattr(node, fld, None)
        if isinstance(blk, list) and blk and isinstance(blk[0], ast.stmt):
            yield blk
            for st in blk:
                if not isinstance(st, (ast.FunctionDef, ast.AsyncFunctionDef, ast.ClassDef)):
                    yield from _blocks(st)
    for h in getattr(node, "handlers", []) or []:
        yield h.body
        for st in h.body:
            yield from _blocks(st)


def expand_star_tuples(func, ref_locals: Set[str]) -> bool:
    """`t = (a, b, c)` (t new, assigned once) used only as `f(*t)`: the call sites get the elements back"""
    changed = False
    for blk in list(_blocks(func)):
        for i, st in enumerate(list(blk)):
            if not (isinstance(st, ast.Assign) and len(st.targets) == 1 and isinstance(st.targets[0], ast.Name) and isinstance(st.value, (ast.Tuple, ast.List))):
                continue
            t = st.targets[0].id
            if t in ref_locals or any(isinstance(e, ast.Starred) for e in st.value.elts):
                continue
            stores = [n for n in ast.walk(func) if isinstance(n, ast.Name) and n.id == t and isinstance(n.ctx, (ast.Store, ast.Del))]
            loads = [n for n in ast.walk(func) if isinstance(n, ast.Name) and n.id == t and isinstance(n.ctx, ast.Load)]
            starred = [n for n in ast.walk(func) if isinstance(n, ast.Starred) and isinstance(n.value, ast.Name) and n.value.id == t]
            if len(stores) != 1 or not loads or len(loads) != len(starred):
                continue
            if not all(_simple(e) for e in st.value.elts):
                continue
            rest = blk[i + 1:]
            here = [n for s_ in rest for n in ast.walk(s_) if isinstance(n, ast.Name) and n.id == t and isinstance(n.ctx, ast.Load)]
            if len(here) != len(loads):
                continue
            last = max(k for k, s_ in enumerate(rest) if any(n in here for n in ast.walk(s_)))
            elem_names = {n.id for e in st.value.elts for n in ast.walk(e) if isinstance(n, ast.Name)}
            parents = {}
            for p_ in ast.walk(func):
                for c_ in ast.iter_child_nodes(p_):
                    parents[c_] = p_

            def chain(n):
                out = []
                while n is not None and n is not func:
                    out.append(n)
                    n = parents.get(n)
                return list(reversed(out))

            def stmt_of(n):
                while n is not None and not isinstance(n, ast.stmt):
                    n = parents.get(n)
                return n

            def may_precede(S, U):
                """can statement S have executed (after the definition) before the arguments of statement U are evaluated?"""
                if S is U:
                    return False            # U's own targets are bound after its arguments are evaluated
                cs, cu = chain(S), chain(U)
                k = 0
                while k < min(len(cs), len(cu)) and cs[k] is cu[k]:
                    k += 1
                common = cs[:k]
                if any(isinstance(x, (ast.For, ast.While)) and x is not None and x in ast.walk(ast.Module(body=rest, type_ignores=[])) for x in common):
                    return True             # both inside a loop that runs after the definition
                if common and isinstance(common[-1], ast.If) and k < len(cs) and k < len(cu):
                    iff = common[-1]
                    in_body = lambda n: any(n is b or n in ast.walk(b) for b in iff.body)
                    if in_body(cs[k]) != in_body(cu[k]):
                        return False        # different arms of one if
                return (getattr(S, "lineno", 0), getattr(S, "col_offset", 0)) < (getattr(U, "lineno", 0), getattr(U, "col_offset", 0))
            use_stmts = [stmt_of(n) for n in here]
            rebinders = [stmt_of(n) for s_ in rest[:last + 1] for n in ast.walk(s_) if isinstance(n, ast.Name) and isinstance(n.ctx, (ast.Store, ast.Del)) and n.id in elem_names]
            if any(may_precede(S, U) for S in rebinders for U in use_stmts):
                continue
            for c in [n for n in ast.walk(func) if isinstance(n, ast.Call)]:
                new_args = []
                for a in c.args:
                    if isinstance(a, ast.Starred) and isinstance(a.value, ast.Name) and a.value.id == t:
                        new_args.extend(copy.deepcopy(e) for e in st.value.elts)
                    else:
                        new_args.append(a)
                c.args = new_args
            blk.remove(st)
            if not blk:
                blk.append(ast.Pass())
            changed = True
    if changed:
        ast.fix_missing_locations(func)
    return changed


def _literal_iter(it, func, ref_locals, depth=0):
    """the literal tuple a loop iterates over, for `(a, b)`, `enumerate((a, b)[, start])`, `zip((a, b), (c, d))` and a new single-definition local bound to such a literal"""
    if isinstance(it, (ast.Tuple, ast.List)):
        return it
    if depth > 2:
        return None
    if isinstance(it, ast.Call) and isinstance(it.func, ast.Name) and not any(k.arg is None for k in it.keywords):
        if it.func.id == "enumerate" and 1 <= len(it.args) <= 2:
            inner = _literal_iter(it.args[0], func, ref_locals, depth + 1)
            start = it.args[1] if len(it.args) == 2 else next((k.value for k in it.keywords if k.arg == "start"), ast.Constant(value=0))
            if inner is None or not (isinstance(start, ast.Constant) and isinstance(start.value, int)):
                return None
            return ast.Tuple(elts=[ast.Tuple(elts=[ast.Constant(value=start.value + i), el], ctx=ast.Load()) for i, el in enumerate(inner.elts)], ctx=ast.Load())
        if it.func.id == "zip" and len(it.args) >= 2 and not it.keywords:
            inners = [_literal_iter(a, func, ref_locals, depth + 1) for a in it.args]
            if any(x is None for x in inners) or len({len(x.elts) for x in inners}) != 1:
                return None
            return ast.Tuple(elts=[ast.Tuple(elts=[x.elts[i] for x in inners], ctx=ast.Load()) for i in range(len(inners[0].elts))], ctx=ast.Load())
    if isinstance(it, ast.Name) and it.id not in ref_locals:
        defs = [st for st in ast.walk(func) if isinstance(st, ast.Assign) and any(isinstance(t, ast.Name) and t.id == it.id for t in st.targets)]
        stores = [n for n in ast.walk(func) if isinstance(n, ast.Name) and n.id == it.id and isinstance(n.ctx, (ast.Store, ast.Del))]
        if len(defs) == 1 and len(stores) == 1 and isinstance(defs[0].value, (ast.Tuple, ast.List)) and all(_simple(e) for e in defs[0].value.elts):
            # the elements must not be rebound between the definition and the loops (conservatively: never rebound in the function after being defined once)
            return defs[0].value
    return None


def unroll_literal_loops(func, ref_locals: Set[str]) -> bool:
    """`for x in (a, b, c): body` with x a new local (or a tuple of new locals over a literal of literal tuples), no break / continue / else, body not assigning x:
    the body is repeated with x replaced by each element"""
    changed = False
    for _ in range(10):
        done = False
        for blk in list(_blocks(func)):
            for i, st in enumerate(list(blk)):
                if not (isinstance(st, ast.For) and not st.orelse):
                    continue
                lit = _literal_iter(st.iter, func, ref_locals)
                if lit is None or not (0 < len(lit.elts) <= 32):
                    continue
                tg = st.target
                names = [tg.id] if isinstance(tg, ast.Name) else [e.id for e in tg.elts] if isinstance(tg, ast.Tuple) and all(isinstance(e, ast.Name) for e in tg.elts) else None
                if not names or any(n in ref_locals for n in names):
                    continue
                if any(isinstance(n, (ast.Break, ast.Continue)) for b in st.body for n in ast.walk(b)):
                    continue
                if any(isinstance(n, ast.Name) and n.id in names and isinstance(n.ctx, (ast.Store, ast.Del)) for b in st.body for n in ast.walk(b)):
                    continue
                if any(isinstance(n, ast.Name) and n.id in names for s_ in blk[i + 1:] for n in ast.walk(s_)):
                    continue            # the loop variable is read after the loop
                out = []
                ok = True
                for el in lit.elts:
                    if isinstance(tg, ast.Name):
                        if not (_simple(el) or isinstance(el, ast.Constant)):
                            ok = False
                            break
                        mapping = {tg.id: el}
                    else:
                        if not (isinstance(el, (ast.Tuple, ast.List)) and len(el.elts) == len(names) and all(_simple(x) or isinstance(x, ast.Constant) for x in el.elts)):
                            ok = False
                            break
                        mapping = dict(zip(names, el.elts))
                    sub = _Subst(mapping)
                    out.extend(sub.visit(copy.deepcopy(b)) for b in st.body)
                if not ok:
                    continue
                blk[i:i + 1] = out
                ast.fix_missing_locations(func)
                done = changed = True
                break
            if done:
                break
        if not done:
            break
    return changed


def _resolve_from(rel, st):
    """repository-relative path candidates of the module a `from X import ...` statement of file `rel` names"""
    base = rel.rsplit("/", 1)[0]
    if st.level:
        parts = base.split("/")
        for _ in range(st.level - 1):
            parts = parts[:-1]
        path = "/".join(parts + (st.module.split(".") if st.module else []))
    else:
        path = (st.module or "").replace(".", "/")
    return [path + ".py", path + "/__init__.py"]


def import_new_helpers(tree, rel, root) -> bool:
    """`from other_module import helper` where `helper` is a module-level function that the reference inventory of other_module does not know (a helper extracted into a
    shared module): the helper's definition is copied into this module (and the import alias dropped), so that the inliner treats it like a local new helper.  Only helpers
    whose free names are available in this module (or are the usual library aliases) are copied."""
    import builtins
    import os
    changed = False
    inv_all = inventory()
    have = set()
    for st in tree.body:
        if isinstance(st, (ast.Import, ast.ImportFrom)):
            have |= {(al.asname or al.name).split(".")[0] for al in st.names}
        elif isinstance(st, (ast.FunctionDef, ast.ClassDef)):
            have.add(st.name)
        elif isinstance(st, ast.Assign):
            have |= {t.id for t in st.targets if isinstance(t, ast.Name)}
    for st in list(tree.body):
        if not isinstance(st, ast.ImportFrom):
            continue
        target = next((c for c in _resolve_from(rel, st) if os.path.isfile(os.path.join(root, c))), None)
        if target is None or target == rel:
            continue
        tinv = inv_all.get(target)
        if tinv is None:
            continue        # a new module: nothing to anchor on
        new_names = [al for al in st.names if al.name != "*" and al.name not in tinv["functions"] and not any(q.split(".")[0] == al.name for q in tinv["functions"])]
        if not new_names:
            continue
        try:
            with open(os.path.join(root, target), "rb") as fh:
                ttree = ast.parse(fh.read().decode("utf-8"))
        except (OSError, SyntaxError):
            continue
        tdefs = {n.name: n for n in ttree.body if isinstance(n, ast.FunctionDef)}
        for al in new_names:
            fn = tdefs.get(al.name)
            if fn is None:
                continue
            local = {a.arg for a in fn.args.args + fn.args.kwonlyargs} | {n.id for n in ast.walk(fn) if isinstance(n, ast.Name) and isinstance(n.ctx, ast.Store)}
            free = {n.id for n in ast.walk(fn) if isinstance(n, ast.Name) and isinstance(n.ctx, ast.Load)} - local - set(dir(builtins))
            if not free <= have | {"torch", "th", "np", "math"}:
                continue
            if al.asname and al.asname != al.name:
                fn.name = al.asname
            idx = tree.body.index(st)
            tree.body.insert(idx + 1, fn)
            st.names.remove(al)
            changed = True
        if not st.names:
            tree.body.remove(st)
    return changed


def _referenced_elsewhere(names, rel, root):
    """which of the module-level names of file `rel` occur in another source file of the tree (a helper that other modules import must stay defined)"""
    import os
    import re
    out = set()
    if not names:
        return out
    pat = re.compile(r"\b(" + "|".join(re.escape(n) for n in names) + r")\b")
    for top in ("seqm", "scripts"):
        for dp, _, fns in os.walk(os.path.join(root, top)):
            for fn in fns:
                if not fn.endswith(".py"):
                    continue
                p = os.path.join(dp, fn)
                if os.path.relpath(p, root) == rel:
                    continue
                try:
                    with open(p, encoding="utf-8", errors="replace") as fh:
                        out |= set(pat.findall(fh.read()))
                except OSError:
                    pass
    return out


def lower_grad_decorators(tree) -> bool:
    """`@torch.no_grad()` / `@torch.enable_grad()` / `@torch.inference_mode()` on a function is the same program as the function body inside the corresponding `with` block.
    The rules read gradient contexts from `with` statements (and carry them along when a helper is inlined), so the decorator form is lowered to the block form -- on every
    normal form of the tree, including the tree as written: a rule that ignored the decorator would be unsound, not merely brittle."""
    changed = False
    for fn in ast.walk(tree):
        if not isinstance(fn, (ast.FunctionDef, ast.AsyncFunctionDef)):
            continue
        keep = []
        ctxs = []
        for d in fn.decorator_list:
            core = d.func if isinstance(d, ast.Call) else d
            txt = ast.unparse(core)
            if txt.split(".")[-1] in ("no_grad", "enable_grad", "inference_mode") and txt.split(".")[0] in ("torch", "th"):
                ctxs.append(d if isinstance(d, ast.Call) else ast.Call(func=d, args=[], keywords=[]))
            else:
                keep.append(d)
        if not ctxs:
            continue
        body = fn.body
        doc = []
        if body and isinstance(body[0], ast.Expr) and isinstance(body[0].value, ast.Constant) and isinstance(body[0].value.value, str):
            doc, body = body[:1], body[1:]
        for c in reversed(ctxs):          # outermost decorator = outermost block
            w = ast.With(items=[ast.withitem(context_expr=c, optional_vars=None)], body=body or [ast.Pass()], type_comment=None)
            ast.copy_location(w, fn)
            body = [w]
        fn.body = doc + body
        fn.decorator_list = keep
        changed = True
    if changed:
        ast.fix_missing_locations(tree)
    return changed


def normalize_tree(tree, rel: str, temporaries: bool = True, root: Optional[str] = None) -> bool:
    inv = inventory().get(rel)
    if inv is None:
        return False
    pre = import_new_helpers(tree, rel, root) if root else False
    inl = Inliner(tree, rel)
    if root and inl.new:
        inl.keep = _referenced_elsewhere({f.name for q, (f, cls, _) in inl.new.items() if cls is None}, rel, root)
    changed = inl.run() or pre
    if not temporaries:
        if changed:
            ast.fix_missing_locations(tree)
        return changed
    funcs = _functions(tree)
    for q, (func, cls, _) in funcs.items():
        ref = inv["functions"].get(q)
        if ref is None:
            continue
        cur = local_names(func)
        if cur - set(ref):
            if unroll_literal_loops(func, set(ref)):
                changed = True
            if expand_star_tuples(func, set(ref)):
                changed = True
            if coalesce_copies(func, set(ref)):
                changed = True
            if substitute_temporaries(func, set(ref)):
                changed = True
    if changed:
        ast.fix_missing_locations(tree)
    return changed
