"""Guard extraction: which tests control a statement, with polarity, including early-exit guards.

A *controlling atom* of statement S in function F is an atomic boolean expression A together
with a polarity p such that on every path from F's entry to S, A evaluated to p the last time it
was tested.  Two syntactic sources are recognised (both are sound for structured code):

  * S lies in the body (p=True) or orelse (p=False) of an enclosing ``if``/``while``;
  * an earlier sibling statement ``if T: <block ending in return/continue/break/raise>`` precedes
    S (or an ancestor of S) in the same block, giving not-T.

Tests are decomposed through and/or/not: under positive polarity the conjuncts of an ``and``
hold individually; under negative polarity the disjuncts of an ``or`` fail individually.
"""
from __future__ import annotations

import ast
from typing import List, Tuple

from .loader import Module


def _terminates(block) -> bool:
    if not block:
        return False
    last = block[-1]
    if isinstance(last, (ast.Return, ast.Continue, ast.Break, ast.Raise)):
        return True
    if isinstance(last, ast.If) and last.orelse:
        return _terminates(last.body) and _terminates(last.orelse)
    return False


def atoms(test: ast.AST, polarity: bool) -> List[Tuple[ast.AST, bool]]:
    """Atomic facts implied by `test` evaluating to `polarity`."""
    if isinstance(test, ast.UnaryOp) and isinstance(test.op, ast.Not):
        return atoms(test.operand, not polarity)
    if isinstance(test, ast.BoolOp):
        if isinstance(test.op, ast.And) and polarity:
            out = []
            for v in test.values:
                out += atoms(v, True)
            return out
        if isinstance(test.op, ast.Or) and not polarity:
            out = []
            for v in test.values:
                out += atoms(v, False)
            return out
        return [(test, polarity)]  # weak: kept whole
    return [(test, polarity)]


def controlling(mod: Module, stmt: ast.AST, stop: ast.AST = None) -> List[Tuple[ast.AST, bool, ast.AST]]:
    """List of (atom, polarity, source-if) controlling `stmt` inside its enclosing function."""
    out = []
    cur = stmt
    while cur is not None and cur is not stop and not isinstance(cur, (ast.FunctionDef, ast.AsyncFunctionDef, ast.Lambda)):
        parent = mod.parents.get(cur)
        if parent is None:
            break
        # which block of parent holds cur?
        for fld in ("body", "orelse", "finalbody"):
            block = getattr(parent, fld, None)
            if isinstance(block, list) and cur in block:
                idx = block.index(cur)
                # early-exit guards among earlier siblings
                for sib in block[:idx]:
                    if isinstance(sib, ast.If):
                        if _terminates(sib.body) and not _terminates(sib.orelse or []):
                            out += [(a, p, sib) for a, p in atoms(sib.test, False)]
                        elif sib.orelse and _terminates(sib.orelse) and not _terminates(sib.body):
                            out += [(a, p, sib) for a, p in atoms(sib.test, True)]
                if isinstance(parent, (ast.If, ast.While)):
                    if fld == "body":
                        out += [(a, p, parent) for a, p in atoms(parent.test, True)]
                    elif fld == "orelse" and isinstance(parent, ast.If):
                        out += [(a, p, parent) for a, p in atoms(parent.test, False)]
                break
        else:
            if isinstance(parent, ast.ExceptHandler) or isinstance(parent, ast.IfExp):
                pass
        cur = parent
    return out


def modulo_atoms(ctrl):
    """From controlling atoms pick those of the form (X % Y) ==/!= 0 or bare/not (X % Y).
    Returns list of (X, Y, multiple: bool, atom) where multiple=True means 'X is a multiple of Y'
    is known to hold when the statement runs."""
    out = []
    for a, pol, src in ctrl:
        x = y = None
        eq = None
        if isinstance(a, ast.Compare) and len(a.ops) == 1:
            l, r = a.left, a.comparators[0]
            if isinstance(l, ast.BinOp) and isinstance(l.op, ast.Mod) and isinstance(r, ast.Constant) and r.value == 0:
                x, y = l.left, l.right
            elif isinstance(r, ast.BinOp) and isinstance(r.op, ast.Mod) and isinstance(l, ast.Constant) and l.value == 0:
                x, y = r.left, r.right
            if x is not None:
                if isinstance(a.ops[0], ast.Eq):
                    eq = True
                elif isinstance(a.ops[0], ast.NotEq):
                    eq = False
                else:
                    eq = None
        elif isinstance(a, ast.BinOp) and isinstance(a.op, ast.Mod):
            x, y, eq = a.left, a.right, False  # truthy (X % Y) means NOT a multiple
        if x is None:
            # a weak atom (e.g. an `or`) that mentions a modulo: report as unknown polarity
            mods = [n for n in ast.walk(a) if isinstance(n, ast.BinOp) and isinstance(n.op, ast.Mod)
                    and not isinstance(n.left, ast.Constant)]
            for m in mods:
                if isinstance(m.left, ast.Constant) and isinstance(m.left.value, str):
                    continue
                out.append((m.left, m.right, None, a))
            continue
        multiple = None if eq is None else (eq == pol)
        out.append((x, y, multiple, a))
    return out
