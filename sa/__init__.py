"""Static-analysis checkers for lanl/PYSEQM properties C01-C20.

Every deciding step parses /repo's working tree with ``ast``; nothing here imports
or executes repository code.
"""
