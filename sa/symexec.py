"""Masked straight-line symbolic interpreter (sympy) for per-pair tensor code.

Tensor statements are interpreted for ONE generic pair/atom: element-wise tensor algebra becomes scalar algebra.
Boolean masks named in `case` select which masked stores apply (`t[XH] = ...` applies iff case['XH'] is True,
`t[~XH] = ...` iff it is False), `if method == "...":` tests are decided from concrete strings in `consts`.
Nothing is executed: the repository's statements are re-read as equations.
"""
from __future__ import annotations

import ast
from typing import Any, Callable, Dict, List, Optional

from .exprs import to_sympy, torch_funcs
from .loader import AnalysisError, call_name, callee_attr, norm


class Stop(Exception):
    def __init__(self, value):
        self.value = value


def literal_globals(*mods):
    """module-level names bound to literals (numbers, strings, tuples / lists / sets of them): decidable operands of configuration tests such as `method in _METHODS`"""
    out = {}
    for m in mods:
        for nm, val in getattr(m, "globals", {}).items():
            try:
                v = ast.literal_eval(val)
            except (ValueError, SyntaxError, TypeError):
                continue
            if isinstance(v, (str, int, float, tuple, list, set, frozenset)):
                out[nm] = list(v) if isinstance(v, (tuple, set, frozenset)) else v
    return out


class SymExec:
    def __init__(self, env: Dict[str, Any], case: Dict[str, bool], consts: Dict[str, Any], index_atoms: Dict[str, Any],
                 funcs: Optional[Dict[str, Callable]] = None, drop_index_names=("idxi", "idxj", "ni", "nj")):
        import sympy as sp
        self.sp = sp
        self.env = dict(env)
        self.case = case
        self.consts = consts
        self.index_atoms = index_atoms          # normalised subscript text -> symbol, e.g. "tore[ni]" -> Zi
        self.funcs = dict(torch_funcs())
        self.funcs.update({"torch.sum": lambda a, n: a[0], ".sum": lambda a, n: a[0], "torch.zeros_like": lambda a, n: sp.Integer(0),
                           "torch.zeros": lambda a, n: sp.Integer(0), "torch.pow": lambda a, n: a[0] ** a[1], "pow": lambda a, n: a[0] ** a[1],
                           ".clone": lambda a, n: a[0], "torch.exp": lambda a, n: sp.exp(a[0]), "torch.sqrt": lambda a, n: sp.sqrt(a[0])})
        if funcs:
            self.funcs.update(funcs)
        self.funcs["[]"] = self._subscript
        self.returned = None

    # ---- expressions
    def _mask_name(self, s):
        """(name, polarity) if slice `s` is a case mask or its negation."""
        if isinstance(s, ast.Name) and s.id in self.case:
            return s.id, True
        if isinstance(s, ast.UnaryOp) and isinstance(s.op, ast.Invert) and isinstance(s.operand, ast.Name) and s.operand.id in self.case:
            return s.operand.id, False
        return None

    def _subscript(self, n: ast.Subscript, rec):
        t = norm(n)
        if t in self.index_atoms:
            return self.index_atoms[t]
        # x[mask] -> x ; x[:, None] / x[..., 0] style views of a per-pair scalar -> x
        m = self._mask_name(n.slice)
        if m is not None:
            return rec(n.value)
        base_t = norm(n.value)
        if base_t in self.index_atoms:
            return self.index_atoms[base_t]
        sl = n.slice
        elts = sl.elts if isinstance(sl, ast.Tuple) else [sl]
        if all(isinstance(e, ast.Slice) or (isinstance(e, ast.Constant) and e.value in (None, Ellipsis)) for e in elts):
            return rec(n.value)
        if isinstance(sl, ast.Constant) and isinstance(sl.value, int):
            v = rec(n.value)
            if isinstance(v, (tuple, list)):
                return v[sl.value]
        raise AnalysisError(f"symexec: subscript {t}")

    def ev(self, e):
        def atom(n):
            if isinstance(n, ast.Name) and n.id in self.consts:
                return self.sp.sympify(self.consts[n.id]) if not isinstance(self.consts[n.id], str) else None
            return None
        v = self.env.get(norm(e)) if isinstance(e, (ast.Name, ast.Attribute)) else None
        if v is not None:
            return v
        return to_sympy(e, self.env, self.funcs, atom)

    def test(self, t) -> Optional[bool]:
        if isinstance(t, ast.BoolOp):
            vs = [self.test(v) for v in t.values]
            if isinstance(t.op, ast.Or):
                return True if any(v is True for v in vs) else (False if all(v is False for v in vs) else None)
            return False if any(v is False for v in vs) else (True if all(v is True for v in vs) else None)
        if isinstance(t, ast.UnaryOp) and isinstance(t.op, ast.Not):
            v = self.test(t.operand)
            return None if v is None else not v
        if isinstance(t, ast.Compare) and len(t.ops) == 1:
            l, r = t.left, t.comparators[0]
            def cv(x):
                if isinstance(x, ast.Constant):
                    return x.value
                if isinstance(x, ast.Name) and x.id in self.consts:
                    return self.consts[x.id]
                if isinstance(x, (ast.Set, ast.Tuple, ast.List)) and all(isinstance(e, ast.Constant) for e in x.elts):
                    return [e.value for e in x.elts]
                return NotImplemented
            a, b = cv(l), cv(r)
            if a is NotImplemented or b is NotImplemented:
                return None
            op = t.ops[0]
            if isinstance(op, ast.Eq):
                return a == b
            if isinstance(op, ast.NotEq):
                return a != b
            if isinstance(op, ast.In):
                return a in b
            if isinstance(op, ast.NotIn):
                return a not in b
        if isinstance(t, ast.Name) and t.id in self.case:
            return self.case[t.id]
        return None

    # ---- statements
    def run(self, stmts: List[ast.stmt]):
        try:
            self._block(stmts)
        except Stop as s:
            self.returned = s.value
        return self.returned

    def _block(self, stmts):
        for st in stmts:
            self._stmt(st)

    def _assign(self, target, value_node=None, value=None):
        if value is None:
            value = self.ev(value_node)
        if isinstance(target, ast.Name):
            self.env[target.id] = value
        elif isinstance(target, (ast.Tuple, ast.List)):
            if not isinstance(value, (tuple, list)) or len(value) != len(target.elts):
                raise AnalysisError(f"symexec: cannot unpack into {norm(target)}")
            for t, v in zip(target.elts, value):
                self._assign(t, value=v)
        elif isinstance(target, ast.Subscript):
            m = self._mask_name(target.slice)
            base = target.value
            if m is not None and isinstance(base, ast.Name):
                name, pol = m
                if self.case[name] == pol:
                    self.env[base.id] = value
                return
            # unmasked element/slice store on a per-pair scalar: treat as full assignment
            if isinstance(base, ast.Name):
                self.env[base.id] = value
            else:
                raise AnalysisError(f"symexec: store to {norm(target)}")
        else:
            raise AnalysisError(f"symexec: store to {norm(target)}")

    def _stmt(self, st):
        sp = self.sp
        if isinstance(st, ast.Expr) and isinstance(st.value, ast.Constant):
            return
        if isinstance(st, ast.Assign):
            if isinstance(st.value, ast.Compare) or (isinstance(st.value, ast.BinOp) and isinstance(st.value.op, (ast.BitAnd, ast.BitOr))):
                # definition of a mask: its truth value is fixed by the case table
                for t in st.targets:
                    if isinstance(t, ast.Name) and t.id not in self.case:
                        pass
                return
            if isinstance(st.value, ast.Name) and st.value.id in ("parameters", "parnuc") and st.value.id in self.env:
                val = self.env[st.value.id]
                for t in st.targets:
                    self._assign(t, value=val)
                return
            try:
                val = self.ev(st.value)
            except AnalysisError:
                # not interpretable (bookkeeping such as dtype/device): poison the targets
                for t in st.targets:
                    for x in ast.walk(t):
                        if isinstance(x, ast.Name):
                            self.env.pop(x.id, None)
                return
            for t in st.targets:
                self._assign(t, value=val)
            return
        if isinstance(st, ast.AugAssign):
            cur = self.ev(st.target) if not isinstance(st.target, ast.Subscript) else self.ev(st.target.value)
            v = self.ev(st.value)
            op = st.op
            new = cur + v if isinstance(op, ast.Add) else cur - v if isinstance(op, ast.Sub) else cur * v if isinstance(op, ast.Mult) else cur / v if isinstance(op, ast.Div) else None
            if new is None:
                raise AnalysisError(f"symexec: augmented op {norm(st)}")
            self._assign(st.target, value=new)
            return
        if isinstance(st, ast.Expr) and isinstance(st.value, ast.Call) and isinstance(st.value.func, ast.Attribute) \
                and st.value.func.attr in ("add_", "sub_", "mul_") and isinstance(st.value.func.value, ast.Name):
            nm = st.value.func.value.id
            v = self.ev(st.value.args[0])
            kw = {k.arg: k.value for k in st.value.keywords}
            if "alpha" in kw:
                v = v * self.ev(kw["alpha"])
            cur = self.env[nm]
            self.env[nm] = cur + v if st.value.func.attr == "add_" else cur - v if st.value.func.attr == "sub_" else cur * v
            return
        if isinstance(st, ast.If):
            t = self.test(st.test)
            if t is None:
                raise AnalysisError(f"symexec: undecidable test `{norm(st.test)}`")
            self._block(st.body if t else st.orelse)
            return
        if isinstance(st, ast.Return):
            raise Stop(self.ev(st.value) if st.value is not None else None)
        if isinstance(st, ast.Raise):
            raise Stop(("raise", norm(st)))
        if isinstance(st, (ast.Pass, ast.Delete, ast.Import, ast.ImportFrom)):
            return
        if isinstance(st, ast.Expr):
            return
        raise AnalysisError(f"symexec: unsupported statement {norm(st)[:60]}")
