"""Expression utilities: constant folding, affine normal form, a tiny integer evaluator for
extracted index expressions, and an AST -> sympy bridge for straight-line expression algebra.

None of this executes repository code: the repository's *expressions* are re-interpreted by
these evaluators over symbolic or small integer domains.
"""
from __future__ import annotations

import ast
import math
from fractions import Fraction
from typing import Any, Callable, Dict, Optional

from .loader import AnalysisError, attr_chain, dotted, norm


class NotConst(Exception):
    pass


_MATH_FUNCS = {"sqrt": math.sqrt, "exp": math.exp, "log": math.log, "abs": abs, "float": float, "int": int,
               "min": min, "max": max, "pow": pow}


def fold(node: ast.AST, env: Optional[Dict[str, Any]] = None):
    """Fold a numeric/list literal expression to a Python value. `env` maps names / dotted names to
    values.  Raises NotConst for anything else."""
    env = env or {}
    if isinstance(node, ast.Constant):
        return node.value
    if isinstance(node, ast.Name):
        if node.id in env:
            return env[node.id]
        raise NotConst(node.id)
    if isinstance(node, ast.Attribute):
        d = dotted(node)
        if d and d in env:
            return env[d]
        raise NotConst(norm(node))
    if isinstance(node, ast.UnaryOp):
        v = fold(node.operand, env)
        if isinstance(node.op, ast.USub):
            return -v
        if isinstance(node.op, ast.UAdd):
            return +v
        if isinstance(node.op, ast.Not):
            return not v
        raise NotConst(norm(node))
    if isinstance(node, ast.BinOp):
        a, b = fold(node.left, env), fold(node.right, env)
        op = node.op
        try:
            if isinstance(op, ast.Add):
                return a + b
            if isinstance(op, ast.Sub):
                return a - b
            if isinstance(op, ast.Mult):
                return a * b
            if isinstance(op, ast.Div):
                return a / b
            if isinstance(op, ast.FloorDiv):
                return a // b
            if isinstance(op, ast.Mod):
                return a % b
            if isinstance(op, ast.Pow):
                return a ** b
        except Exception as e:
            raise NotConst(f"{norm(node)}: {e}")
        raise NotConst(norm(node))
    if isinstance(node, (ast.List, ast.Tuple)):
        return [fold(e, env) for e in node.elts]
    if isinstance(node, ast.Dict):
        return {fold(k, env): fold(v, env) for k, v in zip(node.keys, node.values)}
    if isinstance(node, ast.Call):
        fn = dotted(node.func) or ""
        base = fn.split(".")[-1]
        if base in _MATH_FUNCS and not node.keywords:
            return _MATH_FUNCS[base](*[fold(a, env) for a in node.args])
        if base in ("tensor", "as_tensor", "array") and node.args:
            return fold(node.args[0], env)
    if isinstance(node, ast.Subscript):
        v = fold(node.value, env)
        i = fold(node.slice, env)
        try:
            return v[i]
        except Exception as e:
            raise NotConst(str(e))
    if isinstance(node, ast.Slice):
        lo = fold(node.lower, env) if node.lower else None
        hi = fold(node.upper, env) if node.upper else None
        st = fold(node.step, env) if node.step else None
        return slice(lo, hi, st)
    raise NotConst(norm(node))


# ---------------------------------------------------------------------- affine forms

class Affine:
    """sum coef[var]*var + const, with Fraction coefficients; var names are normalised source text."""

    def __init__(self, coef=None, const=0):
        self.coef = {k: Fraction(v) for k, v in (coef or {}).items() if v != 0}
        self.const = Fraction(const)

    def __add__(self, o):
        c = dict(self.coef)
        for k, v in o.coef.items():
            c[k] = c.get(k, 0) + v
        return Affine(c, self.const + o.const)

    def scale(self, s):
        return Affine({k: v * s for k, v in self.coef.items()}, self.const * s)

    def __eq__(self, o):
        return isinstance(o, Affine) and self.coef == o.coef and self.const == o.const

    def is_const(self):
        return not self.coef

    def __repr__(self):
        parts = [f"{v}*{k}" for k, v in sorted(self.coef.items())]
        if self.const or not parts:
            parts.append(str(self.const))
        return " + ".join(parts)


def affine(node: ast.AST, subst: Optional[Dict[str, "Affine"]] = None, strip_calls=("int", "float")) -> Affine:
    """Affine normal form over opaque atoms (names/attribute chains).  Non-affine sub-terms become
    atoms keyed by their normalised text."""
    subst = subst or {}
    if isinstance(node, ast.Constant) and isinstance(node.value, (int, float)) and not isinstance(node.value, bool):
        return Affine({}, Fraction(node.value).limit_denominator(10**12))
    if isinstance(node, ast.Name) and node.id in subst:
        return subst[node.id]
    if isinstance(node, ast.UnaryOp) and isinstance(node.op, ast.USub):
        return affine(node.operand, subst).scale(-1)
    if isinstance(node, ast.UnaryOp) and isinstance(node.op, ast.UAdd):
        return affine(node.operand, subst)
    if isinstance(node, ast.BinOp):
        if isinstance(node.op, ast.Add):
            return affine(node.left, subst) + affine(node.right, subst)
        if isinstance(node.op, ast.Sub):
            return affine(node.left, subst) + affine(node.right, subst).scale(-1)
        if isinstance(node.op, ast.Mult):
            a, b = affine(node.left, subst), affine(node.right, subst)
            if a.is_const():
                return b.scale(a.const)
            if b.is_const():
                return a.scale(b.const)
        if isinstance(node.op, ast.Div):
            a, b = affine(node.left, subst), affine(node.right, subst)
            if b.is_const() and b.const != 0:
                return a.scale(1 / b.const)
    if isinstance(node, ast.Call) and isinstance(node.func, ast.Name) and node.func.id in strip_calls \
            and len(node.args) == 1 and not node.keywords:
        return affine(node.args[0], subst)
    return Affine({norm(node): 1}, 0)


# ---------------------------------------------------------------------- tiny integer evaluator

def int_eval(node: ast.AST, env: Dict[str, Any], call=None):
    """Evaluate an extracted integer/boolean expression (+,-,*,//,%,comparisons, and/or/not,
    conditional expressions, min/max/int/len) over a concrete small-integer environment.
    `call(node, env)` (optional) interprets calls to repository helpers (see exec_int_function)."""
    if call is not None:
        return _IntEval(env, call).ev(node)
    return _IntEval(env, None).ev(node)


class _IntEval:
    def __init__(self, env, call):
        self.env, self.call = env, call

    def ev(self, node):
        return _int_eval(node, self.env, self)


def _int_eval(node: ast.AST, env: Dict[str, Any], ctx):
    if isinstance(node, ast.Constant):
        return node.value
    if isinstance(node, ast.Name):
        if node.id in env:
            return env[node.id]
        raise AnalysisError(f"int_eval: unbound name {node.id}")
    if isinstance(node, ast.Attribute):
        d = dotted(node)
        if d in env:
            return env[d]
        raise AnalysisError(f"int_eval: unbound {d}")
    if isinstance(node, ast.UnaryOp):
        v = ctx.ev(node.operand)
        return -v if isinstance(node.op, ast.USub) else (not v if isinstance(node.op, ast.Not) else +v)
    if isinstance(node, ast.BinOp):
        a, b = ctx.ev(node.left), ctx.ev(node.right)
        op = node.op
        if isinstance(op, ast.Add):
            return a + b
        if isinstance(op, ast.Sub):
            return a - b
        if isinstance(op, ast.Mult):
            return a * b
        if isinstance(op, ast.FloorDiv):
            return a // b
        if isinstance(op, ast.Mod):
            return a % b
        if isinstance(op, ast.Div):
            return a / b
        if isinstance(op, ast.Pow) and isinstance(b, int) and 0 <= b <= 8:
            return a ** b
        raise AnalysisError(f"int_eval: operator {norm(node)}")
    if isinstance(node, ast.BoolOp):
        if isinstance(node.op, ast.And):
            v = True
            for e in node.values:
                v = ctx.ev(e)
                if not v:
                    return v
            return v
        v = False
        for e in node.values:
            v = ctx.ev(e)
            if v:
                return v
        return v
    if isinstance(node, ast.Compare):
        left = ctx.ev(node.left)
        for op, c in zip(node.ops, node.comparators):
            right = ctx.ev(c)
            ok = {ast.Eq: left == right, ast.NotEq: left != right, ast.Lt: left < right, ast.LtE: left <= right,
                  ast.Gt: left > right, ast.GtE: left >= right}.get(type(op))
            if ok is None:
                if isinstance(op, ast.Is):
                    ok = left is right
                elif isinstance(op, ast.IsNot):
                    ok = left is not right
                else:
                    raise AnalysisError(f"int_eval: comparison {norm(node)}")
            if not ok:
                return False
            left = right
        return True
    if isinstance(node, ast.IfExp):
        return ctx.ev(node.body) if ctx.ev(node.test) else ctx.ev(node.orelse)
    if isinstance(node, ast.Call) and isinstance(node.func, ast.Name) and node.func.id in ("int", "min", "max", "abs", "bool"):
        args = [ctx.ev(a) for a in node.args]
        return {"int": int, "min": min, "max": max, "abs": abs, "bool": bool}[node.func.id](*args)
    if isinstance(node, ast.Call) and ctx.call is not None:
        return ctx.call(node, env, ctx)
    raise AnalysisError(f"int_eval: unsupported {norm(node)}")


def exec_int_function(func: ast.FunctionDef, args: Dict[str, Any], max_steps=200, closure: Optional[Dict[str, Any]] = None, call=None):
    """Interpret a tiny pure integer function (if/return/assign only) -- used for `_n_timepoints`
    and local helper closures.  Missing arguments take the literal defaults of the signature."""
    env = dict(closure or {})
    pos = func.args.args
    defaults = func.args.defaults
    for a, d in zip(pos[len(pos) - len(defaults):], defaults):
        try:
            env[a.arg] = fold(d)
        except NotConst:
            pass
    env.update(args)

    class _Ret(Exception):
        def __init__(self, v):
            self.v = v

    def run(stmts):
        for st in stmts:
            if isinstance(st, ast.Expr) and isinstance(st.value, ast.Constant):
                continue
            if isinstance(st, ast.Return):
                raise _Ret(int_eval(st.value, env, call) if st.value is not None else None)
            if isinstance(st, ast.If):
                run(st.body if int_eval(st.test, env, call) else st.orelse)
            elif isinstance(st, ast.Assign) and len(st.targets) == 1 and isinstance(st.targets[0], ast.Name):
                env[st.targets[0].id] = int_eval(st.value, env, call)
            elif isinstance(st, ast.AugAssign) and isinstance(st.target, ast.Name):
                cur = env[st.target.id]
                env[st.target.id] = int_eval(ast.BinOp(left=ast.Constant(cur), op=st.op, right=st.value), env, call)
            elif isinstance(st, ast.Pass):
                continue
            else:
                raise AnalysisError(f"exec_int_function: unsupported statement {norm(st)[:80]}")

    try:
        run(func.body)
    except _Ret as r:
        return r.v
    return None


def bind_call_args(func: ast.FunctionDef, call: ast.Call, argvals, kwvals, skip_self=True) -> Dict[str, Any]:
    params = [a.arg for a in func.args.args]
    if skip_self and params and params[0] in ("self", "cls"):
        params = params[1:]
    out = {}
    for p, v in zip(params, argvals):
        out[p] = v
    out.update(kwvals)
    return out


# ---------------------------------------------------------------------- sympy bridge

def to_sympy(node: ast.AST, env: Dict[str, Any], funcs: Optional[Dict[str, Callable]] = None,
             atom: Optional[Callable[[ast.AST], Any]] = None):
    """Translate an expression AST to a sympy term.

    env:   names / dotted names -> sympy expressions
    funcs: dotted call name or bare method name -> python callable building a sympy term from
           (translated positional args, node); method calls `x.m(a)` are looked up as '.m' with x first.
    atom:  fallback for unknown leaves (returns sympy object or None)
    """
    import sympy as sp

    funcs = funcs or {}

    def rec(n):
        if isinstance(n, ast.Constant):
            if isinstance(n.value, bool):
                return sp.true if n.value else sp.false
            if isinstance(n.value, int):
                return sp.Integer(n.value)
            if isinstance(n.value, float):
                return sp.nsimplify(n.value, rational=True) if abs(n.value) < 1e6 and n.value == round(n.value, 10) else sp.Float(n.value)
            raise AnalysisError(f"to_sympy: constant {n.value!r}")
        if isinstance(n, ast.Name):
            if n.id in env:
                return env[n.id]
        if isinstance(n, (ast.Name, ast.Attribute)):
            d = dotted(n)
            if d is not None and d in env:
                return env[d]
            if atom is not None:
                r = atom(n)
                if r is not None:
                    return r
            raise AnalysisError(f"to_sympy: unbound {norm(n)}")
        if isinstance(n, ast.UnaryOp):
            v = rec(n.operand)
            if isinstance(n.op, ast.USub):
                return -v
            if isinstance(n.op, ast.UAdd):
                return v
        if isinstance(n, ast.BinOp):
            a, b = rec(n.left), rec(n.right)
            op = n.op
            if isinstance(op, ast.Add):
                return a + b
            if isinstance(op, ast.Sub):
                return a - b
            if isinstance(op, ast.Mult):
                return a * b
            if isinstance(op, ast.Div):
                return a / b
            if isinstance(op, ast.Pow):
                return a ** b
        if isinstance(n, ast.Call):
            name = dotted(n.func)

            def lazy(a):
                # shape/dim arguments (tuples, keywords) are not algebraic: handlers that ignore them get None
                try:
                    return rec(a)
                except AnalysisError:
                    return None
            if name in funcs:
                return funcs[name]([rec(n.args[0])] + [lazy(a) for a in n.args[1:]] if n.args else [], n)
            if isinstance(n.func, ast.Attribute):
                key = "." + n.func.attr
                if key in funcs:
                    return funcs[key]([rec(n.func.value)] + [lazy(a) for a in n.args], n)
            if name is not None:
                base = name.split(".")[-1]
                if ("*." + base) in funcs:
                    return funcs["*." + base]([lazy(a) for a in n.args], n)
        if isinstance(n, ast.Subscript):
            if "[]" in funcs:
                return funcs["[]"](n, rec)
            if atom is not None:
                r = atom(n)
                if r is not None:
                    return r
        if atom is not None:
            r = atom(n)
            if r is not None:
                return r
        raise AnalysisError(f"to_sympy: unsupported {norm(n)[:100]}")

    return rec(node)


def torch_funcs():
    """Default translation table for scalar torch/math functions."""
    import sympy as sp

    one = lambda f: (lambda a, n: f(a[0]))
    t = {}
    for mod in ("torch", "math", "np", "numpy"):
        t[f"{mod}.sqrt"] = one(sp.sqrt)
        t[f"{mod}.exp"] = one(sp.exp)
        t[f"{mod}.log"] = one(sp.log)
        t[f"{mod}.expm1"] = one(lambda x: sp.exp(x) - 1)
        t[f"{mod}.abs"] = one(sp.Abs)
        t[f"{mod}.sign"] = one(sp.sign)
        t[f"{mod}.pow"] = lambda a, n: a[0] ** a[1]
        t[f"{mod}.square"] = one(lambda x: x ** 2)
    t["torch.as_tensor"] = lambda a, n: a[0]
    t["torch.tensor"] = lambda a, n: a[0]
    t["float"] = lambda a, n: a[0]
    t[".sqrt"] = one(sp.sqrt)
    t[".exp"] = one(sp.exp)
    t[".abs"] = one(sp.Abs)
    t[".sign"] = one(sp.sign)
    t[".pow"] = lambda a, n: a[0] ** a[1]
    t[".square"] = one(lambda x: x ** 2)
    for passthru in ("reshape", "view", "unsqueeze", "squeeze", "to", "clone", "detach", "contiguous", "expand_as",
                     "double", "float", "type"):
        t["." + passthru] = lambda a, n: a[0]
    return t


def identically(expr, value=0, n_points: int = 8, prec: int = 60, seed: int = 12345) -> bool:
    """Decide expr == value as an identity in its free symbols.  First by symbolic normalisation; if sympy cannot
    normalise radicals (e.g. (8a+4b)**(3/2) vs 8*(2a+b)**(3/2)) fall back to an exact-arithmetic evaluation at
    random positive rational points with `prec` digits (an algebraic identity that holds at 8 random points to
    1e-40 is an identity for all practical purposes; a genuine difference is non-zero almost everywhere)."""
    import random

    import sympy as sp
    d = sp.simplify(expr - value)
    if d == 0:
        return True
    try:
        d2 = sp.simplify(sp.powdenest(sp.factor_terms(sp.together(d)), force=True))
        if d2 == 0:
            return True
    except Exception:
        pass
    syms = sorted(d.free_symbols, key=lambda x: x.name)
    if not syms:
        return abs(sp.N(d, prec)) < sp.Float(10) ** (-(prec - 20))
    rnd = random.Random(seed)
    good = 0
    for _ in range(n_points * 3):
        pt = {x: sp.Rational(rnd.randint(11, 997), rnd.randint(101, 499)) for x in syms}
        try:
            v = sp.N(d.subs(pt), prec)
            scale = sp.N(sp.Abs(expr.subs(pt)) + sp.Abs(sp.sympify(value).subs(pt) if hasattr(sp.sympify(value), "subs") else value) + 1, prec)
        except Exception:
            continue
        if v.has(sp.nan, sp.zoo, sp.oo) or not v.is_number:
            continue
        if abs(v) / scale > sp.Float(10) ** (-(prec - 25)):
            return False
        good += 1
        if good >= n_points:
            return True
    return False
