"""Thorough-tier self-test of a property's checker against committed variants of the repository.

For property P:
  * every confirmed seeded change under /verif/seeded/*/ whose meta.json names P (a realistic breakage written by an independent
    sub-agent, confirmed at run time when it was filed) is applied to a scratch copy of the *current* /repo tree; the quick rules
    must report a VIOLATION on it;
  * every checker-regression mutant under /verif/mutants/*/ that lists P (a one-construct breakage written together with the rule it
    exercises, kept so that the rule cannot silently go vacuous) is treated like a seed;
  * every benign twin under /verif/twins/*/ that lists P (a behaviour-preserving re-spelling) is applied likewise; the quick rules
    must stay silent on it.
Nothing from the repository is executed: the variants are only parsed and analysed, exactly like the real tree.  A patch that no
longer applies to the current tree (the code it touched has changed) is skipped and reported as such.  A missed seed or a flagged
twin is a defect of the checker, not of the repository: it is reported as ANALYSIS-ERROR (exit 2), never as a VIOLATION.
Scratch copies live under a fresh mkdtemp outside /repo and /verif and are removed immediately.
"""
from __future__ import annotations

import json
import os
import shutil
import subprocess
import sys
import tempfile
from concurrent.futures import ThreadPoolExecutor

HERE = os.path.dirname(os.path.dirname(os.path.abspath(__file__)))


def _variants(prop):
    out = []
    sd = os.path.join(HERE, "seeded")
    for name in sorted(os.listdir(sd)) if os.path.isdir(sd) else []:
        mp = os.path.join(sd, name, "meta.json")
        if not os.path.isfile(mp):
            continue
        meta = json.load(open(mp))
        props = {meta.get("property")} | set(meta.get("also_detected_by", []))
        if prop not in props:
            continue
        patch = os.path.join(sd, name, "patch.rebased.diff")
        if not os.path.isfile(patch):
            patch = os.path.join(sd, name, "patch.diff")
        out.append(("seed-unclaimed" if meta.get("declared_out_of_reach") else "seed", name, patch))
    td = os.path.join(HERE, "twins")
    for name in sorted(os.listdir(td)) if os.path.isdir(td) else []:
        mp = os.path.join(td, name, "meta.json")
        if not os.path.isfile(mp):
            continue
        meta = json.load(open(mp))
        if prop in meta.get("properties", []):
            out.append(("twin", name, os.path.join(td, name, "patch.diff")))
    md = os.path.join(HERE, "mutants")
    for name in sorted(os.listdir(md)) if os.path.isdir(md) else []:
        mp = os.path.join(md, name, "meta.json")
        if not os.path.isfile(mp):
            continue
        meta = json.load(open(mp))
        if prop in meta.get("properties", []):
            out.append(("seed", "mutant:" + name, os.path.join(md, name, "patch.diff")))
    # generated twins: whole-tree behaviour-preserving rewrites
    out.append(("twin", "generated:ruff-format", "@ruff"))
    out.append(("twin", "generated:ast-roundtrip", "@roundtrip"))
    return out


def _rewrite(d, how):
    if how == "@ruff":
        exe = os.path.join(os.path.dirname(sys.executable), "ruff")
        if not os.path.isfile(exe):
            return False
        r = subprocess.run([exe, "format", "-q", "--line-length", "100", "seqm", "scripts"], cwd=d, capture_output=True, text=True)
        return r.returncode == 0
    if how == "@roundtrip":
        import ast
        import warnings
        for dp, dn, fn in os.walk(d):
            for f in fn:
                if f.endswith(".py"):
                    p = os.path.join(dp, f)
                    try:
                        with warnings.catch_warnings():
                            warnings.simplefilter("ignore")
                            src = ast.unparse(ast.parse(open(p).read()))
                    except SyntaxError:
                        continue
                    open(p, "w").write(src + "\n")
        return True
    return False


def _run_variant(prop, repo_root, kind, name, patch):
    d = tempfile.mkdtemp(prefix="pyseqm_selftest_")
    try:
        for sub in ("seqm", "scripts"):
            src = os.path.join(repo_root, sub)
            if os.path.isdir(src):
                shutil.copytree(src, os.path.join(d, sub), ignore=shutil.ignore_patterns("__pycache__", "*.pyc"))
        if patch.startswith("@"):
            if not _rewrite(d, patch):
                return kind, name, "skipped", "rewriter not available"
        else:
            r = subprocess.run(["patch", "-p1", "-s", "-f", "--no-backup-if-mismatch", "-d", d, "-i", patch], capture_output=True, text=True)
            if r.returncode:
                return kind, name, "skipped", "patch does not apply to the current tree"
        env = dict(os.environ, PYTHONDONTWRITEBYTECODE="1", VERIF_EVIDENCE_DIR=os.path.join(d, "_evidence"), VERIF_TIER="quick")
        p = subprocess.run([sys.executable, "-m", "sa.cli", prop, "--tier", "quick", "--repo", d], cwd=HERE, env=env, capture_output=True, text=True)
        viol = [l for l in p.stdout.splitlines() if l.startswith("  " + prop)]
        seedlike = kind.startswith("seed")
        if p.returncode == 2:
            # an analysis error on a variant also means "not silently accepted"
            return kind, name, ("detected" if seedlike else "flagged"), "ANALYSIS-ERROR: " + (p.stdout.strip().splitlines() or [""])[-1][:200]
        if p.returncode == 1:
            return kind, name, ("detected" if seedlike else "flagged"), (viol[0].strip()[:240] if viol else "")
        if kind == "seed-unclaimed":
            return kind, name, "not detected (declared out of reach in its meta.json; the property's level_note says so)", ""
        return kind, name, ("missed" if kind == "seed" else "silent"), ""
    finally:
        shutil.rmtree(d, ignore_errors=True)


def run(prop, repo_root):
    """returns (ok, lines, summary dict)"""
    vs = _variants(prop)
    res = []
    with ThreadPoolExecutor(max_workers=min(8, max(1, len(vs)))) as ex:
        futs = [ex.submit(_run_variant, prop, repo_root, *v) for v in vs]
        for f in futs:
            res.append(f.result())
    lines = []
    ok = True
    for kind, name, verdict, detail in res:
        lines.append(f"   selftest {kind} {name}: {verdict}" + (f" -- {detail}" if detail else ""))
        if (kind == "seed" and verdict == "missed") or (kind == "twin" and verdict == "flagged"):
            ok = False
    summary = {
        "seeds": sum(1 for r in res if r[0] == "seed"),
        "seeds_declared_out_of_reach": sum(1 for r in res if r[0] == "seed-unclaimed"),
        "seeds_detected": sum(1 for r in res if r[0] == "seed" and r[2] == "detected"),
        "twins": sum(1 for r in res if r[0] == "twin"),
        "twins_silent": sum(1 for r in res if r[0] == "twin" and r[2] == "silent"),
        "skipped": sum(1 for r in res if r[2] == "skipped"),
        "results": [{"kind": k, "name": n, "verdict": v, "detail": d} for k, n, v, d in res],
    }
    return ok, lines, summary
