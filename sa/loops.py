"""Bounded-loop analysis for `while` loops.

A `while` loop is accepted as bounded iff there is an integer counter variable v such that
  (1) every cycle through the loop head passes a statement that increments (or decrements) v by a positive literal, and
  (2) v is compared with a loop-invariant bound either
        (a) in the loop test as a conjunct (positive polarity: the comparison must hold to continue), or
        (b) in an `if` inside the body whose taken branch leaves the loop (break/return/raise) and which every
            cycle through the head passes.
`for` loops over range()/literals/non-growing collections are bounded by construction and only inventoried.
"""
from __future__ import annotations

import ast
from typing import List, Optional, Tuple

from .cfg import CFG, build_cfg
from .guards import atoms
from .loader import Module, names_in, norm


def _step(stmt) -> Optional[Tuple[str, int]]:
    """(variable, direction) if stmt is `v += c`, `v -= c`, `v = v + c`, `v = v - c`, `v = c + v` with literal c > 0."""
    def pos(n):
        return isinstance(n, ast.Constant) and isinstance(n.value, (int, float)) and not isinstance(n.value, bool) and n.value > 0
    if isinstance(stmt, ast.AugAssign) and isinstance(stmt.target, ast.Name) and pos(stmt.value):
        if isinstance(stmt.op, ast.Add):
            return stmt.target.id, +1
        if isinstance(stmt.op, ast.Sub):
            return stmt.target.id, -1
    if isinstance(stmt, ast.Assign) and len(stmt.targets) == 1 and isinstance(stmt.targets[0], ast.Name) and isinstance(stmt.value, ast.BinOp):
        v = stmt.targets[0].id
        b = stmt.value
        if isinstance(b.op, ast.Add) and ((isinstance(b.left, ast.Name) and b.left.id == v and pos(b.right)) or
                                          (isinstance(b.right, ast.Name) and b.right.id == v and pos(b.left))):
            return v, +1
        if isinstance(b.op, ast.Sub) and isinstance(b.left, ast.Name) and b.left.id == v and pos(b.right):
            return v, -1
    return None


def _bound_atom(a: ast.AST, var: str, direction: int, polarity: bool, assigned_in_body: set) -> bool:
    """Does atom `a` (holding with `polarity`) bound `var` from above (direction +1) or below (-1) by an invariant?"""
    if not (isinstance(a, ast.Compare) and len(a.ops) == 1):
        return False
    l, r, op = a.left, a.comparators[0], a.ops[0]

    def is_var(n):
        return isinstance(n, ast.Name) and n.id == var

    def invariant(n):
        return not (names_in(n) & assigned_in_body) and var not in names_in(n)
    # normalise to "var OP bound"
    if is_var(l) and invariant(r):
        o = type(op)
    elif is_var(r) and invariant(l):
        o = {ast.Lt: ast.Gt, ast.Gt: ast.Lt, ast.LtE: ast.GtE, ast.GtE: ast.LtE, ast.Eq: ast.Eq, ast.NotEq: ast.NotEq}.get(type(op))
    else:
        # allow simple affine forms of the counter: v - c, v + c on either side are not needed by the repository
        return False
    if not polarity:
        o = {ast.Lt: ast.GtE, ast.GtE: ast.Lt, ast.Gt: ast.LtE, ast.LtE: ast.Gt, ast.Eq: ast.NotEq, ast.NotEq: ast.Eq}.get(o)
    if direction > 0:
        return o in (ast.Lt, ast.LtE, ast.NotEq)
    return o in (ast.Gt, ast.GtE, ast.NotEq)


def while_bounded(mod: Module, func: ast.AST, loop: ast.While, cfg: Optional[CFG] = None) -> Tuple[bool, str]:
    g = cfg or build_cfg(func)
    heads = [n for n in g.nodes_of(loop) if g.nodes[n].kind == "while"]
    if not heads:
        return False, "loop head not in CFG (unreachable code)"
    H = heads[0]
    body = g.loop_body(H)
    io = _io_loop(loop)
    if io:
        return True, io
    assigned = set()
    for i in body:
        st = g.nodes[i].stmt
        if g.nodes[i].kind == "stmt" and isinstance(st, (ast.Assign, ast.AugAssign, ast.AnnAssign)):
            tg = st.targets if isinstance(st, ast.Assign) else [st.target]
            for t in tg:
                for x in ast.walk(t):
                    if isinstance(x, ast.Name) and isinstance(x.ctx, ast.Store):
                        assigned.add(x.id)
        if g.nodes[i].kind == "for":
            for x in ast.walk(g.nodes[i].stmt.target):
                if isinstance(x, ast.Name):
                    assigned.add(x.id)
    # candidate counters
    steps = {}
    for i in body:
        if g.nodes[i].kind == "stmt":
            s = _step(g.nodes[i].stmt)
            if s:
                steps.setdefault(s, set()).add(i)
    if isinstance(loop.test, ast.Constant) and not loop.test.value:
        return True, "while False"
    first = [b for b, lab in g.succ[H] if lab == "true"]
    outside = {n.id for n in g.nodes} - set(body) - {H}   # cycles are sought inside the loop body only
    reasons = []
    for (var, direction), inc_nodes in steps.items():
        # other writes to var in the body (resets) disqualify
        other = [i for i in body if g.nodes[i].kind == "stmt" and isinstance(g.nodes[i].stmt, (ast.Assign, ast.AugAssign))
                 and i not in inc_nodes and var in {x.id for t in (g.nodes[i].stmt.targets if isinstance(g.nodes[i].stmt, ast.Assign) else [g.nodes[i].stmt.target])
                                                    for x in ast.walk(t) if isinstance(x, ast.Name) and isinstance(x.ctx, ast.Store)}]
        if other:
            reasons.append(f"{var}: also reassigned in the body")
            continue
        # (1) every cycle passes an increment
        if H in g.reachable(first, avoid=set(inc_nodes) | outside, include_src=True, labels_avoid={"exc"}):
            reasons.append(f"{var}: some path through the body does not step the counter")
            continue
        inv_assigned = assigned - {var}
        # (2a) conjunct of the loop test
        if any(_bound_atom(a, var, direction, p, inv_assigned) for a, p in atoms(loop.test, True)):
            return True, f"counter {var} bounded in the loop test"
        # (2b) exit test in the body passed by every cycle
        for i in body:
            n = g.nodes[i]
            if n.kind != "if":
                continue
            for pol, lab in ((True, "true"), (False, "false")):
                # branch `lab` is the exit; staying in the loop means the test evaluated to (not pol), which must bound the counter
                if not any(_bound_atom(a, var, direction, p, inv_assigned) for a, p in atoms(n.expr, not pol)):
                    continue
                succ = [b for b, l2 in g.succ[i] if l2 == lab]
                leaves = H not in g.reachable(succ, avoid=outside, include_src=True, labels_avoid={"exc"})
                every_cycle = H not in g.reachable(first, avoid={i} | outside, include_src=True, labels_avoid={"exc"})
                if leaves and every_cycle:
                    return True, f"counter {var} tested against an invariant bound on every iteration with an exit"
        reasons.append(f"{var}: stepped on every path but never compared with a loop-invariant bound that ends the loop")
    if not steps:
        reasons.append("no counter stepped by a positive literal")
    return False, "; ".join(reasons)


def _io_loop(loop: ast.While) -> Optional[str]:
    """`while True:` reading a file line by line with an end-of-file exit: bounded by the file length."""
    reads = {}
    for st in ast.walk(loop):
        if isinstance(st, ast.Assign) and isinstance(st.value, ast.Call) and isinstance(st.value.func, ast.Attribute) \
                and st.value.func.attr in ("readline", "read", "readlines") and len(st.targets) == 1 and isinstance(st.targets[0], ast.Name):
            reads[st.targets[0].id] = st
    if not reads:
        return None
    # `while line:` with `line = f.readline()` as the last assignment of the body: the test itself is the end-of-file exit
    t = loop.test
    if isinstance(t, ast.Name) and t.id in reads and any(st is reads[t.id] for st in loop.body):
        return f"I/O loop: ends at end of file (`while {t.id}` with `{norm(reads[t.id])}` in the body)"
    for st in loop.body:
        if isinstance(st, ast.If) and isinstance(st.test, ast.UnaryOp) and isinstance(st.test.op, ast.Not):
            nm = names_in(st.test.operand)
            if nm & set(reads) and st.body and isinstance(st.body[-1], (ast.Break, ast.Return, ast.Raise)):
                return f"I/O loop: ends at end of file (`{norm(st.test)}`)"
    return None


def for_suspicious(loop: ast.For) -> Optional[str]:
    """A `for` whose iterable is a name that the body grows."""
    it = loop.iter
    if isinstance(it, ast.Name):
        for c in ast.walk(loop):
            if isinstance(c, ast.Call) and isinstance(c.func, ast.Attribute) and c.func.attr in ("append", "extend", "insert") \
                    and isinstance(c.func.value, ast.Name) and c.func.value.id == it.id:
                return f"iterates `{it.id}` while appending to it"
    if isinstance(it, ast.Call) and norm(it.func) in ("itertools.count", "count", "itertools.cycle", "cycle", "iter") and len(it.args) != 1:
        return f"iterates unbounded `{norm(it)}`"
    return None
