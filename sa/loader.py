"""Source loader: parses repository modules, indexes classes/functions, resolves names.

Anchor lookup fails closed: a missing file/class/function raises AnchorMissing, which the
CLI turns into exit 2 (ANALYSIS-ERROR) -- never a silent pass.
"""
from __future__ import annotations

import ast
import hashlib
import os
from typing import Dict, Iterator, List, Optional, Tuple

REPO_ROOT = os.environ.get("VERIF_REPO", "/repo")


class AnalysisError(Exception):
    """The analysis itself cannot proceed (exit 2)."""


class AnchorMissing(AnalysisError):
    pass


def norm(node) -> str:
    """Normalised source text of a node (formatting/comment independent)."""
    if node is None:
        return ""
    if isinstance(node, str):
        return node
    if isinstance(node, list):
        return "; ".join(norm(n) for n in node)
    try:
        return ast.unparse(node)
    except Exception:  # pragma: no cover
        return ast.dump(node)


def short(node, n=140) -> str:
    s = norm(node).replace("\n", " ")
    return s if len(s) <= n else s[: n - 3] + "..."


class Module:
    def __init__(self, repo: "Repo", rel: str):
        self.repo = repo
        self.rel = rel
        path = os.path.join(repo.root, rel)
        if not os.path.isfile(path):
            raise AnchorMissing(f"file not found: {rel}")
        with open(path, "rb") as fh:
            raw = fh.read()
        self.digest = hashlib.sha256(raw).hexdigest()
        try:
            self.source = raw.decode("utf-8")
            import warnings
            with warnings.catch_warnings():
                warnings.simplefilter("ignore")
                self.tree = ast.parse(self.source, filename=rel)
        except SyntaxError as e:
            raise AnalysisError(f"cannot parse {rel}: {e}")
        # canonical form on every normal form of the tree: gradient-context decorators are lowered to `with` blocks (sa/normalize.py)
        try:
            from .normalize import lower_grad_decorators
            lower_grad_decorators(self.tree)
        except Exception:
            pass
        # inventory-anchored normalisation (sa/normalize.py): a no-op on the reference tree
        self.normalized = False
        norm_level = int(os.environ.get("VERIF_NORM_LEVEL", "2") or 2)
        if os.environ.get("VERIF_NO_NORMALIZE") != "1" and norm_level > 0:
            try:
                from .normalize import normalize_tree
                self.normalized = normalize_tree(self.tree, rel, temporaries=norm_level >= 2, root=repo.root)
            except Exception:
                # a defect of the normaliser must never change a verdict: fall back to the tree as written
                import warnings
                with warnings.catch_warnings():
                    warnings.simplefilter("ignore")
                    self.tree = ast.parse(self.source, filename=rel)
                try:
                    lower_grad_decorators(self.tree)
                except Exception:
                    pass
                self.normalized = False
        self.parents: Dict[ast.AST, ast.AST] = {}
        for p in ast.walk(self.tree):
            for c in ast.iter_child_nodes(p):
                self.parents[c] = p
        # indexes
        self.functions: Dict[str, ast.FunctionDef] = {}
        self.classes: Dict[str, ast.ClassDef] = {}
        self.imports: Dict[str, Tuple[str, Optional[str]]] = {}  # local name -> (module, attr)
        self.globals: Dict[str, ast.AST] = {}  # module-level simple assignments
        self._index()

    # ------------------------------------------------------------------
    def _index(self):
        def visit(body, prefix, in_class):
            for st in body:
                if isinstance(st, (ast.FunctionDef, ast.AsyncFunctionDef)):
                    q = prefix + st.name
                    self.functions[q] = st
                    # nested functions
                    visit(st.body, q + ".<locals>.", False)
                elif isinstance(st, ast.ClassDef):
                    q = prefix + st.name
                    self.classes[q] = st
                    visit(st.body, q + ".", True)
                elif isinstance(st, (ast.If, ast.Try, ast.With, ast.For, ast.While)) and not in_class:
                    for fld in ("body", "orelse", "finalbody"):
                        visit(getattr(st, fld, []) or [], prefix, in_class)
                    for h in getattr(st, "handlers", []) or []:
                        visit(h.body, prefix, in_class)

        visit(self.tree.body, "", False)
        for st in ast.walk(self.tree):
            if isinstance(st, ast.Import):
                for a in st.names:
                    self.imports[a.asname or a.name.split(".")[0]] = (a.name, None)
            elif isinstance(st, ast.ImportFrom):
                mod = st.module or ""
                if st.level:
                    base = self.rel[:-3].split("/")
                    base = base[: len(base) - st.level]
                    mod = ".".join(base + ([mod] if mod else []))
                for a in st.names:
                    self.imports[a.asname or a.name] = (mod, a.name)
        for st in self.tree.body:
            if isinstance(st, ast.Assign) and len(st.targets) == 1 and isinstance(st.targets[0], ast.Name):
                self.globals[st.targets[0].id] = st.value
            elif isinstance(st, ast.AnnAssign) and isinstance(st.target, ast.Name) and st.value is not None:
                self.globals[st.target.id] = st.value

    # ------------------------------------------------------------------
    def func(self, qual: str) -> ast.FunctionDef:
        if qual not in self.functions:
            raise AnchorMissing(f"function not found: {self.rel}::{qual}")
        return self.functions[qual]

    def has_func(self, qual: str) -> bool:
        return qual in self.functions

    def cls(self, name: str) -> ast.ClassDef:
        if name not in self.classes:
            raise AnchorMissing(f"class not found: {self.rel}::{name}")
        return self.classes[name]

    def qualname_of(self, node: ast.AST) -> str:
        """Qualified name of the innermost function/class enclosing node."""
        parts = []
        cur = node
        while cur is not None:
            if isinstance(cur, (ast.FunctionDef, ast.AsyncFunctionDef, ast.ClassDef)):
                parts.append(cur.name)
            cur = self.parents.get(cur)
        return ".".join(reversed(parts)) or "<module>"

    def enclosing_function(self, node: ast.AST) -> Optional[ast.FunctionDef]:
        cur = self.parents.get(node)
        while cur is not None:
            if isinstance(cur, (ast.FunctionDef, ast.AsyncFunctionDef)):
                return cur
            cur = self.parents.get(cur)
        return None

    def enclosing_stmt(self, node: ast.AST) -> ast.stmt:
        cur = node
        while cur is not None and not isinstance(cur, ast.stmt):
            cur = self.parents.get(cur)
        return cur

    def loc(self, node: ast.AST) -> str:
        return f"{self.rel}:{getattr(node, 'lineno', 0)}"


class Repo:
    def __init__(self, root: str = REPO_ROOT):
        self.root = root
        self._mods: Dict[str, Module] = {}
        if not os.path.isdir(root):
            raise AnalysisError(f"repository root not found: {root}")

    def mod(self, rel: str) -> Module:
        if rel not in self._mods:
            self._mods[rel] = Module(self, rel)
        return self._mods[rel]

    def has(self, rel: str) -> bool:
        return os.path.isfile(os.path.join(self.root, rel))

    def py_files(self, *subdirs: str) -> List[str]:
        out = []
        for sd in subdirs:
            base = os.path.join(self.root, sd)
            if os.path.isfile(base) and base.endswith(".py"):
                out.append(sd)
                continue
            for dp, dn, fn in os.walk(base):
                dn[:] = sorted(d for d in dn if d != "__pycache__")
                for f in sorted(fn):
                    if f.endswith(".py"):
                        out.append(os.path.relpath(os.path.join(dp, f), self.root))
        return sorted(out)

    def modules(self, *subdirs: str) -> Iterator[Module]:
        for rel in self.py_files(*subdirs):
            yield self.mod(rel)

    def consulted_digest(self) -> str:
        h = hashlib.sha256()
        for rel in sorted(self._mods):
            h.update(rel.encode())
            h.update(self._mods[rel].digest.encode())
        return h.hexdigest()[:16]

    # ------------------------------------------------------------------
    def module_for_dotted(self, dotted: str) -> Optional[str]:
        rel = dotted.replace(".", "/") + ".py"
        if self.has(rel):
            return rel
        rel2 = dotted.replace(".", "/") + "/__init__.py"
        if self.has(rel2):
            return rel2
        return None

    def resolve_name(self, mod: Module, name: str, _depth=0) -> Optional[Tuple[Module, str, ast.AST]]:
        """Resolve a bare name used in `mod` to (module, qualname, node) of a function/class."""
        if name in mod.functions:
            return mod, name, mod.functions[name]
        if name in mod.classes:
            return mod, name, mod.classes[name]
        if name in mod.imports and _depth < 4:
            dotted, attr = mod.imports[name]
            if attr is None:
                return None
            rel = self.module_for_dotted(dotted)
            if rel is None:
                # `from pkg import submodule`
                rel = self.module_for_dotted(dotted + "." + attr)
                return None
            try:
                m2 = self.mod(rel)
            except AnalysisError:
                return None
            return self.resolve_name(m2, attr, _depth + 1)
        return None

    # class hierarchy -------------------------------------------------
    def bases(self, mod: Module, cls: ast.ClassDef) -> List[Tuple[Module, ast.ClassDef]]:
        out = []
        for b in cls.bases:
            if isinstance(b, ast.Name):
                r = self.resolve_name(mod, b.id)
                if r and isinstance(r[2], ast.ClassDef):
                    out.append((r[0], r[2]))
        return out

    def mro(self, mod: Module, cls: ast.ClassDef) -> List[Tuple[Module, ast.ClassDef]]:
        out, todo = [], [(mod, cls)]
        while todo:
            m, c = todo.pop(0)
            if any(c is x[1] for x in out):
                continue
            out.append((m, c))
            todo.extend(self.bases(m, c))
        return out

    def find_method(self, mod: Module, cls: ast.ClassDef, name: str):
        for m, c in self.mro(mod, cls):
            for st in c.body:
                if isinstance(st, ast.FunctionDef) and st.name == name:
                    return m, c, st
        return None

    def subclasses(self, mod: Module, cls: ast.ClassDef, search: List[str]) -> List[Tuple[Module, ast.ClassDef]]:
        out = []
        for m in self.modules(*search):
            for c in m.classes.values():
                if c is cls:
                    continue
                if any(x[1] is cls for x in self.mro(m, c)):
                    out.append((m, c))
        return out


# ----------------------------------------------------------------------
# small AST helpers shared by the rules

def attr_chain(node) -> Optional[List[str]]:
    """a.b.c -> ['a','b','c']; returns None if the root is not a Name."""
    parts = []
    while isinstance(node, ast.Attribute):
        parts.append(node.attr)
        node = node.value
    if isinstance(node, ast.Name):
        parts.append(node.id)
        return list(reversed(parts))
    return None


def dotted(node) -> Optional[str]:
    c = attr_chain(node)
    return ".".join(c) if c else None


def call_name(call) -> Optional[str]:
    """Dotted name of the callee if it is a name/attribute chain."""
    if not isinstance(call, ast.Call):
        return None
    return dotted(call.func)


def callee_attr(call) -> Optional[str]:
    if not isinstance(call, ast.Call):
        return None
    if isinstance(call.func, ast.Attribute):
        return call.func.attr
    if isinstance(call.func, ast.Name):
        return call.func.id
    return None


def names_in(node) -> set:
    return {n.id for n in ast.walk(node) if isinstance(n, ast.Name)}


def calls_in(node) -> List[ast.Call]:
    return [n for n in ast.walk(node) if isinstance(n, ast.Call)]


def walk_no_nested(node) -> Iterator[ast.AST]:
    """Walk a function body without descending into nested function/class definitions."""
    todo = list(ast.iter_child_nodes(node))
    while todo:
        n = todo.pop()
        yield n
        if isinstance(n, (ast.FunctionDef, ast.AsyncFunctionDef, ast.ClassDef, ast.Lambda)):
            continue
        todo.extend(ast.iter_child_nodes(n))


def const_value(node):
    """Literal numeric/string value, handling unary minus; raises ValueError otherwise."""
    if isinstance(node, ast.Constant):
        return node.value
    if isinstance(node, ast.UnaryOp) and isinstance(node.op, (ast.USub, ast.UAdd)):
        v = const_value(node.operand)
        return -v if isinstance(node.op, ast.USub) else v
    raise ValueError(f"not a literal: {norm(node)}")


def is_docstring(st) -> bool:
    return isinstance(st, ast.Expr) and isinstance(st.value, ast.Constant) and isinstance(st.value.value, str)
