"""Axis-semantics tracker for reshape / transpose chains.

Every tensor axis is a tuple of atomic factors; a factor is (kind, identity), e.g. ("atom", "r") for the row atom index.
`transpose` permutes axes; `reshape`/`view` flattens the factors in memory order and regroups them: the kinds named by the target
sizes must be met by the next source factors *in order* (a product of sizes consumes the next factors as a multiset), otherwise
the reshape silently reinterprets one index as another (e.g. the spin axis as the molecule axis in a batch).
Nothing is executed; shapes are symbolic.
"""
from __future__ import annotations

import ast
from typing import Dict, List, Tuple

from .loader import norm

Factor = Tuple[str, str]
Axis = Tuple[Factor, ...]


class AxisError(Exception):
    pass


def size_factors(e, size_kinds) -> List[str]:
    """kinds named by a size expression: product of size names / literals"""
    if isinstance(e, ast.BinOp) and isinstance(e.op, ast.Mult):
        return size_factors(e.left, size_kinds) + size_factors(e.right, size_kinds)
    if isinstance(e, ast.BinOp) and isinstance(e.op, ast.Pow) and isinstance(e.right, ast.Constant) and isinstance(e.right.value, int):
        return size_factors(e.left, size_kinds) * e.right.value
    t = norm(e)
    if t in size_kinds:
        k = size_kinds[t]
        return list(k) if isinstance(k, (list, tuple)) else [k]
    if t == "-1":
        return ["*"]
    raise AxisError(f"size `{t}` has no known meaning")


def trace(expr, layouts: Dict[str, List[Axis]], size_kinds, local_sizes=None) -> List[Axis]:
    sk = dict(size_kinds)
    sk.update(local_sizes or {})

    def go(e) -> List[Axis]:
        if isinstance(e, ast.Name):
            if e.id in layouts:
                return list(layouts[e.id])
            raise AxisError(f"layout of `{e.id}` unknown")
        if isinstance(e, ast.BinOp) and isinstance(e.op, (ast.Add, ast.Sub)):
            a, b = go(e.left), go(e.right)
            if [tuple(f[0] for f in ax) for ax in a] != [tuple(f[0] for f in ax) for ax in b]:
                raise AxisError(f"operands of `{norm(e)[:60]}` have different layouts")
            return a
        if isinstance(e, ast.Subscript):
            base = go(e.value)
            sl = e.slice.elts if isinstance(e.slice, ast.Tuple) else [e.slice]
            out = []
            for i, ax in enumerate(base):
                if i < len(sl):
                    s = sl[i]
                    if isinstance(s, ast.Slice) and s.lower is None and s.upper is None:
                        out.append(ax)
                    elif isinstance(s, ast.Constant) and isinstance(s.value, int):
                        continue          # integer index drops the axis
                    else:
                        raise AxisError(f"subscript `{norm(e)[:60]}` not understood")
                else:
                    out.append(ax)
            return out
        if isinstance(e, ast.Call) and isinstance(e.func, ast.Attribute):
            at = e.func.attr
            base = go(e.func.value)
            if at in ("clone", "contiguous", "detach", "to", "type", "double", "float"):
                return base
            if at == "transpose":
                i, j = (ast.literal_eval(a) for a in e.args)
                base = list(base)
                base[i], base[j] = base[j], base[i]
                return base
            if at == "expand":
                # M.expand(2, -1, -1, -1): a new leading broadcast axis per extra size
                sizes = list(e.args)
                extra = len(sizes) - len(base)
                out = []
                for s in sizes[:extra]:
                    out.append(tuple((k, "new") for k in size_factors(s, sk)))
                return out + base
            if at in ("reshape", "view"):
                sizes = list(e.args[0].elts) if len(e.args) == 1 and isinstance(e.args[0], (ast.Tuple, ast.List)) else list(e.args)
                flat: List[Factor] = [f for ax in base for f in ax]
                pos = 0
                out = []
                fk = [size_factors(s, sk) for s in sizes]
                for si, s in enumerate(sizes):
                    kinds = fk[si]
                    if kinds == ["*"]:
                        after = sum(len(k) for k in fk[si + 1:])
                        take = flat[pos:len(flat) - after]
                        out.append(tuple(take))
                        pos += len(take)
                        continue
                    take = flat[pos:pos + len(kinds)]
                    if sorted(f[0] for f in take) != sorted(kinds):
                        raise AxisError(f"`.{at}({', '.join(norm(x) for x in sizes)})` reads the size `{norm(s)}` ({'*'.join(kinds)}) where the data has "
                                        f"{'*'.join(f[0] for f in take) or 'nothing'} at that position (memory order of the source is "
                                        f"{' x '.join(f[0] for f in flat)})")
                    out.append(tuple(take))
                    pos += len(kinds)
                if pos != len(flat):
                    raise AxisError(f"`.{at}(...)` does not consume all source factors")
                return out
        raise AxisError(f"`{norm(e)[:60]}` not understood")
    return go(expr)


def kinds(layout: List[Axis]):
    return [tuple(f"{k}_{i}" if i in ("r", "c") else k for k, i in ax) for ax in layout]
