"""Interpreted output pipeline of the MD drivers (C11 / C10): the run loop of an engine, its output setup and the HDF5 writer are interpreted (sa.npsym) against a model of an
HDF5 file, for small concrete cadence tables, and the rows that end up in the files are compared with the cadence specification ("stream s has exactly the steps that are
multiples of its own cadence, each labelled with its step and holding that step's values").  Nothing of the repository is imported or run; the integrator step, the energy
bookkeeping and the checkpoint writer are replaced by stand-ins that stamp every per-step quantity with the step number, so the *positions* of rows can be decided exactly.

The model of h5py implements what the writer uses: groups addressed by '/'-paths, create_group / create_dataset(shape= | data=), item reads and writes with bounds, `in`,
.shape, .attrs, flush / close, resize.  A write outside a dataset's shape raises like h5py does.  Unwritten rows hold the marker UNSET.
"""
from __future__ import annotations

import copy
import types

import numpy as np
import sympy as sp

from .loader import AnalysisError
from .npsym import ClassRef, Instance, Model, NpSym, Raised, TorchMarker

UNSET = sp.Symbol("UNSET")


class Crash(Raised):
    """the process dies here (no finally clause runs)"""


class FakeDataset(Model):
    def __init__(self, shape=None, data=None, name=""):
        self.name = name
        if data is not None:
            a = np.array(data, dtype=object) if not isinstance(data, np.ndarray) else data.astype(object)
            self.data = a.copy()
        else:
            self.data = np.full(tuple(int(x) for x in shape), UNSET, dtype=object)
        self.attrs = {}

    @property
    def shape(self):
        return tuple(int(x) for x in self.data.shape)

    def __len__(self):
        return self.data.shape[0]

    def np_getitem(self, fr, key):
        if key is Ellipsis or key == ():
            return self.data.copy()
        return self.data[key]

    def np_setitem(self, fr, key, value):
        if isinstance(value, np.ndarray):
            value = value.astype(object)
        try:
            tgt = self.data[key]
        except IndexError:
            raise Raised(f"IndexError: write at {key!r} outside dataset {self.name} of shape {self.shape}")
        if isinstance(value, np.ndarray) and isinstance(tgt, np.ndarray) and np.broadcast_shapes(value.shape, tgt.shape) != tgt.shape:
            raise Raised(f"TypeError: cannot broadcast {value.shape} into {tgt.shape} of dataset {self.name}")
        self.data[key] = value

    def resize(self, fr, *a, **k):
        size = a[0] if a else k.get("size")
        axis = k.get("axis", a[1] if len(a) > 1 else None)
        if axis is None:
            new = tuple(int(x) for x in size)
        else:
            new = list(self.data.shape)
            new[int(axis)] = int(size)
            new = tuple(new)
        out = np.full(new, UNSET, dtype=object)
        sl = tuple(slice(0, min(o, n)) for o, n in zip(self.data.shape, new))
        out[sl] = self.data[sl]
        self.data = out

    def content(self):
        return self.data.tolist()


class FakeGroup(Model):
    def __init__(self, name=""):
        self.name = name
        self.children = {}
        self.attrs = {}

    # path handling -----------------------------------------------------------------------------------------------------------------------
    def _walk(self, path, create=False):
        node = self
        parts = [p for p in str(path).split("/") if p]
        for p in parts:
            if not isinstance(node, FakeGroup):
                return None
            if p not in node.children:
                if not create:
                    return None
                node.children[p] = FakeGroup(node.name + "/" + p)
            node = node.children[p]
        return node

    def __contains__(self, key):
        return self._walk(key) is not None

    def np_getitem(self, fr, key):
        if not isinstance(key, str):
            raise AnalysisError(f"h5 model: group {self.name or '/'} indexed with {key!r}")
        n = self._walk(key)
        if n is None:
            raise Raised(f"KeyError: {key} not in {self.name or '/'}")
        return n

    def np_setitem(self, fr, key, value):
        self.create_dataset(fr, key, data=value)

    def create_group(self, fr, name):
        if self._walk(name) is not None:
            raise Raised(f"ValueError: group {name} exists")
        return self._walk(name, create=True)

    def require_group(self, fr, name):
        return self._walk(name, create=True)

    def create_dataset(self, fr, path, shape=None, dtype=None, data=None, **kw):
        parts = [p for p in str(path).split("/") if p]
        parent = self._walk("/".join(parts[:-1]), create=True) if len(parts) > 1 else self
        if parts[-1] in parent.children:
            raise Raised(f"ValueError: dataset {path} exists")
        if data is None and shape is None:
            raise AnalysisError("h5 model: create_dataset without shape or data")
        if data is not None and not isinstance(data, np.ndarray):
            data = np.array(data, dtype=object)
        if isinstance(shape, (int, np.integer, sp.Integer)):
            shape = (int(shape),)
        ds = FakeDataset(shape=shape, data=data, name=parent.name + "/" + parts[-1])
        parent.children[parts[-1]] = ds
        return ds

    def keys(self, fr=None):
        return list(self.children.keys())

    def get(self, fr, key, default=None):
        n = self._walk(key)
        return default if n is None else n

    def flush(self, fr=None):
        self.root_file().flushes += 1
        return None

    def close(self, fr=None):
        self.root_file().open = False
        return None

    def root_file(self):
        return self

    def content(self):
        return {k: v.content() for k, v in sorted(self.children.items())}


class FakeFile(FakeGroup):
    def __init__(self, path):
        super().__init__("")
        self.path = path
        self.flushes = 0
        self.open = True

    def root_file(self):
        return self


class FileSystem:
    """path -> FakeFile; survives a crash"""
    def __init__(self):
        self.files = {}

    def opener(self, path, mode="r", **kw):
        path = str(path)
        if mode in ("w", "w-", "x"):
            f = FakeFile(path)
            self.files[path] = f
            return f
        if mode in ("r+", "a", "r"):
            if path not in self.files:
                if mode == "a":
                    self.files[path] = FakeFile(path)
                else:
                    raise Raised(f"OSError: {path} does not exist")
            self.files[path].open = True
            return self.files[path]
        raise AnalysisError(f"h5 model: open mode {mode!r}")

    def snapshot(self):
        return copy.deepcopy(self)

    def content(self):
        return {p: f.content() for p, f in sorted(self.files.items())}


# --------------------------------------------------------------------------------------------------------------------------------------------
# the stamped molecule and driver stand-ins
# --------------------------------------------------------------------------------------------------------------------------------------------
SPECIES = np.array([[8, 6, 1, 1], [7, 1, 1, 0], [1, 1, 0, 0]], dtype=np.int64)      # a padded batch of 4-, 3- and 2-atom molecules
KIND = {"coordinates": 1, "velocities": 2, "force": 3, "acc": 4}


def stamp(kind, step, nmol=3, molsize=4):
    """per-atom vectors whose every entry names (quantity, step, molecule, atom, component)"""
    a = np.empty((nmol, molsize, 3), dtype=object)
    for m in range(nmol):
        for i in range(molsize):
            for c in range(3):
                a[m, i, c] = sp.Integer(KIND[kind] * 10 ** 6 + step * 1000 + m * 100 + i * 10 + c)
    return a


def scalar_stamp(kind, step, nmol=3):
    return np.array([sp.Integer(kind * 10 ** 6 + step * 1000 + m * 100) for m in range(nmol)], dtype=object)


def make_molecule(step):
    nmol, molsize = SPECIES.shape
    mol = types.SimpleNamespace(
        species=SPECIES.copy(), nmol=nmol, molsize=molsize, num_atoms=(SPECIES > 0).sum(axis=1),
        coordinates=stamp("coordinates", step), velocities=stamp("velocities", step), force=stamp("force", step), acc=stamp("acc", step),
        mass_inverse=np.full((nmol, molsize, 1), sp.Integer(1), dtype=object), mass=np.full((nmol, molsize, 1), sp.Integer(1), dtype=object),
        norb=np.array([10, 6, 2], dtype=np.int64), nocc=np.array([4, 3, 1], dtype=np.int64), active_state=0, dm=None, cis_amplitudes=None,
        e_gap=scalar_stamp(7, step), dipole=np.array([[sp.Integer(8 * 10 ** 6 + step * 1000 + m * 100 + c) for c in range(3)] for m in range(nmol)], dtype=object),
        Etot=scalar_stamp(9, step), verbose=True, const=types.SimpleNamespace(do_timing=False, timing={"MD": []}), all_forces=None, old_mos=None)
    return mol


def set_step(mol, step):
    for k in ("coordinates", "velocities", "force", "acc"):
        getattr(mol, k)[...] = stamp(k, step)
    mol.e_gap = scalar_stamp(7, step)
    mol.dipole = np.array([[sp.Integer(8 * 10 ** 6 + step * 1000 + m * 100 + c) for c in range(3)] for m in range(mol.nmol)], dtype=object)
    mol.Etot = scalar_stamp(9, step)
    mol._step = step


class Pipeline:
    """one interpreted run of an engine's `run` with stand-ins for everything that is not output"""
    def __init__(self, repo, cls_name="Molecular_Dynamics_Basic", rel="seqm/MolecularDynamics.py"):
        self.repo, self.cls_name, self.rel = repo, cls_name, rel
        self.mod = repo.mod(rel)
        if cls_name not in self.mod.classes:
            raise AnalysisError(f"class {cls_name} not found in {rel}")

    def run(self, output, steps, step_offset=0, fs=None, crash_before_step=None, checkpoint_log=None, ctor_kwargs=None):
        """interpret <cls>(seqm_parameters, timestep, Temp=0, step_offset, output).run(molecule, steps); returns (fs, events).
        crash_before_step=j: the process dies at the start of loop iteration i == j (after step j has been completed and written)."""
        fs = fs if fs is not None else FileSystem()
        events = {"checkpoints": [], "calls": []}
        mol = make_molecule(step_offset)
        mol._step = step_offset
        stubs = {
            "h5py.File": lambda path, mode="r", **k: fs.opener(path, mode, **k),
            "_rotate_existing": lambda *a, **k: None,
            "datetime.now": lambda *a, **k: sp.Integer(0),
            "time.time": lambda *a, **k: sp.Integer(0),
            "_to_np": lambda x: (x.copy() if isinstance(x, np.ndarray) else x),
            "torch.cuda.empty_cache": lambda *a, **k: None, "torch.cuda.synchronize": lambda *a, **k: None, "torch.cuda.is_available": lambda *a, **k: False,
            "torch.manual_seed": lambda *a, **k: None, "torch.cuda.manual_seed_all": lambda *a, **k: None,
            "esdriver": lambda *a, **k: types.SimpleNamespace(conservative_force=types.SimpleNamespace(energy=types.SimpleNamespace(md=False, excited_states=None)),
                                                            device=TorchMarker("device")),
            "active_state_tensor": lambda a, n, dev=None: np.zeros((int(n),), dtype=np.int64) if not isinstance(a, np.ndarray) else a,
        }
        I = NpSym(self.repo, stubs=stubs, max_steps=5_000_000)
        I.construct_instances = True
        kw = dict(timestep=sp.Rational(1, 2), Temp=sp.Integer(0), step_offset=step_offset, output=copy.deepcopy(output))
        kw.update(ctor_kwargs or {})
        md = I.construct(ClassRef(self.mod, self.mod.classes[self.cls_name]), [{"method": "AM1"}], kw)

        def integrator_step(fr, i, molecule, *a, **k):
            i = int(i)
            if crash_before_step is not None and i == crash_before_step:
                raise Crash(f"killed before step {i}")
            set_step(molecule, i + 1)
            events["calls"].append(i)

        md._do_integrator_step = integrator_step
        md.set_dof = lambda fr, *a, **k: None
        md.initialize_velocity = lambda fr, m, *a, **k: m.velocities
        md._zero_com = lambda fr, *a, **k: None
        md._output_to_screen = lambda fr, *a, **k: None
        md._kinetic_energy = lambda fr, m: scalar_stamp(5, m._step)
        md._calc_temperature = lambda fr, ek: np.array([x + 500000 for x in ek], dtype=object)
        md._thermo_potential = lambda fr, m: scalar_stamp(6, m._step)
        md._print_hop_log = None

        def save_checkpoint(fr, molecule, steps_, reuse_P, remove_com, *, step_done=None, path=None, **k):
            events["checkpoints"].append((int(step_done), fs.snapshot()))
        md.save_checkpoint = save_checkpoint
        try:
            I.call_function(self.mod, self.mod.func(self._method("run")), [md, mol, steps])
        except Crash:
            events["crashed"] = True
        events["driver"] = md
        return fs, events

    def _method(self, name):
        """qualified name of `name` as resolved for the class (first definition along the repository bases)"""
        m, c = self.mod, self.cls_name
        seen = set()
        while c and c not in seen:
            seen.add(c)
            q = f"{c}.{name}"
            if q in m.functions:
                return q
            bases = [b.id for b in m.classes[c].bases if isinstance(b, __import__("ast").Name) and b.id in m.classes]
            c = bases[0] if bases else None
        raise AnalysisError(f"{self.cls_name}.{name} not found")


# --------------------------------------------------------------------------------------------------------------------------------------------
# the specification
# --------------------------------------------------------------------------------------------------------------------------------------------
VECTOR_SOURCE = {"coordinates": "coordinates", "velocities": "velocities", "forces": "force"}


def expected_content(output, steps):
    """what the cadence specification says the HDF5 files of a fresh run of `steps` steps hold: {mol: {stream: [(label, row values)]}}"""
    h5 = output.get("h5", {})
    out = {}
    for mol in output.get("molid", [0]):
        nat = int((SPECIES[mol] > 0).sum())
        streams = {}
        for s, attr in VECTOR_SOURCE.items():
            c = int(h5.get(s, 0))
            rows = []
            if c > 0:
                for t in range(0, steps + 1):
                    if t % c == 0:
                        rows.append((t, stamp(attr, t)[mol, :nat, :].tolist()))
            streams[s] = rows
        d = int(h5.get("data", 0))
        rows = []
        if d > 0:
            for t in range(0, steps + 1):
                if t % d == 0:
                    ek = scalar_stamp(5, t)[mol]
                    rows.append((t, {"thermo/Ek": ek, "thermo/T": ek + 500000, "thermo/Ep": scalar_stamp(6, t)[mol]}))
        streams["data"] = rows
        out[mol] = streams
    return out


def compare_with_spec(fs, output, steps, prefix_hint=None):
    """[] when the files equal the specification, else messages naming the first deviation per stream"""
    msgs = []
    want = expected_content(output, steps)
    files = dict(fs.files)
    if len(files) != len(want):
        msgs.append(f"{len(files)} HDF5 files for {len(want)} requested molecules ({sorted(files)})")
        return msgs
    # which file belongs to which molecule: the per-molecule number is part of the documented file name <prefix>.<mol>.h5
    for mol, streams in want.items():
        cand = [p for p in files if p.endswith(f".{mol}.h5")]
        if len(cand) != 1:
            msgs.append(f"no unique file for molecule {mol} among {sorted(files)}")
            continue
        f = files[cand[0]]
        for s in VECTOR_SOURCE:
            rows = streams[s]
            g = f._walk(s)
            if not rows:
                got = g._walk("steps").data.tolist() if (g is not None and g._walk("steps") is not None) else []
                if got:
                    msgs.append(f"stream `{s}` of molecule {mol} is switched off (cadence 0) but holds rows labelled {got}")
                continue
            if g is None or g._walk("steps") is None or g._walk("values") is None:
                msgs.append(f"stream `{s}` of molecule {mol} has a positive cadence but no /{s}/steps, /{s}/values datasets")
                continue
            labels = g._walk("steps").data.tolist()
            exp = [t for t, _ in rows]
            if labels != exp:
                msgs.append(f"stream `{s}` of molecule {mol} (cadence {output['h5'].get(s)}, {steps} steps) holds rows labelled "
                            f"{[('unwritten' if x is UNSET else int(x)) for x in labels]}, the cadence asks for {exp}")
                continue
            vals = g._walk("values").data.tolist()
            for k, (t, v) in enumerate(rows):
                if vals[k] != v:
                    msgs.append(f"row {k} of stream `{s}` of molecule {mol} is labelled step {t} but does not hold that step's {VECTOR_SOURCE[s]} of that molecule's real atoms "
                                f"(first entry {vals[k][0][0] if vals[k] and vals[k][0] else vals[k]!r}, expected {v[0][0]})")
                    break
        rows = streams["data"]
        g = f._walk("data")
        if not rows:
            got = g._walk("steps").data.tolist() if (g is not None and g._walk("steps") is not None) else []
            if got:
                msgs.append(f"stream `data` of molecule {mol} is switched off but holds rows labelled {got}")
            continue
        if g is None or g._walk("steps") is None:
            msgs.append(f"stream `data` of molecule {mol} has a positive cadence but no /data/steps dataset")
            continue
        labels = g._walk("steps").data.tolist()
        exp = [t for t, _ in rows]
        if labels != exp:
            msgs.append(f"stream `data` of molecule {mol} (cadence {output['h5'].get('data')}, {steps} steps) holds rows labelled "
                        f"{[('unwritten' if x is UNSET else int(x)) for x in labels]}, the cadence asks for {exp}")
            continue
        for name in ("thermo/T", "thermo/Ek", "thermo/Ep"):
            ds = g._walk(name)
            if ds is None:
                msgs.append(f"/data/{name} of molecule {mol} missing")
                continue
            got = ds.data.tolist()
            expv = [r[name] for _, r in rows]
            if got != expv:
                k = next(i for i in range(min(len(got), len(expv))) if got[i] != expv[i]) if len(got) == len(expv) else -1
                msgs.append(f"/data/{name} of molecule {mol}: row {k} does not hold the value of its labelled step (got {got[k] if k >= 0 else len(got)}, expected {expv[k] if k >= 0 else len(expv)})")
    return msgs


def diff_content(a, b, path=""):
    """first difference between two nested content structures, or None"""
    if isinstance(a, dict) and isinstance(b, dict):
        for k in sorted(set(a) | set(b)):
            if k not in a or k not in b:
                return f"{path}/{k} present in only one of the two"
            d = diff_content(a[k], b[k], f"{path}/{k}")
            if d:
                return d
        return None
    if a != b:
        if isinstance(a, list) and isinstance(b, list) and len(a) == len(b):
            for i, (x, y) in enumerate(zip(a, b)):
                if x != y:
                    return f"{path}[{i}]: {('unwritten' if x is UNSET else x)!r:.60} vs {('unwritten' if y is UNSET else y)!r:.60}"
        return f"{path}: {str(a)[:60]} vs {str(b)[:60]}"
    return None
