"""Interpreted output pipeline of the MD drivers (C11 / C10): the run loop of an engine, its output setup and the HDF5 writer are interpreted (sa.npsym) against a model of an
HDF5 file, for small concrete cadence tables, and the rows that end up in the files are compared with the cadence specification ("stream s has exactly the steps that are
multiples of its own cadence, each labelled with its step and holding that step's values").  Nothing of the repository is imported or run; the integrator step, the energy
bookkeeping and the checkpoint writer are replaced by stand-ins that stamp every per-step quantity with the step number, so the *positions* of rows can be decided exactly.

The model of h5py implements what the writer uses: groups addressed by '/'-paths, create_group / create_dataset(shape= | data=), item reads and writes with bounds, `in`,
.shape, .attrs, flush / close, resize.  A write outside a dataset's shape raises like h5py does.  Unwritten rows hold the marker UNSET.
"""
from __future__ import annotations

import copy
import types

import numpy as np
import sympy as sp

from .loader import AnalysisError
from .npsym import ClassRef, Instance, Model, NpSym, Raised, TorchMarker

UNSET = sp.Symbol("UNSET")


class Crash(Raised):
    """the process dies here (no finally clause runs)"""


class FakeDataset(Model):
    def __init__(self, shape=None, data=None, name=""):
        self.name = name
        if data is not None:
            a = np.array(data, dtype=object) if not isinstance(data, np.ndarray) else data.astype(object)
            self.data = a.copy()
        else:
            self.data = np.full(tuple(int(x) for x in shape), UNSET, dtype=object)
        self.attrs = {}

    @property
    def shape(self):
        return tuple(int(x) for x in self.data.shape)

    def __len__(self):
        return self.data.shape[0]

    def np_getitem(self, fr, key):
        if key is Ellipsis or key == ():
            return self.data.copy()
        return self.data[key]

    def np_setitem(self, fr, key, value):
        if isinstance(value, np.ndarray):
            value = value.astype(object)
        try:
            tgt = self.data[key]
        except IndexError:
            raise Raised(f"IndexError: write at {key!r} outside dataset {self.name} of shape {self.shape}")
        if isinstance(value, np.ndarray) and isinstance(tgt, np.ndarray) and np.broadcast_shapes(value.shape, tgt.shape) != tgt.shape:
            raise Raised(f"TypeError: cannot broadcast {value.shape} into {tgt.shape} of dataset {self.name}")
        self.data[key] = value

    def resize(self, fr, *a, **k):
        size = a[0] if a else k.get("size")
        axis = k.get("axis", a[1] if len(a) > 1 else None)
        if axis is None:
            new = tuple(int(x) for x in size)
        else:
            new = list(self.data.shape)
            new[int(axis)] = int(size)
            new = tuple(new)
        out = np.full(new, UNSET, dtype=object)
        sl = tuple(slice(0, min(o, n)) for o, n in zip(self.data.shape, new))
        out[sl] = self.data[sl]
        self.data = out

    def content(self):
        return self.data.tolist()


class FakeGroup(Model):
    def __init__(self, name=""):
        self.name = name
        self.children = {}
        self.attrs = {}

    # path handling -----------------------------------------------------------------------------------------------------------------------
    def _walk(self, path, create=False):
        node = self
        parts = [p for p in str(path).split("/") if p]
        for p in parts:
            if not isinstance(node, FakeGroup):
                return None
            if p not in node.children:
                if not create:
                    return None
                node.children[p] = FakeGroup(node.name + "/" + p)
            node = node.children[p]
        return node

    def __contains__(self, key):
        return self._walk(key) is not None

    def np_getitem(self, fr, key):
        if not isinstance(key, str):
            raise AnalysisError(f"h5 model: group {self.name or '/'} indexed with {key!r}")
        n = self._walk(key)
        if n is None:
            raise Raised(f"KeyError: {key} not in {self.name or '/'}")
        return n

    def np_setitem(self, fr, key, value):
        self.create_dataset(fr, key, data=value)

    def create_group(self, fr, name):
        if self._walk(name) is not None:
            raise Raised(f"ValueError: group {name} exists")
        return self._walk(name, create=True)

    def require_group(self, fr, name):
        return self._walk(name, create=True)

    def create_dataset(self, fr, path, shape=None, dtype=None, data=None, **kw):
        parts = [p for p in str(path).split("/") if p]
        parent = self._walk("/".join(parts[:-1]), create=True) if len(parts) > 1 else self
        if parts[-1] in parent.children:
            raise Raised(f"ValueError: dataset {path} exists")
        if data is None and shape is None:
            raise AnalysisError("h5 model: create_dataset without shape or data")
        if data is not None and not isinstance(data, np.ndarray):
            data = np.array(data, dtype=object)
        if isinstance(shape, (int, np.integer, sp.Integer)):
            shape = (int(shape),)
        ds = FakeDataset(shape=shape, data=data, name=parent.name + "/" + parts[-1])
        parent.children[parts[-1]] = ds
        return ds

    def keys(self, fr=None):
        return list(self.children.keys())

    def get(self, fr, key, default=None):
        n = self._walk(key)
        return default if n is None else n

    def flush(self, fr=None):
        return None

    def close(self, fr=None):
        return None

    def content(self):
        return {k: v.content() for k, v in sorted(self.children.items())}


class FakeFile(FakeGroup):
    def __init__(self, path):
        super().__init__("")
        self.path = path
        self.flushes = 0
        self.open = True
        self.flushed = None

    def root_file(self):
        return self

    def flush(self, fr=None):
        self.flushes += 1
        self.flushed = copy.deepcopy(self.children)

    def close(self, fr=None):
        self.flush()
        self.open = False


class FakeTextFile(Model):
    """a text file opened with the builtin open(): append / read-write with a position, as far as the XYZ writer and its truncation helper use it"""
    def __init__(self, fs, path, mode):
        self.fs, self.path, self.mode = fs, path, mode
        self.pos = len(fs.texts[path]) if "a" in mode else 0
        self.closed = False

    def write(self, fr, text):
        cur = self.fs.texts[self.path]
        if "a" in self.mode:
            self.fs.texts[self.path] = cur + str(text)
            self.pos = len(self.fs.texts[self.path])
        else:
            self.fs.texts[self.path] = cur[:self.pos] + str(text) + cur[self.pos + len(str(text)):]
            self.pos += len(str(text))
        return len(str(text))

    def readline(self, fr):
        cur = self.fs.texts[self.path]
        j = cur.find("\n", self.pos)
        end = len(cur) if j < 0 else j + 1
        line = cur[self.pos:end]
        self.pos = end
        return line

    def read(self, fr, n=-1):
        cur = self.fs.texts[self.path]
        out = cur[self.pos:] if n is None or int(n) < 0 else cur[self.pos:self.pos + int(n)]
        self.pos += len(out)
        return out

    def tell(self, fr):
        return self.pos

    def seek(self, fr, off, whence=0):
        self.pos = int(off) if int(whence) == 0 else (self.pos + int(off) if int(whence) == 1 else len(self.fs.texts[self.path]) + int(off))
        return self.pos

    def truncate(self, fr, size=None):
        size = self.pos if size is None else int(size)
        self.fs.texts[self.path] = self.fs.texts[self.path][:size]
        self.fs.texts_flushed[self.path] = self.fs.texts[self.path]
        return size

    def flush(self, fr=None):
        self.fs.texts_flushed[self.path] = self.fs.texts[self.path]

    def close(self, fr=None):
        self.flush()
        self.closed = True

    def truncate_flush(self):
        self.fs.texts_flushed[self.path] = self.fs.texts[self.path]


class FakeStringIO(Model):
    def __init__(self):
        self.buf = ""

    def write(self, fr, t):
        self.buf += str(t)

    def getvalue(self, fr):
        return self.buf


def _plain_ckpt(obj):
    """what torch.save persists of an interpreted checkpoint: driver stand-ins (callables) cannot be pickled and are dropped from SimpleNamespaces"""
    if isinstance(obj, dict):
        return {k: _plain_ckpt(v) for k, v in obj.items()}
    if isinstance(obj, (list, tuple)):
        return type(obj)(_plain_ckpt(v) for v in obj)
    if isinstance(obj, types.SimpleNamespace) and not isinstance(obj, Instance):
        ns = types.SimpleNamespace(**{k: _plain_ckpt(v) for k, v in vars(obj).items() if not callable(v)})
        ns.to = lambda fr, *a, **k: ns
        return ns
    return obj


class FileSystem:
    """path -> FakeFile / text; `disk` holds what torch.save / os.replace published; survives a crash.  flush() of a file records what a hard kill would leave behind."""
    def __init__(self):
        self.files = {}
        self.texts = {}
        self.texts_flushed = {}
        self.disk = {}

    def flushed_snapshot(self):
        """the file system as a hard kill at this instant leaves it in the worst case: every file as of its last flush / close"""
        c = FileSystem()
        c.disk = copy.deepcopy(self.disk)
        for p, f in self.files.items():
            g = copy.deepcopy(f)
            if f.flushed is not None:
                g.children = copy.deepcopy(f.flushed)
            c.files[p] = g
        for p, t in self.texts.items():
            c.texts[p] = self.texts_flushed.get(p, "")
            c.texts_flushed[p] = c.texts[p]
        return c

    def open_text(self, path, mode="r", **kw):
        path = str(path)
        if "w" in mode:
            self.texts[path] = ""
        elif path not in self.texts:
            if "a" in mode:
                self.texts[path] = ""
            else:
                raise Raised(f"FileNotFoundError: {path}")
        return FakeTextFile(self, path, mode)

    def opener(self, path, mode="r", **kw):
        path = str(path)
        if mode in ("w", "w-", "x"):
            f = FakeFile(path)
            self.files[path] = f
            return f
        if mode in ("r+", "a", "r"):
            if path not in self.files:
                if mode == "a":
                    self.files[path] = FakeFile(path)
                else:
                    raise Raised(f"OSError: {path} does not exist")
            self.files[path].open = True
            return self.files[path]
        raise AnalysisError(f"h5 model: open mode {mode!r}")

    def snapshot(self):
        return copy.deepcopy(self)

    def content(self):
        d = {p: f.content() for p, f in sorted(self.files.items())}
        d.update({p: t for p, t in sorted(self.texts.items())})
        return d


# --------------------------------------------------------------------------------------------------------------------------------------------
# the stamped molecule and driver stand-ins
# --------------------------------------------------------------------------------------------------------------------------------------------
SPECIES = np.array([[8, 6, 1, 1], [7, 1, 1, 0], [1, 1, 0, 0]], dtype=np.int64)      # a padded batch of 4-, 3- and 2-atom molecules
KIND = {"coordinates": 1, "velocities": 2, "force": 3, "acc": 4}


def stamp(kind, step, nmol=3, molsize=4):
    """per-atom vectors whose every entry names (quantity, step, molecule, atom, component)"""
    a = np.empty((nmol, molsize, 3), dtype=object)
    for m in range(nmol):
        for i in range(molsize):
            for c in range(3):
                a[m, i, c] = sp.Integer(KIND[kind] * 10 ** 6 + step * 1000 + m * 100 + i * 10 + c)
    return a


def scalar_stamp(kind, step, nmol=3):
    return np.array([sp.Integer(kind * 10 ** 6 + step * 1000 + m * 100) for m in range(nmol)], dtype=object)


def make_molecule(step):
    nmol, molsize = SPECIES.shape
    mol = types.SimpleNamespace(
        species=SPECIES.copy(), nmol=nmol, molsize=molsize, num_atoms=(SPECIES > 0).sum(axis=1),
        coordinates=stamp("coordinates", step), velocities=stamp("velocities", step), force=stamp("force", step), acc=stamp("acc", step),
        mass_inverse=np.full((nmol, molsize, 1), sp.Integer(1), dtype=object), mass=np.full((nmol, molsize, 1), sp.Integer(1), dtype=object),
        norb=np.array([10, 6, 2], dtype=np.int64), nocc=np.array([4, 3, 1], dtype=np.int64), active_state=0, dm=np.full((nmol, 2, 2), sp.Integer(1), dtype=object), cis_amplitudes=None,
        e_gap=scalar_stamp(7, step), dipole=np.array([[sp.Integer(8 * 10 ** 6 + step * 1000 + m * 100 + c) for c in range(3)] for m in range(nmol)], dtype=object),
        Etot=scalar_stamp(9, step), verbose=True, const=types.SimpleNamespace(do_timing=False, timing={"MD": []}, label=["X", "H", "He", "Li", "Be", "B", "C", "N", "O"]),
        all_forces=None, old_mos=None)
    _excited_fields(mol, step)
    return mol


NROOTS = 2


def _excited_fields(mol, step):
    nmol = mol.nmol
    nmax = int(mol.norb.max())
    mol.cis_energies = np.array([[sp.Integer(11 * 10 ** 6 + step * 1000 + m * 100 + r) for r in range(NROOTS)] for m in range(nmol)], dtype=object)
    mol.transition_dipole = np.array([[[sp.Integer(12 * 10 ** 6 + step * 1000 + m * 100 + r * 10 + c) for c in range(3)] for r in range(NROOTS)] for m in range(nmol)], dtype=object)
    mol.oscillator_strength = np.array([[sp.Integer(13 * 10 ** 6 + step * 1000 + m * 100 + r) for r in range(NROOTS)] for m in range(nmol)], dtype=object)
    tdm = np.empty((nmol, NROOTS, nmax, nmax), dtype=object)
    for m in range(nmol):
        for r in range(NROOTS):
            for a in range(nmax):
                for b in range(nmax):
                    tdm[m, r, a, b] = sp.Integer(14 * 10 ** 6 + step * 1000 + m * 100 + r * 50 + (a * nmax + b) % 50)
    mol.transition_density_matrices = tdm


def set_step(mol, step):
    for k in ("coordinates", "velocities", "force", "acc"):
        getattr(mol, k)[...] = stamp(k, step)
    mol.e_gap = scalar_stamp(7, step)
    mol.dipole = np.array([[sp.Integer(8 * 10 ** 6 + step * 1000 + m * 100 + c) for c in range(3)] for m in range(mol.nmol)], dtype=object)
    mol.Etot = scalar_stamp(9, step)
    mol._step = step
    _excited_fields(mol, step)


class Pipeline:
    """interpreted runs of an engine's `run` / `run_from_checkpoint` with stand-ins for everything that is not output or checkpoint plumbing"""
    def __init__(self, repo, cls_name="Molecular_Dynamics_Basic", rel="seqm/MolecularDynamics.py"):
        self.repo, self.cls_name, self.rel = repo, cls_name, rel
        self.mod = repo.mod(rel)
        if cls_name not in self.mod.classes:
            raise AnalysisError(f"class {cls_name} not found in {rel}")

    def _session(self, fs, crash_before_step, start_step, stub_checkpoint):
        events = {"checkpoints": [], "calls": [], "screen": [], "_line": "", "published": []}
        state = {"mol": None}

        def printer(*a, end="\n", **k):
            events["_line"] += " ".join(str(x) for x in a) + end
            while "\n" in events["_line"]:
                line, events["_line"] = events["_line"].split("\n", 1)
                events["screen"].append(line)

        def torch_save(obj, path, **k):
            fs.disk[str(path)] = copy.deepcopy(_plain_ckpt(obj))

        def os_replace(a, b):
            fs.disk[str(b)] = fs.disk.pop(str(a))
            ck = fs.disk[str(b)]
            events["published"].append((ck.get("step_done") if isinstance(ck, dict) else None, fs.snapshot(), fs.flushed_snapshot()))

        def molecule_ctor(const, seqm_parameters, coordinates, species, *a, **k):
            m = make_molecule(start_step)
            m.coordinates = np.asarray(coordinates).astype(object)
            m.to = lambda fr, *a2, **k2: m
            state["mol"] = m
            return m
        stubs = {
            "h5py.File": lambda path, mode="r", **k: fs.opener(path, mode, **k),
            "open": lambda path, mode="r", *a, **k: fs.open_text(path, mode),
            "os.path.exists": lambda path: str(path) in fs.texts or str(path) in fs.files or str(path) in fs.disk,
            "os.path.dirname": lambda path: "", "os.close": lambda *a: None, "os.remove": lambda path: fs.disk.pop(str(path), None) and None,
            "tempfile.mkstemp": lambda **k: (0, ".tmp_ckpt_%d.pt" % len(events["published"])),
            "torch.save": torch_save, "os.replace": os_replace,
            "torch.load": lambda path, **k: copy.deepcopy(fs.disk[str(path)]) if str(path) in fs.disk else (_ for _ in ()).throw(Raised(f"FileNotFoundError: {path}")),
            "torch.random.get_rng_state": lambda *a: "rng-cpu", "torch.cuda.get_rng_state_all": lambda *a: None,
            "torch.random.set_rng_state": lambda *a: None, "torch.cuda.set_rng_state_all": lambda *a: None, "torch.set_default_dtype": lambda *a: None,
            "Molecule": molecule_ctor,
            "StringIO": lambda *a: FakeStringIO(),
            "print": printer,
            "_rotate_existing": lambda path, *a, **k: (fs.texts.pop(str(path), None), fs.files.pop(str(path), None)) and None,
            "np.empty": lambda shape, **k: np.full(tuple(int(x) for x in (shape if isinstance(shape, (tuple, list)) else (shape,))), UNSET, dtype=object),
            "datetime.now": lambda *a, **k: sp.Integer(0),
            "time.time": lambda *a, **k: sp.Integer(0),
            "_to_np": lambda x: (x.copy() if isinstance(x, np.ndarray) else x),
            "torch.cuda.empty_cache": lambda *a, **k: None, "torch.cuda.synchronize": lambda *a, **k: None, "torch.cuda.is_available": lambda *a, **k: False,
            "torch.manual_seed": lambda *a, **k: None, "torch.cuda.manual_seed_all": lambda *a, **k: None,
            "esdriver": lambda *a, **k: types.SimpleNamespace(conservative_force=types.SimpleNamespace(energy=types.SimpleNamespace(md=False, excited_states=None)),
                                                            device=TorchMarker("device")),
            "active_state_tensor": lambda a, n, dev=None: np.zeros((int(n),), dtype=np.int64) if not isinstance(a, np.ndarray) else a,
        }
        I = NpSym(self.repo, stubs=stubs, max_steps=5_000_000)
        I.construct_instances = True

        def integrator_step(fr, i, molecule, *a, **k):
            i = int(i)
            if crash_before_step is not None and i == crash_before_step:
                raise Crash(f"killed before step {i}")
            if events.get("record_iterations"):
                # what a kill at the start of this iteration leaves behind: files as written / as of their last flush
                events.setdefault("at_iter", {})[i] = (fs.snapshot(), fs.flushed_snapshot())
            set_step(molecule, i + 1)
            events["calls"].append(i)

        def hook(obj):
            from .npsym import _MISSING, _b_getattr
            if I.class_attribute(obj._npsym_class[0], obj._npsym_class[1], "_do_integrator_step", obj, default=None) is None:
                return
            obj._do_integrator_step = integrator_step
            obj.set_dof = lambda fr, *a, **k: None
            obj.initialize_velocity = lambda fr, m, *a, **k: m.velocities
            obj._zero_com = lambda fr, *a, **k: None
            obj._kinetic_energy = lambda fr, m: scalar_stamp(5, m._step)
            obj._calc_temperature = lambda fr, ek: np.array([x + 500000 for x in ek], dtype=object)
            obj._thermo_potential = lambda fr, m: scalar_stamp(6, m._step)
            obj._print_hop_log = None
            obj.to = lambda fr, *a, **k: obj
            if stub_checkpoint:
                def save_checkpoint(fr, molecule, steps_, reuse_P, remove_com, *, step_done=None, path=None, **k):
                    events["checkpoints"].append((int(step_done), fs.snapshot()))
                obj.save_checkpoint = save_checkpoint
            events["driver"] = obj
        I.instance_hook = hook
        return I, events, state

    def run(self, output, steps, step_offset=0, fs=None, crash_before_step=None, ctor_kwargs=None, excited=False, stub_checkpoint=True, record_iterations=False):
        """interpret <cls>(seqm_parameters, timestep, Temp=0, step_offset, output).run(molecule, steps); returns (fs, events).
        crash_before_step=j: the process dies at the start of loop iteration i == j (after step j has been completed and written)."""
        fs = fs if fs is not None else FileSystem()
        I, events, state = self._session(fs, crash_before_step, step_offset, stub_checkpoint)
        events["record_iterations"] = record_iterations
        mol = make_molecule(step_offset)
        mol._step = step_offset
        kw = dict(timestep=sp.Rational(1, 2), Temp=sp.Integer(0), step_offset=step_offset, output=copy.deepcopy(output))
        kw.update(ctor_kwargs or {})
        seqm_parameters = {"method": "AM1"}
        if excited:
            seqm_parameters["excited_states"] = {"n_states": NROOTS, "method": "cis"}
        kw["seqm_parameters"] = seqm_parameters
        md = I.construct(ClassRef(self.mod, self.mod.classes[self.cls_name]), [], kw)
        try:
            I.call_function(self.mod, self.mod.func(self._method("run")), [md, mol, steps])
        except Crash:
            events["crashed"] = True
        return fs, events

    def resume(self, fs, path, crash_before_step=None):
        """interpret <cls>.run_from_checkpoint(path) on the files and the published checkpoint of `fs`"""
        ck = fs.disk.get(str(path))
        if not isinstance(ck, dict) or "step_done" not in ck:
            raise AnalysisError("resume: no published checkpoint with a step_done entry")
        I, events, state = self._session(fs, crash_before_step, int(ck["step_done"]), False)
        try:
            I.call_function(self.mod, self.mod.func(self._method("run_from_checkpoint")), [str(path)])
        except Crash:
            events["crashed"] = True
        return fs, events

    def _method(self, name):
        """qualified name of `name` as resolved for the class (first definition along the repository bases)"""
        m, c = self.mod, self.cls_name
        seen = set()
        while c and c not in seen:
            seen.add(c)
            q = f"{c}.{name}"
            if q in m.functions:
                return q
            bases = [b.id for b in m.classes[c].bases if isinstance(b, __import__("ast").Name) and b.id in m.classes]
            c = bases[0] if bases else None
        raise AnalysisError(f"{self.cls_name}.{name} not found")


# --------------------------------------------------------------------------------------------------------------------------------------------
# the specification
# --------------------------------------------------------------------------------------------------------------------------------------------
VECTOR_SOURCE = {"coordinates": "coordinates", "velocities": "velocities", "forces": "force"}


def expected_content(output, steps):
    """what the cadence specification says the HDF5 files of a fresh run of `steps` steps hold: {mol: {stream: [(label, row values)]}}"""
    h5 = output.get("h5", {})
    out = {}
    for mol in output.get("molid", [0]):
        nat = int((SPECIES[mol] > 0).sum())
        streams = {}
        for s, attr in VECTOR_SOURCE.items():
            c = int(h5.get(s, 0))
            rows = []
            if c > 0:
                for t in range(0, steps + 1):
                    if t % c == 0:
                        rows.append((t, stamp(attr, t)[mol, :nat, :].tolist()))
            streams[s] = rows
        d = int(h5.get("data", 0))
        rows = []
        if d > 0:
            for t in range(0, steps + 1):
                if t % d == 0:
                    ek = scalar_stamp(5, t)[mol]
                    rows.append((t, {"thermo/Ek": ek, "thermo/T": ek + 500000, "thermo/Ep": scalar_stamp(6, t)[mol]}))
        streams["data"] = rows
        out[mol] = streams
    return out


def compare_with_spec(fs, output, steps, prefix_hint=None):
    """[] when the files equal the specification, else messages naming the first deviation per stream"""
    msgs = []
    want = expected_content(output, steps)
    files = dict(fs.files)
    if not files and not any(rows for streams in want.values() for rows in streams.values()):
        return msgs         # every HDF5 stream is switched off: no file is required
    if len(files) != len(want):
        msgs.append(f"{len(files)} HDF5 files for {len(want)} requested molecules ({sorted(files)})")
        return msgs
    # which file belongs to which molecule: the per-molecule number is part of the documented file name <prefix>.<mol>.h5
    for mol, streams in want.items():
        cand = [p for p in files if p.endswith(f".{mol}.h5")]
        if len(cand) != 1:
            msgs.append(f"no unique file for molecule {mol} among {sorted(files)}")
            continue
        f = files[cand[0]]
        for s in VECTOR_SOURCE:
            rows = streams[s]
            g = f._walk(s)
            if not rows:
                got = g._walk("steps").data.tolist() if (g is not None and g._walk("steps") is not None) else []
                if got:
                    msgs.append(f"stream `{s}` of molecule {mol} is switched off (cadence 0) but holds rows labelled {got}")
                continue
            if g is None or g._walk("steps") is None or g._walk("values") is None:
                msgs.append(f"stream `{s}` of molecule {mol} has a positive cadence but no /{s}/steps, /{s}/values datasets")
                continue
            labels = g._walk("steps").data.tolist()
            exp = [t for t, _ in rows]
            if labels != exp:
                msgs.append(f"stream `{s}` of molecule {mol} (cadence {output['h5'].get(s)}, {steps} steps) holds rows labelled "
                            f"{[('unwritten' if x is UNSET else int(x)) for x in labels]}, the cadence asks for {exp}")
                continue
            vals = g._walk("values").data.tolist()
            for k, (t, v) in enumerate(rows):
                if vals[k] != v:
                    msgs.append(f"row {k} of stream `{s}` of molecule {mol} is labelled step {t} but does not hold that step's {VECTOR_SOURCE[s]} of that molecule's real atoms "
                                f"(first entry {vals[k][0][0] if vals[k] and vals[k][0] else vals[k]!r}, expected {v[0][0]})")
                    break
        rows = streams["data"]
        g = f._walk("data")
        if not rows:
            got = g._walk("steps").data.tolist() if (g is not None and g._walk("steps") is not None) else []
            if got:
                msgs.append(f"stream `data` of molecule {mol} is switched off but holds rows labelled {got}")
            continue
        if g is None or g._walk("steps") is None:
            msgs.append(f"stream `data` of molecule {mol} has a positive cadence but no /data/steps dataset")
            continue
        labels = g._walk("steps").data.tolist()
        exp = [t for t, _ in rows]
        if labels != exp:
            msgs.append(f"stream `data` of molecule {mol} (cadence {output['h5'].get('data')}, {steps} steps) holds rows labelled "
                        f"{[('unwritten' if x is UNSET else int(x)) for x in labels]}, the cadence asks for {exp}")
            continue
        for name in ("thermo/T", "thermo/Ek", "thermo/Ep"):
            ds = g._walk(name)
            if ds is None:
                msgs.append(f"/data/{name} of molecule {mol} missing")
                continue
            got = ds.data.tolist()
            expv = [r[name] for _, r in rows]
            if got != expv:
                k = next(i for i in range(min(len(got), len(expv))) if got[i] != expv[i]) if len(got) == len(expv) else -1
                msgs.append(f"/data/{name} of molecule {mol}: row {k} does not hold the value of its labelled step (got {got[k] if k >= 0 else len(got)}, expected {expv[k] if k >= 0 else len(expv)})")
    return msgs


def diff_content(a, b, path=""):
    """first difference between two nested content structures, or None"""
    if isinstance(a, dict) and isinstance(b, dict):
        for k in sorted(set(a) | set(b)):
            if k not in a or k not in b:
                return f"{path}/{k} present in only one of the two"
            d = diff_content(a[k], b[k], f"{path}/{k}")
            if d:
                return d
        return None
    if a != b and isinstance(a, str) and isinstance(b, str):
        la, lb = a.split("\n"), b.split("\n")
        k = next((i for i in range(min(len(la), len(lb))) if la[i] != lb[i]), min(len(la), len(lb)))
        return f"{path} line {k + 1}: `{la[k].strip() if k < len(la) else '<end of file>'}` vs `{lb[k].strip() if k < len(lb) else '<end of file>'}`"
    if a != b:
        if isinstance(a, list) and isinstance(b, list) and len(a) == len(b):
            for i, (x, y) in enumerate(zip(a, b)):
                if x != y:
                    return f"{path}[{i}]: {('unwritten' if x is UNSET else x)!r:.60} vs {('unwritten' if y is UNSET else y)!r:.60}"
        return f"{path}: {str(a)[:60]} vs {str(b)[:60]}"
    return None


# --------------------------------------------------------------------------------------------------------------------------------------------
# further streams of the specification: screen, XYZ, transition-density sub-stream
# --------------------------------------------------------------------------------------------------------------------------------------------
def screen_labels(lines):
    """[(label, first temperature)] of the thermo lines printed to the screen (lines that start with an integer)"""
    out = []
    for ln in lines:
        tok = ln.split()
        if tok and tok[0].lstrip("-").isdigit():
            try:
                out.append((int(tok[0]), float(tok[1]) if len(tok) > 1 else None))
            except ValueError:
                out.append((int(tok[0]), None))
    return out


def xyz_frames(text):
    """[(label, number of atoms, first coordinate)] of an XYZ trajectory"""
    lines = text.split("\n")
    out, k = [], 0
    while k < len(lines) and lines[k].strip():
        try:
            n = int(lines[k])
            tok = lines[k + 1].split()
            label = int(tok[1])
            first = float(lines[k + 2].split()[1]) if n > 0 else None
        except (ValueError, IndexError):
            out.append(("malformed", k, None, None))
            break
        etot = None
        if "=" in tok:
            try:
                etot = float(tok[tok.index("=") + 1])
            except (ValueError, IndexError):
                etot = None
        out.append((label, n, first, etot))
        k += 2 + n
    return out


def compare_more(fs, events, output, steps, after=0, first_mol=None):
    """screen / XYZ / tdm against the cadence specification; `after` = step the (resumed) session started from (screen lines exist only for later steps)"""
    msgs = []
    pe = int(output.get("print every", 1))
    molid = output.get("molid", [0])
    want = [t for t in range(after + 1, steps + 1) if pe > 0 and t % pe == 0]
    got = screen_labels(events["screen"])
    if [g[0] for g in got] != want:
        msgs.append(f"screen: thermo lines are printed for steps {[g[0] for g in got]}, the cadence `print every` = {pe} asks for {want}")
    elif molid:
        for lab, tval in got:
            exp = float(scalar_stamp(5, lab)[molid[0]] + 500000)
            if tval is not None and abs(tval - exp) > 0.5:
                msgs.append(f"screen: the line labelled step {lab} does not show that step's temperature of molecule {molid[0]}")
                break
    xe = int(output.get("xyz", 0))
    for mol in molid:
        nat = int((SPECIES[mol] > 0).sum())
        cand = [p for p in fs.texts if p.endswith(f".{mol}.xyz")]
        want = ([0] + [t for t in range(1, steps + 1) if t % xe == 0]) if xe > 0 else []
        if not want:
            if any(fs.texts[p].strip() for p in cand):
                msgs.append(f"xyz: stream is switched off (cadence 0) but {cand} holds frames")
            continue
        if len(cand) != 1:
            msgs.append(f"xyz: no unique trajectory file for molecule {mol} among {sorted(fs.texts)}")
            continue
        fr = xyz_frames(fs.texts[cand[0]])
        if [f[0] for f in fr] != want:
            msgs.append(f"xyz: trajectory of molecule {mol} holds frames labelled {[f[0] for f in fr]}, the cadence {xe} asks for {want}")
            continue
        for lab, n, first, etot in fr:
            if n != nat or first is None or abs(first - float(stamp("coordinates", lab)[mol, 0, 0])) > 0.5:
                msgs.append(f"xyz: the frame labelled step {lab} of molecule {mol} does not hold that step's coordinates of the molecule's {nat} real atoms")
                break
            want_e = float(scalar_stamp(5, lab)[mol] + scalar_stamp(6, lab)[mol])
            if etot is not None and abs(etot - want_e) > 0.5:
                msgs.append(f"xyz: the frame labelled step {lab} of molecule {mol} carries a total energy that is not that step's kinetic + potential energy of the molecule "
                            f"(it shows {etot:.0f}; the energies of step {lab} are stamped {want_e:.0f}): the energy written with a frame depends on when another stream last asked for it")
                break
    h5 = output.get("h5", {})
    td, d = int(h5.get("transition_density_matrices", 0)), int(h5.get("data", 0))
    if td > 0 and d > 0 and td % d == 0:
        for mol in molid:
            cand = [p for p in fs.files if p.endswith(f".{mol}.h5")]
            if len(cand) != 1:
                continue
            ds = fs.files[cand[0]]._walk("data/excitation/transition_density_matrices/steps")
            if ds is None:
                continue        # no excited states in this scenario
            want = [t for t in range(0, steps + 1) if t % td == 0]
            got = ds.data.tolist()
            if got != want:
                msgs.append(f"transition_density_matrices of molecule {mol} (cadence {td}) holds rows labelled {[('unwritten' if x is UNSET else int(x)) for x in got]}, "
                            f"the cadence asks for {want}")
    return msgs


FRESH_TABLES = [
    # (print, xyz, data, coordinates, velocities, forces, tdm, molid, steps, excited)
    (1, 0, 1, 1, 1, 1, 0, [0, 1, 2], 4, False),
    (3, 2, 2, 2, 3, 5, 0, [0, 2], 12, False),
    (0, 3, 0, 3, 0, 2, 0, [1], 7, False),
    (2, 0, 5, 0, 2, 0, 0, [2, 0], 11, False),
    (5, 1, 3, 5, 5, 3, 0, [0], 10, False),
    (4, 5, 4, 0, 0, 0, 0, [0, 1], 9, False),
    (0, 0, 0, 0, 0, 7, 0, [1, 2], 8, False),
    (7, 4, 1, 4, 1, 1, 0, [0], 5, False),
    (2, 2, 2, 3, 2, 4, 4, [0, 2], 9, True),
    (3, 0, 1, 0, 0, 2, 3, [1], 7, True),
    (0, 0, 0, 0, 0, 0, 0, [0], 3, False),
    # one stream alone (its sink must exist although every other stream is off)
    (0, 0, 0, 2, 0, 0, 0, [1], 4, False),
    (0, 0, 0, 0, 3, 0, 0, [0], 6, False),
    (0, 0, 2, 0, 0, 0, 0, [2], 4, False),
    (0, 2, 0, 0, 0, 0, 0, [0], 4, False),
    (2, 0, 0, 0, 0, 0, 0, [1], 4, False),
]


def table_output(t, ckpt=0):
    pe, xe, d, c, v, f, td, molid, steps, exc = t
    out = {"molid": list(molid), "prefix": "p", "print every": pe, "checkpoint every": ckpt, "xyz": xe,
           "h5": {"data": d, "coordinates": c, "velocities": v, "forces": f, "transition_density_matrices": td, "write_mo": False, "transition_properties": bool(exc)}}
    return out, steps, exc


def interpreted_fresh_runs(repo, cls_name="Molecular_Dynamics_Basic", tables=None):
    """[(table, messages)] for fresh runs of the engine under every cadence table"""
    P = Pipeline(repo, cls_name)
    res = []
    for t in (tables or FRESH_TABLES):
        out, steps, exc = table_output(t)
        fs, ev = P.run(out, steps, excited=exc)
        msgs = compare_with_spec(fs, out, steps) + compare_more(fs, ev, out, steps)
        res.append((t, msgs))
    # the nonadiabatic stream alone: the engine must create the writer and allocate the stream's rows (they are filled by the surface-hopping engine)
    for c, steps in ((2, 6), (3, 7)):
        t = (0, 0, 0, 0, 0, 0, 0, [0, 2], steps, True)
        out, _, _ = table_output(t)
        out["h5"] = {"nonadiabatic": c}
        fs, ev = P.run(out, steps, excited=True)
        msgs = []
        for mol in out["molid"]:
            cand = [p for p in fs.files if p.endswith(f".{mol}.h5")]
            ds = fs.files[cand[0]]._walk("data/nonadiabatic/steps") if len(cand) == 1 else None
            if ds is None:
                msgs.append(f"nonadiabatic is the only stream with a positive cadence ({c}): no HDF5 file / no /data/nonadiabatic rows exist for molecule {mol}, the stream is silently lost")
            elif ds.shape[0] != steps // c + 1:
                msgs.append(f"nonadiabatic stream of molecule {mol} (cadence {c}, {steps} steps) has {ds.shape[0]} rows allocated, {steps // c + 1} steps are due")
        res.append((t[:6] + (f"nonadiabatic {c}",) + t[7:], msgs))
    return res


RESUME_TABLES = [
    # (table, checkpoint cadence)
    ((3, 2, 2, 2, 3, 5, 0, [0, 2], 10, False), 4),
    ((2, 3, 3, 1, 2, 4, 0, [1], 9, False), 3),
    ((1, 0, 2, 3, 0, 2, 4, [0, 2], 9, True), 5),
]


def interpreted_resume_runs(repo, cls_name="Molecular_Dynamics_Basic", tables=None, all_crash_points=True):
    """Kill-and-resume by value: for every cadence table the uninterrupted run is interpreted once (the real save_checkpoint writes the checkpoint through stand-ins of
    torch.save / os.replace); at the start of every loop iteration after the first published checkpoint the file system is captured twice -- as written so far, and as a hard
    kill leaves it in the worst case (every file as of its last flush / close).  From each capture the real run_from_checkpoint is interpreted to the end and every file must
    equal the file of the uninterrupted run; the screen lines of the resumed session must be the due steps after the checkpoint.  [(table, ckpt cadence, messages, n_resumes)]"""
    P = Pipeline(repo, cls_name)
    res = []
    for t, ck in (tables or RESUME_TABLES):
        out, steps, exc = table_output(t, ckpt=ck)
        fs0, ev0 = P.run(out, steps, excited=exc, stub_checkpoint=False, record_iterations=True)
        ref = fs0.content()
        ref.pop("p.restart.pt", None)
        msgs = compare_with_spec(fs0, out, steps) + compare_more(fs0, ev0, out, steps)
        want_ck = [s for s in range(1, steps + 1) if ck > 0 and s % ck == 0]
        if [p[0] for p in ev0["published"]] != want_ck:
            msgs.append(f"checkpoints are published after steps {[p[0] for p in ev0['published']]}, `checkpoint every` = {ck} asks for {want_ck}")
        n = 0
        # a hard kill right after a checkpoint has been published (os.replace done): whatever was not flushed before the publish is lost
        for s_done, _, pess in ev0["published"]:
            if s_done is None or int(s_done) >= steps:
                continue
            n += 1
            try:
                fs2, ev2 = P.resume(pess.snapshot(), "p.restart.pt")
            except Raised as e:
                msgs.append(f"kill right after the checkpoint of step {s_done} was published: the resumed run raises {str(e)[:120]}")
                continue
            got = fs2.content()
            got.pop("p.restart.pt", None)
            d = diff_content(ref, got)
            if d:
                msgs.append(f"kill right after the checkpoint of step {s_done} was published (files as of their last flush): after run_from_checkpoint the outputs differ from "
                            f"the uninterrupted run at {d} -- rows written before the checkpoint were not flushed before it was published")
        # a kill at the start of loop iteration j (steps 1..j completed): the state is the one the uninterrupted run had at that point
        for j in sorted(ev0.get("at_iter", {})):
            if j < ck or not any(s <= j for s in want_ck):
                continue
            s_done = max(s for s in want_ck if s <= j)
            written, flushed = ev0["at_iter"][j]
            for label, start in (("files as written at the kill", written), ("files as of their last flush before the kill", flushed)):
                n += 1
                try:
                    fs2, ev2 = P.resume(start, "p.restart.pt")
                except Raised as e:
                    msgs.append(f"kill before step {j + 1} (checkpoint of step {s_done}, {label}): the resumed run raises {str(e)[:120]}")
                    continue
                got = fs2.content()
                got.pop("p.restart.pt", None)
                d = diff_content(ref, got)
                if d:
                    msgs.append(f"kill before step {j + 1} (checkpoint of step {s_done}, {label}): after run_from_checkpoint the outputs differ from the uninterrupted run at {d}")
                more = [m for m in compare_more(fs2, ev2, out, steps, after=s_done) if m.startswith("screen")]
                msgs.extend(f"resumed from the checkpoint of step {s_done}: {m}" for m in more)
                if len(msgs) > 6:
                    break
            if len(msgs) > 6:
                break
        res.append((t, ck, msgs, n))
    return res


# --------------------------------------------------------------------------------------------------------------------------------------------
# the nonadiabatic stream at writer level (the surface-hopping engine's own gating is judged by the shape-based rules)
# --------------------------------------------------------------------------------------------------------------------------------------------
def interpreted_nonadiabatic_writer(repo, tables=((1, 6), (2, 7), (3, 9), (0, 4), (4, 10))):
    """HDF5Writer is constructed and opened by interpretation with two excited states and a nonadiabatic cadence c; append_nonadiabatic is called (a) for every step 0..N and
    (b) only for the due steps -- in both protocols /data/nonadiabatic must hold exactly the multiples of c, each labelled with its step and holding that step's active
    surface; then a writer reopened with resume=True, step_offset=s on the files of a run that was killed after step j >= s must complete them to the same content.
    [(cadence, steps, messages)]"""
    import ast
    md = repo.mod("seqm/MolecularDynamics.py")
    res = []
    for c, N in tables:
        msgs = []
        output = {"molid": [0, 2], "prefix": "p", "h5": {"nonadiabatic": c, "data": 0}}
        ref = None
        for protocol in ("every step", "due steps only"):
            fs = FileSystem()
            w, I, mol = _open_writer(repo, md, fs, output, N, resume=False, step_offset=0)
            _feed_na(I, md, w, [t for t in range(0, N + 1) if protocol == "every step" or (c > 0 and t % c == 0)])
            m2 = _na_against_spec(fs, output, c, N)
            msgs += [f"({protocol}) {x}" for x in m2]
            if protocol == "every step":
                ref = fs.content()
        if c > 0 and not msgs:
            for s, j in ((c, c), (c, min(N - 1, c + 1)), (1, 2), (2 * c if 2 * c < N else c, N - 1)):
                if not (0 < s <= j < N):
                    continue
                fs = FileSystem()
                w, I, mol = _open_writer(repo, md, fs, output, N, resume=False, step_offset=0)
                _feed_na(I, md, w, list(range(0, j + 1)))
                try:
                    w2, I2, mol2 = _open_writer(repo, md, fs, output, N, resume=True, step_offset=s)
                    _feed_na(I2, md, w2, list(range(s + 1, N + 1)))
                except Raised as e:
                    msgs.append(f"resume at step {s} after a kill at step {j}: {str(e)[:120]}")
                    continue
                d = diff_content(ref, fs.content())
                if d:
                    msgs.append(f"resume at step {s} after a kill at step {j}: nonadiabatic rows differ from the uninterrupted run at {d}")
        res.append((c, N, msgs))
    return res


def _open_writer(repo, md, fs, output, steps, resume, step_offset):
    stubs = {"h5py.File": lambda path, mode="r", **k: fs.opener(path, mode, **k), "_rotate_existing": lambda *a, **k: None,
             "_to_np": lambda x: (x.copy() if isinstance(x, np.ndarray) else x), "torch.is_complex": lambda x: False,
             "active_state_tensor": lambda a, n, dev=None: np.zeros((int(n),), dtype=np.int64) if not isinstance(a, np.ndarray) else a}
    I = NpSym(repo, stubs=stubs, max_steps=2_000_000)
    I.construct_instances = True
    oc = I.call_function(md, md.func("OutputConfig.from_dict"), [ClassRef(md, md.classes["OutputConfig"]), copy.deepcopy(output)])
    w = I.construct(ClassRef(md, md.classes["HDF5Writer"]), [oc, {"method": "AM1"}, sp.Rational(1, 2)], {})
    mol = make_molecule(step_offset)
    I.call_function(md, md.func("HDF5Writer.open"), [w, mol, "p", steps], {"excited_states": NROOTS, "resume": resume, "step_offset": step_offset, "include_initial": step_offset == 0})
    return w, I, mol


def _feed_na(I, md, w, labels):
    nmol = SPECIES.shape[0]
    for t in labels:
        act = np.array([1 + (t + m) % NROOTS for m in range(nmol)], dtype=np.int64)
        amp = np.array([[sp.Integer(21 * 10 ** 6 + t * 1000 + m * 100 + r) for r in range(NROOTS)] for m in range(nmol)], dtype=object)
        nac = np.array([[[sp.Integer(22 * 10 ** 6 + t * 1000 + m * 100 + a * 10 + b) for b in range(NROOTS)] for a in range(NROOTS)] for m in range(nmol)], dtype=object)
        I.call_function(md, md.func("HDF5Writer.append_nonadiabatic"), [w, t], {"active_states": act, "amplitudes": amp, "nac_dot": nac})


def _na_against_spec(fs, output, c, N):
    msgs = []
    want = [t for t in range(0, N + 1) if c > 0 and t % c == 0]
    for mol in output["molid"]:
        cand = [p for p in fs.files if p.endswith(f".{mol}.h5")]
        g = fs.files[cand[0]]._walk("data/nonadiabatic") if len(cand) == 1 else None
        if not want:
            if g is not None and g._walk("steps") is not None and g._walk("steps").data.tolist():
                msgs.append(f"nonadiabatic stream of molecule {mol} is switched off but holds rows")
            continue
        if g is None or g._walk("steps") is None:
            msgs.append(f"nonadiabatic stream of molecule {mol} has cadence {c} but no /data/nonadiabatic/steps")
            continue
        got = g._walk("steps").data.tolist()
        if got != want:
            msgs.append(f"nonadiabatic stream of molecule {mol} (cadence {c}, {N} steps) holds rows labelled {[('unwritten' if x is UNSET else int(x)) for x in got]}, "
                        f"the cadence asks for {want}")
            continue
        surf = g._walk("active_surface")
        if surf is not None:
            exp = [1 + (t + mol) % NROOTS for t in want]
            if [int(x) if x is not UNSET else None for x in surf.data.tolist()] != exp:
                msgs.append(f"nonadiabatic rows of molecule {mol} do not hold the active surface of their labelled steps")
    return msgs


def interpreted_nonadiabatic_engine(repo, tables=((1, 5), (2, 7), (3, 8), (0, 4))):
    """The nonadiabatic stream as the surface-hopping engine feeds it: the top-level statement of NonadiabaticDynamicsBase.initialize that holds the initial
    append_nonadiabatic call and the one of NonadiabaticDynamicsBase._do_integrator_step that holds the per-step call are interpreted (sa.npsym) with an interpreted writer,
    for loop indices i = step_offset .. N-1; /data/nonadiabatic must hold exactly the multiples of the cadence (0 included for a fresh run, not repeated on resume), each row
    labelled with the step whose active surfaces it holds.  [(cadence, steps, messages)]"""
    import ast
    from .loader import callee_attr
    from .npsym import _Frame
    md = repo.mod("seqm/MolecularDynamics.py")
    nad = repo.mod("seqm/NonadiabaticDynamics.py")

    def holder(qual):
        f = nad.func(qual)
        hs = [st for st in f.body if any(isinstance(c, ast.Call) and callee_attr(c) == "append_nonadiabatic" for c in ast.walk(st))]
        if len(hs) != 1:
            raise AnalysisError(f"{qual}: {len(hs)} top-level statements hold an append_nonadiabatic call")
        return hs[0]
    init_st, step_st = holder("NonadiabaticDynamicsBase.initialize"), holder("NonadiabaticDynamicsBase._do_integrator_step")
    nmol = SPECIES.shape[0]

    def state(t):
        amp = np.array([[sp.Integer(21 * 10 ** 6 + t * 1000 + m * 100 + r) for r in range(NROOTS)] for m in range(nmol)], dtype=object)
        nac = np.array([[[sp.Integer(22 * 10 ** 6 + t * 1000 + m * 100 + a * 10 + b) for b in range(NROOTS)] for a in range(NROOTS)] for m in range(nmol)], dtype=object)
        act = np.array([(t + m) % NROOTS for m in range(nmol)], dtype=np.int64)
        return act, amp, nac

    def drive(I, w, step_offset, upto):
        act, amp, nac = state(step_offset)
        selfns = types.SimpleNamespace(step_offset=step_offset, _h5_writer=w, _active_states=act, _coeffs_complex=lambda fr: amp, _cache_old={"nac_dot": nac}, _cache_new=None)
        _Frame(I, nad, {"self": selfns}).stmt(init_st)
        for i in range(step_offset, upto):
            act, amp, nac = state(i + 1)
            selfns._active_states = act
            selfns._coeffs_complex = (lambda a_: (lambda fr: a_))(amp)
            _Frame(I, nad, {"self": selfns, "i": i, "cache_new": {"nac_dot": nac}, "cache_old": {"nac_dot": nac}}).stmt(step_st)
    res = []
    for c, N in tables:
        msgs = []
        output = {"molid": [0, 2], "prefix": "p", "h5": {"nonadiabatic": c, "data": 0}}
        fs = FileSystem()
        w, I, _ = _open_writer(repo, md, fs, output, N, resume=False, step_offset=0)
        drive(I, w, 0, N)
        msgs += _na_against_spec(fs, output, c, N)
        ref = fs.content()
        if c > 0 and not msgs:
            for s, j in ((c, c + 1), (1, 2), (2 * c if 2 * c < N else c, N - 1)):
                if not (0 < s <= j < N):
                    continue
                fs = FileSystem()
                w, I, _ = _open_writer(repo, md, fs, output, N, resume=False, step_offset=0)
                drive(I, w, 0, j)
                try:
                    w2, I2, _ = _open_writer(repo, md, fs, output, N, resume=True, step_offset=s)
                    drive(I2, w2, s, N)
                except Raised as e:
                    msgs.append(f"resume at step {s} after a kill at step {j}: {str(e)[:120]}")
                    continue
                d = diff_content(ref, fs.content())
                if d:
                    msgs.append(f"resume at step {s} after a kill at step {j}: nonadiabatic rows differ from the uninterrupted run at {d}")
        res.append((c, N, msgs))
    return res
