"""Symbolic small systems and textbook NDDO oracles for the assembly routines (used with sa.npsym).

A *system* is a padded batch described the way seqm.basics.Parser describes it (C05-R4 decides Parser's index formulas themselves):
real atoms are numbered consecutively over the batch, `maskd[a]` is the diagonal block of atom a in the (nmol*molsize*molsize, nbf, nbf) block
array, pairs are (a < b) within one molecule with `mask = block(a, b)`, `idxi = a`, `idxj = b`.

Physics embedded in the oracles (and nothing else):
    F_mn (m, n on A)      = H_mn + [one-centre terms] + sum_{B != A} sum_{l, s on B} Ptot_ls (mn|ls)
    F^s_ml (m on A, l on B) = H_ml - sum_{n on A, s on B} P^s_ns (mn|ls)          (restricted: P^s = P/2)
    E_el = 1/2 sum P (H + F)   (restricted),   1/2 sum_s P^s (H + F^s)   (unrestricted)
with (mn|ls) = w[pair, pack(m, n), pack(l, s)], pack(a <= b) = b (b + 1) / 2 + a, the first packed index on atom i of the pair (sp methods)
or on atom j (the d-orbital code path, which stores the transposed convention).
"""
from __future__ import annotations

import types


def pack(a, b):
    a, b = (a, b) if a <= b else (b, a)
    return b * (b + 1) // 2 + a


class System:
    def __init__(self, mol_sizes=(3, 2), molsize=3, nbf=4, tag=""):
        import numpy as np
        import sympy as sp
        self.np, self.sp = np, sp
        self.nmol, self.molsize, self.nbf = len(mol_sizes), molsize, nbf
        self.atoms = [(m, p) for m, k in enumerate(mol_sizes) for p in range(k)]
        self.pairs = [(a, b) for a in range(len(self.atoms)) for b in range(a + 1, len(self.atoms)) if self.atoms[a][0] == self.atoms[b][0]]
        ms = molsize
        self.maskd = np.array([m * ms * ms + p * ms + p for m, p in self.atoms], dtype=np.int64)
        self.mask = np.array([self.atoms[a][0] * ms * ms + self.atoms[a][1] * ms + self.atoms[b][1] for a, b in self.pairs], dtype=np.int64)
        self.mask_l = np.array([self.atoms[a][0] * ms * ms + self.atoms[b][1] * ms + self.atoms[a][1] for a, b in self.pairs], dtype=np.int64)
        self.idxi = np.array([a for a, b in self.pairs], dtype=np.int64)
        self.idxj = np.array([b for a, b in self.pairs], dtype=np.int64)
        self.species = np.zeros((self.nmol, ms), dtype=np.int64)
        for m, p in self.atoms:
            self.species[m, p] = 6
        self.tag = tag

    # ---- symbolic inputs
    def density(self, name):
        """(nmol, N, N) symmetric symbolic density, padding rows included (they must not leak into real blocks)"""
        np, sp = self.np, self.sp
        N = self.molsize * self.nbf
        P = np.empty((self.nmol, N, N), dtype=object)
        for m in range(self.nmol):
            for i in range(N):
                for j in range(N):
                    a, b = min(i, j), max(i, j)
                    P[m, i, j] = sp.Symbol(f"{name}{m}_{a}_{b}")
        return P

    def row(self, atom, orb):
        m, p = self.atoms[atom]
        return m, p * self.nbf + orb

    def blocks(self, name, upper_only_diag=True):
        """(nmol*molsize^2, nbf, nbf) block array: symbols on the diagonal blocks of real atoms (upper triangle) and on the (a<b) pair blocks"""
        np, sp = self.np, self.sp
        M = np.full((self.nmol * self.molsize ** 2, self.nbf, self.nbf), sp.Integer(0), dtype=object)
        for a, blk in enumerate(self.maskd):
            for m in range(self.nbf):
                for n in range(m, self.nbf):
                    M[blk, m, n] = sp.Symbol(f"{name}d{a}_{m}_{n}")
        for k, blk in enumerate(self.mask):
            for m in range(self.nbf):
                for n in range(self.nbf):
                    M[blk, m, n] = sp.Symbol(f"{name}o{k}_{m}_{n}")
        return M

    def pair_tensor(self, name, *shape):
        np, sp = self.np, self.sp
        out = np.empty((len(self.pairs),) + tuple(shape), dtype=object)
        for idx in np.ndindex(*out.shape):
            out[idx] = sp.Symbol(name + "_".join(str(i) for i in idx))
        return out

    def atom_vector(self, name):
        np, sp = self.np, self.sp
        return np.array([sp.Symbol(f"{name}{a}") for a in range(len(self.atoms))], dtype=object)

    # ---- oracle pieces
    def G(self, w, k, mn, ls, first_on="i"):
        """(mn|ls) with m, n on atom i and l, s on atom j of pair k"""
        p, q = pack(*mn), pack(*ls)
        return w[k, p, q] if first_on == "i" else w[k, q, p]

    def P_el(self, P, a, m, b, n):
        ma, ra = self.row(a, m)
        mb, rb = self.row(b, n)
        assert ma == mb
        return P[ma, ra, rb]

    def H_el(self, M, a, m, b, n):
        """element of the symmetric core Hamiltonian represented by the block array M"""
        if a == b:
            m, n = (m, n) if m <= n else (n, m)
            return M[self.maskd[a], m, n]
        if a > b:
            a, m, b, n = b, n, a, m
        k = self.pairs.index((a, b))
        return M[self.mask[k], m, n]

    def one_center(self, a, Ptot_a, Pspin_a, par):
        """sp-shell one-centre two-electron Fock terms of atom a from sa.nddo (Pspin_a None: restricted)"""
        from . import nddo
        sp = self.sp
        gss, gpp, gsp, gp2, hsp = nddo.symbols()
        sub = {gss: par["gss"][a], gpp: par["gpp"][a], gsp: par["gsp"][a], gp2: par["gp2"][a], hsp: par["hsp"][a]}
        if Pspin_a is None:
            F = nddo.fock_restricted(Ptot_a)
        else:
            Pother = [[Ptot_a[i][j] - Pspin_a[i][j] for j in range(4)] for i in range(4)]
            F = nddo.fock_unrestricted(Pspin_a, Pother)
        return [[sp.sympify(F[i][j]).subs(sub, simultaneous=True) for j in range(4)] for i in range(4)]

    def fock_oracle(self, M, w, par, Ptot, Pspin=None, first_on="i", one_center=True):
        """dict {(a, m, b, n): expression} for all real-atom elements with (a, m) <= (b, n) in the same molecule"""
        sp = self.sp
        nbf = self.nbf
        out = {}
        half = sp.Rational(1, 2)
        for a in range(len(self.atoms)):
            oc = None
            if one_center:
                blockT = [[self.P_el(Ptot, a, i, a, j) for j in range(4)] for i in range(4)]
                blockS = None if Pspin is None else [[self.P_el(Pspin, a, i, a, j) for j in range(4)] for i in range(4)]
                oc = self.one_center(a, blockT, blockS, par)
            for m in range(nbf):
                for n in range(m, nbf):
                    tot = self.H_el(M, a, m, a, n)
                    if oc is not None and m < 4 and n < 4:
                        tot += oc[m][n]
                    for k, (i, j) in enumerate(self.pairs):
                        if a not in (i, j):
                            continue
                        b = j if a == i else i
                        for l in range(nbf):
                            for s in range(nbf):
                                g = self.G(w, k, (m, n), (l, s), first_on) if a == i else self.G(w, k, (l, s), (m, n), first_on)
                                tot += self.P_el(Ptot, b, l, b, s) * g
                    out[(a, m, a, n)] = tot
        for k, (i, j) in enumerate(self.pairs):
            for m in range(nbf):
                for l in range(nbf):
                    tot = self.H_el(M, i, m, j, l)
                    for n in range(nbf):
                        for s in range(nbf):
                            pns = self.P_el(Pspin, i, n, j, s) if Pspin is not None else half * self.P_el(Ptot, i, n, j, s)
                            tot -= pns * self.G(w, k, (m, n), (l, s), first_on)
                    out[(i, m, j, l)] = tot
        return out

    def namespace(self, **kw):
        return types.SimpleNamespace(**kw)


def poly_equal(a, b):
    import sympy as sp
    return sp.expand(sp.sympify(a) - sp.sympify(b)) == 0


# ====================================================================================================================
# rules built on the interpreter
FK = "seqm/seqm_functions/fock.py"
FU = "seqm/seqm_functions/fock_u_batch.py"
HC = "seqm/seqm_functions/hcore.py"
EN = "seqm/seqm_functions/energy.py"
AG = "seqm/seqm_functions/anal_grad.py"
PARS = ("gss", "gpp", "gsp", "gp2", "hsp")


def _instance(mod, cls_name, **attrs):
    """an object of a repository class for the interpreter: the given attributes, methods / class constants resolved through the class"""
    from .npsym import Instance
    return Instance(mod, cls_name, **attrs)


def _numeric(arr, rng, cache):
    """replace every symbol of an object array by a random rational (same symbol -> same number)"""
    import numpy as np
    import sympy as sp
    out = arr.copy()
    for idx in np.ndindex(*arr.shape):
        v = arr[idx]
        if isinstance(v, sp.Symbol):
            if v not in cache:
                cache[v] = sp.Rational(rng.randint(-60, 60), rng.randint(1, 9))
            out[idx] = cache[v]
    return out


def _fock_args(func, S, P0, M, w, W, par, method):
    """positional argument list of a Fock builder, by parameter NAME (the two builders share one interface, C06-R6)"""
    vals = {"nmol": S.nmol, "molsize": S.molsize, "P0": P0, "M": M, "maskd": S.maskd, "mask": S.mask, "idxi": S.idxi, "idxj": S.idxj, "w": w, "W": W,
            "gss": par["gss"], "gpp": par["gpp"], "gsp": par["gsp"], "gp2": par["gp2"], "hsp": par["hsp"], "themethod": method}
    from .loader import AnalysisError
    out = []
    for a in func.args.args:
        if a.arg in vals:
            out.append(vals[a.arg])
        elif a.arg in ("zetas", "zetap", "zetad", "Z", "F0SD", "G2SD"):
            out.append(None)
        else:
            raise AnalysisError(f"{func.name}: parameter `{a.arg}` has no meaning known to the assembly oracle")
    return out


def check_fock_assembly(ctx, rid):
    """Both Fock builders, sp basis (symbolic, exact) and spd basis (exact rationals at two random points; the d-shell one-centre W terms are
    switched off), on a padded batch of a 3-atom and a 2-atom molecule, against the textbook NDDO Fock operator."""
    import ast
    import random
    import numpy as np
    import sympy as sp
    from .guards import controlling
    from .loader import AnalysisError, norm
    from .npsym import NpSym
    repo = ctx.repo
    names = "s px py pz dz2 dxz dyz dx2y2 dxy".split()
    for rel, fn, unrestricted in ((FK, "fock", False), (FU, "fock_u_batch", True)):
        mod = repo.mod(rel)
        func = mod.func(fn)
        for method, nbf, first_on, sizes, molsize in (("AM1", 4, "i", (3, 2), 3), ("PM6", 9, "j", (2, 1), 2)):
            if unrestricted and nbf == 9:
                # the open-shell d-orbital path is rejected by the SCF driver before any Fock build; analysed only if that rejection disappears
                sl = repo.mod("seqm/seqm_functions/scf_loop.py")
                drv = sl.func("scf_loop")
                rej = [r for r in ast.walk(drv) if isinstance(r, ast.Raise) and "NotImplementedError" in norm(r)
                       and {norm(a).replace(" ", "") for a, pol, _ in controlling(sl, r) if pol} >= {"molecule.method=='PM6'", "unrestricted"}]
                if rej:
                    ctx.ok(rid, f"{sl.rel}:{rej[0].lineno} scf_loop", "open-shell PM6 is rejected by the SCF driver (NotImplementedError) before any Fock build: fock_u_batch[PM6] is unreachable", nontrivial=False)
                    continue
            S = System(sizes, molsize, nbf)
            npk = nbf * (nbf + 1) // 2
            M, w = S.blocks("h"), S.pair_tensor("w", npk, npk)
            par = {k: S.atom_vector(k) for k in PARS}
            W = None if nbf == 4 else np.full((S.nmol * molsize ** 2, 243), sp.Integer(0), dtype=object)
            if unrestricted:
                Pa, Pb = S.density("a"), S.density("b")
            else:
                Pa, Pb = S.density("p"), None
            trials = [None] if nbf == 4 else [11, 12]
            bad = {}
            n_el = 0
            for seed in trials:
                if seed is None:
                    M_, w_, par_, Pa_, Pb_ = M, w, par, Pa, Pb
                else:
                    rng, cache = random.Random(seed), {}
                    M_, w_, Pa_ = _numeric(M, rng, cache), _numeric(w, rng, cache), _numeric(Pa, rng, cache)
                    Pb_ = _numeric(Pb, rng, cache) if Pb is not None else None
                    par_ = {k: _numeric(v, rng, cache) for k, v in par.items()}
                P0 = np.stack([Pa_, Pb_], axis=1) if unrestricted else Pa_
                I = NpSym(repo)
                F = I.call_function(mod, func, _fock_args(func, S, P0, M_.copy(), w_.copy(), W, par_, method))
                want_shape = (S.nmol, 2, molsize * nbf, molsize * nbf) if unrestricted else (S.nmol, molsize * nbf, molsize * nbf)
                if getattr(F, "shape", None) != want_shape:
                    raise AnalysisError(f"{fn}: result shape {getattr(F, 'shape', None)} instead of {want_shape}")
                for s in ((0, 1) if unrestricted else (None,)):
                    Ptot = Pa_ + Pb_ if unrestricted else Pa_
                    Pspin = None if not unrestricted else (Pa_, Pb_)[s]
                    O = S.fock_oracle(M_, w_, par_, Ptot, Pspin, first_on=first_on)
                    for (a, m, b, n), ex in O.items():
                        ma, ra = S.row(a, m)
                        _, rb = S.row(b, n)
                        up = F[ma, ra, rb] if s is None else F[ma, s, ra, rb]
                        lo = F[ma, rb, ra] if s is None else F[ma, s, rb, ra]
                        n_el += 1
                        if not (poly_equal(up, ex) and poly_equal(lo, ex)):
                            bad.setdefault((a, b), []).append((s, m, n))
            blocks = [(a, a) for a in range(len(S.atoms))] + list(S.pairs)
            for (a, b) in blocks:
                kind = "diagonal block (core + one-centre + Coulomb of all partners)" if a == b else "off-diagonal block (resonance - exchange)"
                where = f"{fn}[{method}] atoms ({a},{b})"
                if (a, b) in bad:
                    s, m, n = bad[(a, b)][0]
                    ctx.fail(rid, mod, func, fn, where,
                             f"{fn} ({method}{', spin ' + 'ab'[s] if s is not None else ''}): Fock element ({names[m]} on atom {a}, {names[n]} on atom {b}) of the padded test batch differs from the NDDO "
                             f"operator F = H + sum P (mn|ls) - {'P^s' if unrestricted else '1/2 P'} (ml|ns) ({len(bad[(a, b)])} elements of this {kind.split(' (')[0]}): the SCF minimises "
                             f"another functional than the published model")
                else:
                    ctx.ok(rid, f"{rel}:{func.lineno} {fn}", f"{where}: {kind} equals the NDDO Fock operator, both triangles" + ("" if nbf == 4 else " (exact rationals, 2 points)"))
            if n_el < 100:
                raise AnalysisError(f"{fn}: only {n_el} Fock elements compared")


def _hcore_namespace(S, method, beta, U, extra=None, far_pair=None):
    import numpy as np
    import sympy as sp
    npairs, na = len(S.pairs), len(S.atoms)
    zero = np.full((na,), sp.Integer(0), dtype=object)
    zs, zp, zd = S.atom_vector("zs"), S.atom_vector("zp"), S.atom_vector("zd")
    pars = {"zeta_s": zs, "zeta_p": zp, "zeta_d": zd, "U_ss": U["U_ss"], "U_pp": U["U_pp"], "U_dd": U.get("U_dd", zero), "beta": beta,
            "g_ss": zero, "g_pp": zero, "g_p2": zero, "h_sp": zero, "F0SD": None, "G2SD": None, "rho_core": None}
    pars.update(extra or {})
    return S.namespace(method=method, const=S.namespace(qn_int=None, qnD_int=None), parameters=pars,
                       xij=np.array([[sp.Symbol(f"x{k}_{c}") for c in range(3)] for k in range(npairs)], dtype=object),
                       rij=np.array([sp.Integer(2 + k) if k != far_pair else sp.Integer(50) for k in range(npairs)], dtype=object),
                       ni=np.full((npairs,), 6), nj=np.full((npairs,), 6), idxi=S.idxi, idxj=S.idxj, Z=np.full((na,), 6), nmol=S.nmol, molsize=S.molsize,
                       maskd=S.maskd, mask=S.mask, alp=None, chi=None, species=S.species)


def _upper(S, name, nbf):
    import sympy as sp
    a = S.pair_tensor(name, nbf, nbf)
    for k in range(len(S.pairs)):
        for m in range(nbf):
            for n in range(m):
                a[k, m, n] = sp.Integer(0)
    return a


def interpret_hcore(repo, S, method, di, e1b, e2a, w, beta, U, extra=None, far_pair=None):
    """the overlap kernel is replaced by a stand-in that (a) checks that it is handed, row by row, the atomic numbers, unit vector, distance and orbital exponents of the
    pair's own two atoms (i first, j second) and only pairs within the overlap cutoff, and (b) returns the symbolic overlap blocks of exactly those pairs"""
    import numpy as np
    import sympy as sp
    from .loader import AnalysisError
    from .npsym import NpSym
    hc = repo.mod(HC)
    problems = []
    mol_box = {}

    def overlap(ni_, nj_, xij_, rij_, za, zb, *rest, **k):
        mol = mol_box["mol"]
        n_all = len(S.pairs)
        rows = [k_ for k_ in range(n_all) if k_ != far_pair]
        if getattr(rij_, "shape", (None,))[0] != len(rows):
            problems.append(f"the overlap kernel receives {getattr(rij_, 'shape', None)} pairs, {len(rows)} are within the cutoff")
            return np.full((getattr(rij_, "shape", (0,))[0], di.shape[1], di.shape[2]), sp.Integer(0), dtype=object)
        nz = 2 if di.shape[1] == 4 else 3
        zt = [mol.parameters["zeta_s"], mol.parameters["zeta_p"], mol.parameters["zeta_d"]][:nz]
        for r_, k_ in enumerate(rows):
            i_, j_ = S.pairs[k_]
            if rij_[r_] != mol.rij[k_] or any(xij_[r_, c] != mol.xij[k_, c] for c in range(3)):
                problems.append(f"row {r_} of the overlap call does not carry the distance / unit vector of pair {k_}")
            if any(za[r_, c] != zt[c][i_] for c in range(nz)) or any(zb[r_, c] != zt[c][j_] for c in range(nz)):
                problems.append(f"row {r_} of the overlap call (pair of atoms {i_},{j_}) receives orbital exponents `{[str(x) for x in za[r_]]}` / `{[str(x) for x in zb[r_]]}` "
                                f"instead of those of atom {i_} / atom {j_}")
            if int(ni_[r_]) != int(mol.ni[k_]) or int(nj_[r_]) != int(mol.nj[k_]):
                problems.append(f"row {r_} of the overlap call receives the atomic numbers of another pair")
        return di[rows].copy()

    def tetci(*a, **k):
        return (w.copy(), e1b.copy(), e2a.copy(), None, None, None, None)
    # the overlap kernel is called through a local alias chosen by method; the integral kernel through its import alias
    imp = [al.asname or al.name for st in hc.tree.body if isinstance(st, __import__("ast").ImportFrom) for al in st.names if al.name == "two_elec_two_center_int"]
    if not imp:
        raise AnalysisError("hcore: import of the two-centre integral kernel not found")
    stubs = {imp[0]: tetci, "two_elec_two_center_int": tetci, "diatom_overlap_matrix_PM6_SP": overlap, "diatom_overlap_matrixD": overlap, "diatom_overlap_matrix": overlap}
    I = NpSym(repo, stubs=stubs)
    mol = _hcore_namespace(S, method, beta, U, extra, far_pair)
    mol.ni = np.array([8 - (a % 3) for a, b in S.pairs], dtype=np.int64)
    mol.nj = np.array([6 - (b % 2) * 5 for a, b in S.pairs], dtype=np.int64)
    mol_box["mol"] = mol
    res = I.call_function(hc, "hcore", [mol])
    if not (isinstance(res, tuple) and len(res) >= 2):
        raise AnalysisError("hcore: result is not (M, w, ...)")
    mol.overlap_problems = problems
    return res[0], res[1], mol


def check_hcore_assembly(ctx, rid):
    """M (block form of the core Hamiltonian): U on the diagonal, core-electron attraction blocks of every partner on the diagonal blocks (e1b on the
    atom whose electrons it describes), 1/2 (beta_m^A + beta_l^B) S_ml on the pair blocks, nothing on padding blocks."""
    import numpy as np
    import sympy as sp
    from .loader import AnalysisError
    repo = ctx.repo
    hc = repo.mod(HC)
    func = hc.func("hcore")
    for method, nbf, sizes, molsize in (("AM1", 4, (3, 2), 3), ("PM6", 9, (2, 1), 2)):
        S = System(sizes, molsize, nbf)
        na = len(S.atoms)
        di = S.pair_tensor("S", nbf, nbf)
        e1b, e2a = _upper(S, "e1b", nbf), _upper(S, "e2a", nbf)
        npk = nbf * (nbf + 1) // 2
        w = S.pair_tensor("w", npk, npk) if nbf == 4 else np.full((len(S.pairs), 1, 1), sp.Integer(0), dtype=object)
        beta = np.array([[sp.Symbol(f"b{x}{a}") for x in ("s", "p", "d")[:2 if nbf == 4 else 3]] for a in range(na)], dtype=object)
        U = {"U_ss": S.atom_vector("Uss"), "U_pp": S.atom_vector("Upp"), "U_dd": S.atom_vector("Udd")}
        M, w_out, molns = interpret_hcore(repo, S, method, di, e1b, e2a, w, beta, U)
        if getattr(M, "shape", None) != (S.nmol * molsize ** 2, nbf, nbf):
            raise AnalysisError(f"hcore: M has shape {getattr(M, 'shape', None)}")
        ctx.check(not molns.overlap_problems, rid, hc, func, "hcore", f"overlap call[{method}]",
                  f"hcore ({method}): the overlap kernel is handed each pair's own atomic numbers, geometry and orbital exponents (atom i first, atom j second)",
                  f"hcore ({method}): {molns.overlap_problems[0] if molns.overlap_problems else ''}: the resonance integrals of that pair are built from another atom's orbitals")
        if nbf == 4 and len(S.pairs) > 1:
            # one pair beyond the overlap cutoff: its block must vanish, the others must be unchanged (and still receive their own arguments)
            far = len(S.pairs) - 1
            M2, _, molns2 = interpret_hcore(repo, S, method, di, e1b, e2a, w, beta, U, far_pair=far)
            okf = not molns2.overlap_problems and all(M2[int(S.mask[far]), m_, n_] == 0 for m_ in range(nbf) for n_ in range(nbf)) and \
                all(poly_equal(M2[int(S.mask[k_]), m_, n_], M[int(S.mask[k_]), m_, n_]) for k_ in range(far) for m_ in range(nbf) for n_ in range(nbf))
            ctx.check(okf, rid, hc, func, "hcore", f"pair beyond overlap_cutoff[{method}]",
                      f"hcore ({method}): with one pair beyond the overlap cutoff that pair's resonance block vanishes and every other pair is evaluated exactly as before",
                      f"hcore ({method}): with one pair beyond the overlap cutoff " + (molns2.overlap_problems[0] if molns2.overlap_problems else "the resonance blocks of the near pairs change or the far block does not vanish")
                      + ": a far-away atom changes the interaction of near pairs")
        shell = lambda m: 0 if m == 0 else 1 if m < 4 else 2
        bad = []
        seen = set()
        for a in range(na):
            blk = int(S.maskd[a])
            seen.add(blk)
            for m in range(nbf):
                for n in range(nbf):
                    want = sp.Integer(0)
                    if m == n:
                        want += (U["U_ss"], U["U_pp"], U["U_dd"])[shell(m)][a]
                    for k, (i, j) in enumerate(S.pairs):
                        # sp code: e1b belongs to atom i, e2a to atom j; the d-orbital kernel returns them the other way round
                        mine = (e1b if a == i else e2a if a == j else None) if nbf == 4 else (e2a if a == i else e1b if a == j else None)
                        if mine is not None:
                            want += mine[k, m, n]
                    if not poly_equal(M[blk, m, n], want):
                        bad.append(("diagonal", a, a, m, n, M[blk, m, n], want))
        for k, (i, j) in enumerate(S.pairs):
            blk = int(S.mask[k])
            seen.add(blk)
            for m in range(nbf):
                for n in range(nbf):
                    want = sp.Rational(1, 2) * (beta[i, shell(m)] + beta[j, shell(n)]) * di[k, m, n]
                    if not poly_equal(M[blk, m, n], want):
                        bad.append(("pair", i, j, m, n, M[blk, m, n], want))
        for blk in range(M.shape[0]):
            if blk not in seen and any(x != 0 for x in M[blk].reshape(-1)):
                bad.append(("padding / lower", blk, blk, 0, 0, "non-zero", 0))
        ctx.check(not bad, rid, hc, func, "hcore", f"M[{method}]",
                  f"hcore ({method}): diagonal blocks = U + sum of the partners' core-electron attraction, pair blocks = 1/2 (beta_A + beta_B) S, padding and lower blocks empty "
                  f"({na} atoms, {len(S.pairs)} pairs, {nbf} orbitals)",
                  (f"hcore ({method}): {bad[0][0]} block of atoms ({bad[0][1]},{bad[0][2]}), element ({bad[0][3]},{bad[0][4]}) is `{str(bad[0][5])[:120]}` instead of `{str(bad[0][6])[:120]}` "
                   f"({len(bad)} wrong elements): the one-electron Hamiltonian is not the published one") if bad else "")
        ctx.check(w_out is not None and getattr(w_out, "shape", None) == w.shape and all(poly_equal(x, y) for x, y in zip(w_out.reshape(-1), w.reshape(-1))), rid, hc, func, "hcore", f"w[{method}]",
                  f"hcore ({method}) hands the two-centre integrals through unchanged", "hcore modifies the two-centre integrals it returns")
    # Kbeta (pair-specific resonance scaling) multiplies exactly the four shell blocks
    S = System((2,), 2, 4)
    di = S.pair_tensor("S", 4, 4)
    beta = np.array([[sp.Symbol(f"bs{a}"), sp.Symbol(f"bp{a}")] for a in range(2)], dtype=object)
    U = {"U_ss": S.atom_vector("Uss"), "U_pp": S.atom_vector("Upp")}
    Kb = np.array([[sp.Symbol(f"K{c}") for c in range(4)]], dtype=object)
    try:
        M, _, _ = interpret_hcore(repo, S, "AM1", di, _upper(S, "e1b", 4), _upper(S, "e2a", 4), S.pair_tensor("w", 10, 10), beta, U, extra={"Kbeta": Kb})
        kb = [[Kb[0, 0] if (m == 0 and n == 0) else Kb[0, 1] if m == 0 else Kb[0, 2] if n == 0 else Kb[0, 3] for n in range(4)] for m in range(4)]
        okk = all(poly_equal(M[int(S.mask[0]), m, n], sp.Rational(1, 2) * (beta[0, min(m, 1)] + beta[1, min(n, 1)]) * di[0, m, n] * kb[m][n]) for m in range(4) for n in range(4))
    except AnalysisError as e:
        okk = False
    ctx.check(okk, rid, hc, func, "hcore", "Kbeta", "pair-specific resonance scaling Kbeta multiplies the (ss, sp, ps, pp) shell blocks of the pair block",
              "Kbeta does not scale the four shell blocks of the resonance term as (ss, sp, ps, pp)")


def check_gradient_contraction(ctx, rid):
    """End to end, restricted and unrestricted: contract_ao_derivatives_with_density(P, dS, de1b, de2a, dw) must be the derivative of the energy the package
    itself reports -- elec_energy(P, fock(P, hcore(S, e1b, e2a), w)) with every integral replaced by its derivative and the geometry-independent
    one-centre parameters dropped (the energy is linear in the integrals at fixed density; Hellmann-Feynman at the converged density) -- scattered as
    +dE/d(pair) on atom i and -dE/d(pair) on atom j.  The identity is polynomial (degree 2 in P, 1 in the integrals); it is decided with exact rational
    arithmetic at random points (two per spin treatment, different integral derivatives for the three directions) on a padded batch of a 3-atom and a
    2-atom molecule, every routine being interpreted from its source by sa.npsym."""
    import ast
    import random
    import numpy as np
    import sympy as sp
    from .loader import AnalysisError
    from .npsym import NpSym, _Frame
    repo = ctx.repo
    ag, fk, fu, en = repo.mod(AG), repo.mod(FK), repo.mod(FU), repo.mod(EN)
    S = System((3, 2), 3, 4)
    npairs, na = len(S.pairs), len(S.atoms)
    zero = np.full((na,), sp.Integer(0), dtype=object)
    U = {"U_ss": zero, "U_pp": zero}
    par0 = {k: zero for k in PARS}
    N = S.molsize * 4
    f_ov = ag.func("overlap_der_finiteDiff")
    tail = [st for st in f_ov.body if isinstance(st, ast.AugAssign) and isinstance(st.target, ast.Subscript) and isinstance(st.op, ast.Mult)]
    pnames = [a.arg for a in f_ov.args.args]
    if len(tail) < 4 or not pnames or "beta" not in pnames or "idxi" not in pnames:
        raise AnalysisError("overlap_der_finiteDiff: resonance scaling of the overlap derivative not found")
    con = ag.func("contract_ao_derivatives_with_density")
    n_cmp = 0
    for unrestricted, seed in ((False, 31), (False, 32), (True, 33), (True, 34)):
        rng, cache = random.Random(seed), {}
        I = NpSym(repo)
        beta = _numeric(np.array([[sp.Symbol(f"bs{a}"), sp.Symbol(f"bp{a}")] for a in range(na)], dtype=object), rng, cache)
        if unrestricted:
            P0 = np.stack([_numeric(S.density("a"), rng, cache), _numeric(S.density("b"), rng, cache)], axis=1)
        else:
            P0 = _numeric(S.density("p"), rng, cache)
        # derivative integrals: one independent set per Cartesian direction
        dS = [_numeric(S.pair_tensor(f"dS{d}_", 4, 4), rng, cache) for d in range(3)]
        de1b = [_numeric(_upper(S, f"de1b{d}_", 4), rng, cache) for d in range(3)]
        de2a = [_numeric(_upper(S, f"de2a{d}_", 4), rng, cache) for d in range(3)]
        dw = [_numeric(S.pair_tensor(f"dw{d}_", 10, 10), rng, cache) for d in range(3)]

        def only(arr, k):
            out = arr.copy()
            for q in range(npairs):
                if q != k:
                    out[q] = sp.Integer(0)
            return out
        # energy route: dE_el / d(integrals of pair k) in direction d
        D = [[None] * 3 for _ in range(npairs)]
        for k in range(npairs):
            for d in range(3):
                M, w, mol = interpret_hcore(repo, S, "AM1", only(dS[d], k), only(de1b[d], k), only(de2a[d], k), only(dw[d], k), beta, U)
                Hfull = M.reshape(S.nmol, S.molsize, S.molsize, 4, 4).swapaxes(2, 3).reshape(S.nmol, N, N)
                if unrestricted:
                    F = I.call_function(fu, "fock_u_batch", _fock_args(fu.func("fock_u_batch"), S, P0, M.copy(), w.copy(), None, par0, "AM1"))
                else:
                    F = I.call_function(fk, "fock", _fock_args(fk.func("fock"), S, P0, M.copy(), w.copy(), None, par0, "AM1"))
                E = I.call_function(en, "elec_energy", [P0, F, Hfull.copy()])
                if getattr(E, "shape", None) != (S.nmol,):
                    raise AnalysisError("elec_energy: result is not one energy per molecule")
                D[k][d] = sp.Add(*[sp.sympify(x) for x in E])
        # gradient route
        ov = np.stack(dS, axis=1)
        fr = _Frame(I, ag, {pnames[0]: ov, "beta": beta, "idxi": S.idxi, "idxj": S.idxj})
        fr.block(tail)
        e1, e2, wx = np.stack(de1b, axis=1), np.stack(de2a, axis=1), np.stack(dw, axis=1)
        pg = np.full((npairs, 3), sp.Integer(0), dtype=object)
        vals = {"P0": P0, "molecule": mol, "molsize": S.molsize, "overlap_KAB_x": ov, "e1b_x": e1, "e2a_x": e2, "w_x": wx, "pair_grad": pg, "mask": S.mask, "maskd": S.maskd,
                "idxi": S.idxi, "idxj": S.idxj}
        try:
            args = [vals[a.arg] for a in con.args.args]
        except KeyError as e:
            raise AnalysisError(f"contract_ao_derivatives_with_density: parameter {e} unknown")
        g = I.call_function(ag, con, args)
        if getattr(g, "shape", None) != (S.nmol, S.molsize, 3):
            raise AnalysisError("contract_ao_derivatives_with_density: result is not (nmol, molsize, 3)")
        tag = ("UHF" if unrestricted else "RHF") + f" point #{seed}"
        for a, (m, p) in enumerate(S.atoms):
            wants = [sum((D[k][d] for k, (i, j) in enumerate(S.pairs) if i == a), sp.Integer(0)) - sum((D[k][d] for k, (i, j) in enumerate(S.pairs) if j == a), sp.Integer(0)) for d in range(3)]
            oks = [sp.sympify(g[m, p, d]) == wants[d] for d in range(3)]
            n_cmp += 3
            b = oks.index(False) if not all(oks) else 0
            ctx.check(all(oks), rid, ag, con, "contract_ao_derivatives_with_density", f"{tag} atom {a}",
                      f"{tag}: gradient on atom {a} of the padded test batch = sum over its pairs of +-dE_el/d(pair integrals) of the package's own energy functional, all three components (exact rationals)",
                      f"{tag}: the analytical gradient on atom {a} (component {b}) is {sp.N(g[m, p, b], 12)} but the derivative of elec_energy(fock(hcore)) at fixed density is {sp.N(wants[b], 12)}: "
                      f"{'open-shell' if unrestricted else 'closed-shell'} analytical forces are not minus the gradient of the reported energy")
        pads = [(m, p) for m in range(S.nmol) for p in range(S.molsize) if (m, p) not in S.atoms]
        ctx.check(all(g[m, p, d] == 0 for (m, p) in pads for d in range(3)), rid, ag, con, "contract_ao_derivatives_with_density", f"{tag} padding",
                  f"{tag}: padding atoms receive exactly zero gradient", f"{tag}: padding atoms receive a non-zero gradient")
    if n_cmp < 60:
        raise AnalysisError("gradient contraction: too few comparisons")


# ====================================================================================================================
# CIS / RPA response operator
RC = "seqm/seqm_functions/rcis_batch.py"


class UniformBatch(System):
    """nmol identical molecules: `heavy` heavy atoms followed by `hydro` hydrogens (the layout the excited-state code requires)"""
    def __init__(self, nmol=2, heavy=2, hydro=1):
        super().__init__(tuple([heavy + hydro] * nmol), heavy + hydro, 4)
        self.heavy, self.hydro = heavy, hydro
        self.norb = 4 * heavy + hydro
        self.npm = (self.molsize * (self.molsize - 1)) // 2
        # packed AO list of one molecule: (position in molecule, orbital)
        self.aos = [(p, o) for p in range(heavy) for o in range(4)] + [(heavy + h, 0) for h in range(hydro)]

    def eri(self, b, w, par):
        """(mn|ls) over the packed AOs of molecule b from the two-centre array w[(b, pair)] and the one-centre parameters (sa.nddo)"""
        import sympy as sp
        from . import nddo
        gss, gpp, gsp, gp2, hsp = nddo.symbols()
        ms = self.molsize
        pairs_local = [(i, j) for i in range(ms) for j in range(i + 1, ms)]

        def g(mu, nu, la, si):
            (pa, m), (pb, n), (pc, l), (pd, s) = self.aos[mu], self.aos[nu], self.aos[la], self.aos[si]
            if pa != pb or pc != pd:
                return sp.Integer(0)
            if pa == pc:
                a = b * ms + pa
                sub = {gss: par["g_ss"][a], gpp: par["g_pp"][a], gsp: par["g_sp"][a], gp2: par["g_p2"][a], hsp: par["h_sp"][a]}
                return sp.sympify(nddo.integral(m, n, l, s)).subs(sub, simultaneous=True)
            if pa < pc:
                k = pairs_local.index((pa, pc))
                return w[b * self.npm + k, pack(m, n), pack(l, s)]
            k = pairs_local.index((pc, pa))
            return w[b * self.npm + k, pack(l, s), pack(m, n)]
        return g

    def G(self, b, T, w, par):
        """G[T]_mn = sum_ls T_ls [(mn|ls) - 1/2 (ml|ns)] for an arbitrary (non-symmetric) T over the packed AOs"""
        import sympy as sp
        g = self.eri(b, w, par)
        n = self.norb
        cache = {}

        def gg(a, b_, c, d):
            key = (a, b_, c, d)
            if key not in cache:
                cache[key] = g(a, b_, c, d)
            return cache[key]
        out = [[None] * n for _ in range(n)]
        half = sp.Rational(1, 2)
        for mu in range(n):
            for nu in range(n):
                terms = []
                for la in range(n):
                    for si in range(n):
                        c = gg(mu, nu, la, si) - half * gg(mu, la, nu, si)
                        if c != 0:
                            terms.append(c * T[la][si])
                out[mu][nu] = sp.Add(*terms)
        return out


def check_cis_operator(ctx, rid):
    """The operator whose eigenpairs the Davidson drivers return.  On a uniform batch of two (heavy, heavy, H) molecules with exact random rational integrals,
    orbitals and amplitudes: makeA_pi_batched(T) = J[T] - 1/2 K[T] for a non-symmetric transition density T (as polynomials in the entries of T), and
    matrix_vector_product_batched = (e_a - e_i) V + 2 C_occ^T G[C_occ V C_virt^T] C_virt (A) resp. the transposed contraction (B), in the chunked and the
    unchunked schedule."""
    import random
    import numpy as np
    import sympy as sp
    from .loader import AnalysisError
    from .npsym import NpSym
    repo = ctx.repo
    rc = repo.mod(RC)
    U = UniformBatch(2, 2, 1)
    na = len(U.atoms)
    f_pi = rc.func("makeA_pi_batched")
    f_mv = rc.func("matrix_vector_product_batched")
    for seed in (51, 52):
        rng, cache = random.Random(seed), {}
        w = _numeric(np.array([[[sp.Symbol(f"w{k}_{a}_{b}") for b in range(10)] for a in range(10)] for k in range(U.nmol * U.npm)], dtype=object), rng, cache)
        par = {k: _numeric(U.atom_vector(k), rng, cache) for k in ("g_ss", "g_pp", "g_sp", "g_p2", "h_sp")}
        # hydrogens carry no p shell: their p-type parameters are zero in the parameter tables
        for a, (m, p) in enumerate(U.atoms):
            if p >= U.heavy:
                for k in ("g_pp", "g_sp", "g_p2", "h_sp"):
                    par[k][a] = sp.Integer(0)
        mol = U.namespace(nmol=U.nmol, molsize=U.molsize, mask=U.mask, maskd=U.maskd, mask_l=U.mask_l, idxi=U.idxi, idxj=U.idxj,
                          nHeavy=np.array([U.heavy] * U.nmol), nHydro=np.array([U.hydro] * U.nmol), norb=np.array([U.norb] * U.nmol), parameters=par)
        nroots = 2
        T = None if seed != 51 else np.array([[[[sp.Symbol(f"T{b}_{r}_{i}_{j}") for j in range(U.norb)] for i in range(U.norb)] for r in range(nroots)] for b in range(U.nmol)], dtype=object)
        I = NpSym(repo)
        F0 = I.call_function(rc, f_pi, [mol, T.copy(), w.copy()]) if T is not None else None
        if T is not None and getattr(F0, "shape", None) != (U.nmol, nroots, U.norb, U.norb):
            raise AnalysisError("makeA_pi_batched: unexpected result shape")
        bad = []
        for b in range(U.nmol if T is not None else 0):
            for r in range(nroots):
                want = U.G(b, T[b, r].tolist(), w, par)
                for i in range(U.norb):
                    for j in range(U.norb):
                        if sp.expand(F0[b, r, i, j] - want[i][j]) != 0:
                            bad.append((b, r, i, j))
        if T is not None:
          ctx.check(not bad, rid, rc, f_pi, "makeA_pi_batched", f"G[T] point #{seed}",
                    f"two-electron response of a non-symmetric transition density: makeA_pi_batched(T) = J[T] - 1/2 K[T] for every entry of T "
                    f"({U.nmol} molecules x {nroots} roots x {U.norb}^2 elements, hydrogen packing included)",
                    (f"makeA_pi_batched: element ({bad[0][2]},{bad[0][3]}) of molecule {bad[0][0]}, root {bad[0][1]} is not sum_ls T_ls [(mn|ls) - 1/2 (ml|ns)] ({len(bad)} wrong elements): the "
                     f"matrix whose eigenpairs are returned is not the CIS / RPA Hamiltonian") if bad else "")
        # full matrix-vector product, both schedules
        nocc, nvirt = 2, 3
        rnd = lambda *shape: _numeric(np.array([sp.Symbol(f"x{rng.random()}") for _ in range(int(np.prod(shape)))], dtype=object).reshape(shape), rng, cache)
        Cocc, Cvirt, V, ea_ei = rnd(U.nmol, U.norb, nocc), rnd(U.nmol, U.norb, nvirt), rnd(U.nmol, nroots, nocc * nvirt), rnd(U.nmol, nocc, nvirt)
        want_A = np.empty((U.nmol, nroots, nocc, nvirt), dtype=object)
        want_B = np.empty_like(want_A)
        for b in range(U.nmol):
            for r in range(nroots):
                Vr = V[b, r].reshape(nocc, nvirt)
                Tn = [[sp.Add(*[Cocc[b, m, i] * Vr[i, a] * Cvirt[b, n, a] for i in range(nocc) for a in range(nvirt)]) for n in range(U.norb)] for m in range(U.norb)]
                Gm = U.G(b, Tn, w, par)
                for i in range(nocc):
                    for a in range(nvirt):
                        want_A[b, r, i, a] = ea_ei[b, i, a] * Vr[i, a] + 2 * sp.Add(*[Cocc[b, m, i] * Gm[m][n] * Cvirt[b, n, a] for m in range(U.norb) for n in range(U.norb)])
                        want_B[b, r, i, a] = 2 * sp.Add(*[Cocc[b, m, i] * Gm[n][m] * Cvirt[b, n, a] for m in range(U.norb) for n in range(U.norb)])
        for sched, ret in (("unchunked", (False, nroots)), ("chunked", (True, 1))):
            I = NpSym(repo, stubs={"getMemUse": lambda *a, **k: ret})
            res = I.call_function(rc, f_mv, [mol, V.copy(), w.copy(), ea_ei.copy(), Cocc.copy(), Cvirt.copy()], {"makeB": True})
            if not (isinstance(res, tuple) and len(res) == 2):
                raise AnalysisError("matrix_vector_product_batched(makeB=True) does not return (A, B)")
            A, B = res
            okA = A.shape == (U.nmol, nroots, nocc * nvirt) and all(sp.sympify(x) == y for x, y in zip(A.reshape(-1), want_A.reshape(-1)))
            okB = B.shape == (U.nmol, nroots, nocc * nvirt) and all(sp.sympify(x) == y for x, y in zip(B.reshape(-1), want_B.reshape(-1)))
            ctx.check(okA, rid, rc, f_mv, "matrix_vector_product_batched", f"A V ({sched}) point #{seed}",
                      f"A V = (e_a - e_i) V + sum_jb [2 (ia|jb) - (ij|ab)] V_jb in the {sched} schedule (exact rationals)",
                      f"matrix_vector_product_batched ({sched} schedule): A V differs from the singlet CIS Hamiltonian applied to V: the returned excitation energies are eigenvalues of another matrix")
            ctx.check(okB, rid, rc, f_mv, "matrix_vector_product_batched", f"B V ({sched}) point #{seed}",
                      f"B V = sum_jb [2 (ia|bj) - (ib|aj)] V_jb in the {sched} schedule (exact rationals)",
                      f"matrix_vector_product_batched ({sched} schedule): B V differs from the RPA coupling matrix applied to V")
            A_only = I.call_function(rc, f_mv, [mol, V.copy(), w.copy(), ea_ei.copy(), Cocc.copy(), Cvirt.copy()])
            ctx.check(getattr(A_only, "shape", None) == A.shape and all(sp.sympify(x) == sp.sympify(y) for x, y in zip(A_only.reshape(-1), A.reshape(-1))), rid, rc, f_mv,
                      "matrix_vector_product_batched", f"A V without B ({sched}) point #{seed}", "the CIS call (makeB=False) returns the same A V", "A V depends on whether B is requested")


# ====================================================================================================================
# energy bookkeeping (energy.py), interpreted
def check_energy_functions(ctx, rid, which=("total", "heat", "elec", "xl", "iso")):
    """The small energy routines are interpreted by sa.npsym on symbolic inputs (a batch of a 3-atom and a 2-atom molecule) and compared with their definitions:
       total_energy:  Etot_m = Eelec_m + sum_{pairs of m} EnucAB,  returned as (Etot, Enuc);
       heat_formation: Hf_m = Etot_m - sum_{atoms of m} Eiso_a (+ sum eheat[Z_a] under the flag), second result = sum Eiso;
       elec_energy:   1/2 sum P (h + F) closed shell, 1/2 sum [(Pa + Pb) h + Pa Fa + Pb Fb] open shell, h = symmetrised upper triangle of Hcore (or Hcore itself with doTriu=False);
       elec_energy_xl: sum [D F - 1/2 (F - h) P], equal to elec_energy at D = P;
       elec_energy_isolated_atom: sum over the seven parameters of parameter * its own occupation-coefficient table at Z."""
    import numpy as np
    import sympy as sp
    from .loader import AnalysisError
    from .npsym import NpSym
    repo = ctx.repo
    en = repo.mod(EN)
    vec = lambda name, n: np.array([sp.Symbol(f"{name}{i}") for i in range(n)], dtype=object)
    I = NpSym(repo)
    eq = lambda a, b: sp.expand(sp.sympify(a) - sp.sympify(b)) == 0
    # two padded batches: (3, 2) atoms, and (3, 1) atoms -- unequal molecules whose atom count is a multiple of the batch size (4 = 2 x 2), so that any
    # "reshape(nmol, -1)" shortcut keyed on divisibility regroups atoms across molecules
    for sizes in ((3, 2), (3, 1)) if ({"total", "heat"} & set(which)) else ():
      S = System(sizes, 3, 4)
      na, npairs = len(S.atoms), len(S.pairs)
      atom_molid = np.array([m for m, p in S.atoms], dtype=np.int64)
      pair_molid = np.array([S.atoms[a][0] for a, b in S.pairs], dtype=np.int64)
      if "total" in which:
          f = en.func("total_energy")
          Enuc_ab, Eelec = vec("Enuc", npairs), vec("Eel", S.nmol)
          vals = {"nmol": S.nmol, "pair_molid": pair_molid, "EnucAB": Enuc_ab, "Eelec": Eelec}
          res = I.call_function(en, f, [vals[a.arg] for a in f.args.args])
          ok = isinstance(res, tuple) and len(res) == 2 and all(getattr(x, "shape", None) == (S.nmol,) for x in res)
          if ok:
              for m in range(S.nmol):
                  nuc = sp.Add(*[Enuc_ab[k] for k in range(npairs) if pair_molid[k] == m])
                  ok = ok and eq(res[0][m], Eelec[m] + nuc) and eq(res[1][m], nuc)
          ctx.check(ok, rid, en, f, "total_energy", "Etot = Eelec + Enuc", "total_energy returns (Eelec + sum over the molecule's own pairs of EnucAB, that sum) for every molecule of the test batch",
                    "total_energy does not return (Eelec + sum of the molecule's pair repulsions, that sum): total energy and its nuclear part disagree")
    if "heat" in which:
          f = en.func("heat_formation")
          Etot, Eiso = vec("Etot", S.nmol), vec("Eiso", na)
          Z = np.array([8, 6, 1, 7, 1], dtype=np.int64)[:na]
          eheat = vec("eheat", 10)
          const = S.namespace(eheat=eheat)
          for flag in (True, False):
              vals = {"const": const, "nmol": S.nmol, "atom_molid": atom_molid, "Z": Z, "Etot": Etot, "Eiso": Eiso, "flag": flag}
              res = I.call_function(en, f, [vals[a.arg] for a in f.args.args])
              ok = isinstance(res, tuple) and len(res) == 2 and all(getattr(x, "shape", None) == (S.nmol,) for x in res)
              if ok:
                  for m in range(S.nmol):
                      iso = sp.Add(*[Eiso[a] for a in range(na) if atom_molid[a] == m])
                      heat = sp.Add(*[eheat[Z[a]] for a in range(na) if atom_molid[a] == m])
                      ok = ok and eq(res[0][m], Etot[m] - iso + (heat if flag else 0)) and eq(res[1][m], iso)
              ctx.check(ok, rid, en, f, "heat_formation", f"Hf (flag={flag})", f"Hf = Etot - sum of the molecule's own Eiso{' + sum of its eheat[Z]' if flag else ''}; second result = sum Eiso",
                        f"heat_formation(flag={flag}) is not Etot - sum Eiso{' + sum eheat' if flag else ''} over the molecule's own atoms")

    if "elec" in which or "xl" in which:
        N = 3
        sym = lambda name: np.array([[[sp.Symbol(f"{name}{b}_{i}_{j}") for j in range(N)] for i in range(N)] for b in range(2)], dtype=object)
        P, F, H, D = sym("P"), sym("F"), sym("H"), sym("D")
        hs = H.copy()
        for b in range(2):
            for i in range(N):
                for j in range(i):
                    hs[b, i, j] = H[b, j, i]
    if "elec" in which:
        f = en.func("elec_energy")
        res = I.call_function(en, f, [P.copy(), F.copy(), H.copy()])
        want = [sp.Rational(1, 2) * sp.Add(*[P[b, i, j] * (hs[b, i, j] + F[b, i, j]) for i in range(N) for j in range(N)]) for b in range(2)]
        ok = getattr(res, "shape", None) == (2,) and all(eq(res[b], want[b]) for b in range(2))
        ctx.check(ok, rid, en, f, "elec_energy", "closed shell", "closed-shell Eelec = 1/2 sum P (h + F) with h the symmetrised upper triangle of Hcore", "closed-shell electronic energy is not 1/2 sum P (h + F)")
        res = I.call_function(en, f, [P.copy(), F.copy(), H.copy()], {"doTriu": False})
        want2 = [sp.Rational(1, 2) * sp.Add(*[P[b, i, j] * (H[b, i, j] + F[b, i, j]) for i in range(N) for j in range(N)]) for b in range(2)]
        ctx.check(getattr(res, "shape", None) == (2,) and all(eq(res[b], want2[b]) for b in range(2)), rid, en, f, "elec_energy", "doTriu=False", "with doTriu=False Hcore is used as given",
                  "elec_energy(doTriu=False) does not use Hcore as given")
        Pa, Pb, Fa, Fb = sym("Pa"), sym("Pb"), sym("Fa"), sym("Fb")
        res = I.call_function(en, f, [np.stack([Pa, Pb], axis=1), np.stack([Fa, Fb], axis=1), H.copy()])
        want3 = [sp.Rational(1, 2) * sp.Add(*[(Pa[b, i, j] + Pb[b, i, j]) * hs[b, i, j] + Pa[b, i, j] * Fa[b, i, j] + Pb[b, i, j] * Fb[b, i, j] for i in range(N) for j in range(N)]) for b in range(2)]
        ctx.check(getattr(res, "shape", None) == (2,) and all(eq(res[b], want3[b]) for b in range(2)), rid, en, f, "elec_energy", "open shell",
                  "open-shell Eelec = 1/2 sum [(Pa + Pb) h + Pa Fa + Pb Fb]", "open-shell electronic energy is not 1/2 sum [(Pa + Pb) h + Pa Fa + Pb Fb]")
    if "xl" in which:
        f = en.func("elec_energy_xl")
        res = I.call_function(en, f, [D.copy(), P.copy(), F.copy(), H.copy()])
        want = [sp.Add(*[D[b, i, j] * F[b, i, j] - sp.Rational(1, 2) * (F[b, i, j] - hs[b, i, j]) * P[b, i, j] for i in range(N) for j in range(N)]) for b in range(2)]
        ok = getattr(res, "shape", None) == (2,) and all(eq(res[b], want[b]) for b in range(2))
        ctx.check(ok, rid, en, f, "elec_energy_xl", "E(D,P)", "E(D,P) = sum [D F - 1/2 (F - h) P] (shadow functional), h symmetrised as in elec_energy", "shadow energy is not sum [D F - 1/2 (F - h) P]")
        res2 = I.call_function(en, f, [P.copy(), P.copy(), F.copy(), H.copy()])
        res3 = I.call_function(en, en.func("elec_energy"), [P.copy(), F.copy(), H.copy()])
        ctx.check(all(eq(res2[b], res3[b]) for b in range(2)), rid, en, f, "elec_energy_xl", "D = P", "E(D,P) at D = P equals the closed-shell SCF energy of elec_energy",
                  "shadow energy does not reduce to the SCF energy at D = P")
    if "iso" in which:
        f = en.func("elec_energy_isolated_atom")
        names = ("uss", "upp", "gss", "gpp", "gsp", "gp2", "hsp")
        Z = np.array([8, 6, 1], dtype=np.int64)
        tabs = {n: np.array([sp.Symbol(f"{n}c{z}") for z in range(10)], dtype=object) for n in names}
        const = types.SimpleNamespace(**{n + "c": tabs[n] for n in names})
        par = {n: vec(n, 3) for n in names}
        vals = dict(par, const=const, Z=Z)
        try:
            args = [vals[a.arg] for a in f.args.args]
        except KeyError as e:
            raise AnalysisError(f"elec_energy_isolated_atom: parameter {e} unknown")
        res = I.call_function(en, f, args)
        ok = getattr(res, "shape", None) == (3,) and all(eq(res[a], sp.Add(*[par[n][a] * tabs[n][Z[a]] for n in names])) for a in range(3))
        ctx.check(ok, rid, en, f, "elec_energy_isolated_atom", "Eiso", "Eiso = sum over the seven one-centre parameters of parameter * its own occupation-coefficient table at Z",
                  "isolated-atom energy pairs a parameter with another parameter's occupation coefficients (or drops a term)")


# ====================================================================================================================
# reported charges and dipole
def _lca_block(mod, func, stores):
    """(block list, first index, last index) of the smallest statement range of one block of `func` that contains all `stores`"""
    def chain(n):
        out = []
        cur = n
        while cur is not None and cur is not func:
            out.append(cur)
            cur = mod.parents.get(cur)
        return list(reversed(out))
    chains = [chain(s) for s in stores]
    depth = 0
    while all(len(c) > depth + 1 for c in chains) and len({id(c[depth]) for c in chains}) == 1:
        depth += 1
    from .loader import AnalysisError
    while depth >= 0:
        parent = mod.parents.get(chains[0][depth]) if depth > 0 else func
        for fld in ("body", "orelse", "finalbody"):
            blk = getattr(parent, fld, None)
            if isinstance(blk, list) and all(any(c[depth] is st for st in blk) for c in chains):
                idx = sorted({i for i, st in enumerate(blk) for c in chains if c[depth] is st})
                return blk, idx[0], idx[-1]
        depth -= 1          # the statements sit in different blocks of one compound statement: take that statement itself
    raise AnalysisError(f"{func.name}: statements are not in one block")


def check_charges_and_dipole(ctx, rid, parts=("charges", "dipole")):
    """Reported observables of the reported density, interpreted by sa.npsym on a padded batch (3-atom and 2-atom molecule):
       q_a = Z_core(a) - sum of the atom's diagonal elements of the total density (closed / open shell, 4 / 9 orbitals per atom);
       dipole_m = [sum_a Z_core(a) R_a - sum_a (sum_i P_ii R_a + 2 P_{s,p_d} D_a)] * to_debye * debye_to_AU, same core charges, closed and open shell."""
    import ast
    import numpy as np
    import sympy as sp
    from .loader import AnalysisError, norm
    from .npsym import NpSym, _Frame, FuncRef
    repo = ctx.repo
    es = repo.mod("seqm/ElectronicStructure.py")
    ef = es.func("Electronic_Structure.forward")
    stores = [st for st in ast.walk(ef) if isinstance(st, (ast.Assign, ast.AugAssign)) and norm(st.targets[0] if isinstance(st, ast.Assign) else st.target) == "molecule.q"]
    if not stores and "charges" in parts:
        raise AnalysisError("Electronic_Structure.forward: no store to molecule.q")
    if "charges" in parts:
        blk, i0, i1 = _lca_block(es, ef, stores)
    species = np.array([[8, 6, 1], [7, 1, 0]], dtype=np.int64)
    tore = np.array([sp.Integer(0)] + [sp.Symbol(f"Z{z}") for z in range(1, 10)], dtype=object)
    for nbf, method in (((4, "AM1"), (9, "PM6")) if "charges" in parts else ()):
        N = 3 * nbf
        dens = lambda name: np.array([[[sp.Symbol(f"{name}{m}_{min(i, j)}_{max(i, j)}") for j in range(N)] for i in range(N)] for m in range(2)], dtype=object)
        for open_shell in (False, True):
            Pa, Pb = dens("a"), dens("b")
            dm = np.stack([Pa, Pb], axis=1) if open_shell else Pa
            Ptot = Pa + Pb if open_shell else Pa
            I = NpSym(repo)
            mol = types.SimpleNamespace(dm=dm, method=method, const=types.SimpleNamespace(tore=tore), species=species, q=None)
            selfns = types.SimpleNamespace(atomic_charges=FuncRef(es, es.func("Electronic_Structure.atomic_charges")))
            fr = _Frame(I, es, {"molecule": mol, "self": selfns})
            # backward slice inside the block: earlier statements that define the locals the charge statements read (transitively)
            need = {n.id for st in blk[i0:i1 + 1] for n in ast.walk(st) if isinstance(n, ast.Name) and isinstance(n.ctx, ast.Load)} - {"molecule", "self", "torch"}
            pre = []
            for st in reversed(blk[:i0]):
                stored_ = {n.id for n in ast.walk(st) if isinstance(n, ast.Name) and isinstance(n.ctx, ast.Store)}
                inplace = {n.func.value.id for n in ast.walk(st) if isinstance(n, ast.Call) and isinstance(n.func, ast.Attribute) and isinstance(n.func.value, ast.Name) and n.func.attr.endswith("_")}
                if (stored_ | inplace) & need and not any(isinstance(c, ast.Call) and norm(c.func).startswith("self.") and not norm(c.func).endswith("atomic_charges") for c in ast.walk(st)):
                    pre.insert(0, st)
                    need |= {n.id for n in ast.walk(st) if isinstance(n, ast.Name) and isinstance(n.ctx, ast.Load)} - {"molecule", "self", "torch"}
            fr.block(pre)
            fr.block(blk[i0:i1 + 1])
            q = mol.q
            ok = getattr(q, "shape", None) == (2, 3)
            if ok:
                for m in range(2):
                    for a in range(3):
                        want = tore[species[m, a]] - sp.Add(*[Ptot[m, a * nbf + i, a * nbf + i] for i in range(nbf)])
                        ok = ok and sp.expand(sp.sympify(q[m, a]) - want) == 0
            ctx.check(ok, rid, es, stores[0], "Electronic_Structure.forward", f"q[{method}, {'open' if open_shell else 'closed'} shell]",
                      f"{method}, {'open' if open_shell else 'closed'} shell: q = core charge - the atom's {nbf} diagonal elements of the {'alpha + beta' if open_shell else ''} reported density (padded batch, abstract interpretation)",
                      f"{method}, {'open' if open_shell else 'closed'} shell: reported atomic charges are not core charge minus the atom's block-diagonal population of the reported density "
                      f"(wrong spin block / orbital count / sign)")
    # ---- dipole
    if "dipole" not in parts and "padding" not in parts:
        return
    dp = repo.mod("seqm/seqm_functions/dipole.py")
    cg = dp.func("calc_ground_dipole")
    S = System((3, 2), 3, 4)
    na = len(S.atoms)
    Z = np.array([8, 6, 1, 7, 1], dtype=np.int64)
    heavy = [a for a in range(na) if Z[a] > 2]
    ddv = np.array([sp.Symbol(f"D{a}") for a in heavy], dtype=object)
    coords = np.array([[[sp.Symbol(f"r{m}_{p}_{c}") for c in range(3)] for p in range(3)] for m in range(2)], dtype=object)
    N = 12
    dens = lambda name: np.array([[[sp.Symbol(f"{name}{m}_{min(i, j)}_{max(i, j)}") for j in range(N)] for i in range(N)] for m in range(2)], dtype=object)
    for open_shell in (False, True):
        Pa, Pb = dens("a"), dens("b")
        P = np.stack([Pa, Pb], axis=1) if open_shell else Pa
        Ptot = Pa + Pb if open_shell else Pa
        I = NpSym(repo, stubs={"dd_qq": lambda *a, **k: (ddv.copy(), None)})
        zero = np.full((na,), sp.Integer(0), dtype=object)
        mol = types.SimpleNamespace(rij=np.full((len(S.pairs),), sp.Integer(1), dtype=object), parameters={"zeta_s": zero, "zeta_p": zero}, const=types.SimpleNamespace(qn=np.arange(10), tore=tore),
                                    Z=Z, species=species, maskd=S.maskd, coordinates=coords, nmol=2, molsize=3, dipole=None)
        I.call_function(dp, cg, [mol, P])
        a0 = I.global_value(dp, "a0")
        fac = I.global_value(dp, "to_debye") * I.global_value(dp, "debye_to_AU")
        dip = mol.dipole
        ok = getattr(dip, "shape", None) == (2, 3)
        if "padding" in parts:
            # non-interference: the dipole of a molecule is a polynomial in its own real atoms' coordinates and density; the coordinates stored in a padding slot
            # (molecule 1, slot 2) and the other molecule's data must not occur in it
            leaks = []
            if ok:
                for m in range(2):
                    fs = set().union(*[sp.sympify(dip[m, d]).free_symbols for d in range(3)])
                    pad = sorted(str(x) for x in fs if str(x).startswith("r1_2_"))
                    other = sorted(str(x) for x in fs if str(x).startswith((f"r{1 - m}_", f"a{1 - m}_", f"b{1 - m}_")))
                    if pad:
                        leaks.append(f"the dipole of molecule {m} depends on the coordinates stored in a padding slot ({', '.join(pad[:3])})")
                    if other:
                        leaks.append(f"the dipole of molecule {m} depends on data of its batch mate ({', '.join(other[:3])})")
            ctx.check(ok and not leaks, rid, dp, cg, "calc_ground_dipole", f"padding transparency[{'open' if open_shell else 'closed'} shell]",
                      f"{'open' if open_shell else 'closed'}-shell dipole of each molecule of a padded batch is a function of its own real atoms only (no padding-slot coordinate, no batch-mate symbol occurs in it)",
                      "; ".join(leaks) if leaks else "calc_ground_dipole does not return one dipole vector per molecule")
        if "dipole" not in parts:
            continue
        if ok:
            for m in range(2):
                for d in range(3):
                    tot = sp.Integer(0)
                    for a, (mm, p) in enumerate(S.atoms):
                        if mm != m:
                            continue
                        norb = 4 if Z[a] > 2 else 1
                        tot += tore[Z[a]] * coords[m, p, d] - sp.Add(*[Ptot[m, 4 * p + i, 4 * p + i] for i in range(norb)]) * coords[m, p, d]
                        if Z[a] > 2:
                            tot -= 2 * Ptot[m, 4 * p, 4 * p + d + 1] * ddv[heavy.index(a)] * a0
                    ok = ok and sp.expand(sp.sympify(dip[m, d]) - tot * fac) == 0
        ctx.check(ok, rid, dp, cg, "calc_ground_dipole", f"dipole[{'open' if open_shell else 'closed'} shell]",
                  f"{'open' if open_shell else 'closed'}-shell dipole = sum Z_core R - sum (atomic population R + 2 P_sp D) in atomic units -> Debye, with the core charges used for the atomic charges",
                  f"{'open' if open_shell else 'closed'}-shell dipole is not sum_a Z_a R_a - Tr(P mu) of the density it is given: dipole and charges describe different densities")


# ====================================================================================================================
# Parser.forward, executed on concrete small batches
def check_parser(ctx, rid, aspects=("index", "pairs")):
    """Parser.forward is interpreted (sa.npsym) on concrete padded batches -- every combination of 1..3 real atoms per molecule for 1, 2 and 3 molecules of size 3,
    integer species, rational coordinates -- and its 18 results are compared with their definitions: per-molecule counts, the real-atom list and its diagonal-block
    indices, and one record per kept pair (i < j real atoms of the same molecule with |r_j - r_i|^2 < cutoff^2): packed atom indices, atomic numbers, block index and
    its transpose, molecule id, distance * length_conversion_factor and the unit vector (r_j - r_i)/|r_j - r_i|.  Records are compared as a set, so a different pair
    order is accepted but any misalignment between the per-pair arrays is not.  With a finite cutoff the test geometries contain a pair inside the cutoff cube but
    outside the cutoff sphere."""
    import itertools
    import random
    import numpy as np
    import sympy as sp
    from .loader import AnalysisError
    from .npsym import NpSym, Raised
    repo = ctx.repo
    bs = repo.mod("seqm/basics.py")
    f = bs.func("Parser.forward")
    tore = np.array([0, 1, 0, 0, 0, 0, 4, 5, 6, 7], dtype=np.int64)
    lcf = sp.Rational(189, 100)
    ms = 3
    pool = [[8, 6, 1], [7, 1, 0], [6, 0, 0], [8, 1, 1], [7, 6, 0], [1, 0, 0]]
    rng = random.Random(3)
    n_runs = 0
    bad = []
    for nmol in (1, 2, 3):
        for combo in itertools.product(range(len(pool)), repeat=nmol):
            if (nmol == 3 and rng.random() > 0.1) or (nmol == 2 and rng.random() > 0.6):
                continue
            species = np.array([pool[c] for c in combo], dtype=np.int64)
            # geometry: atom 1 at distance 1 along a random axis, atom 2 at (6/5, 6/5, 0): inside the cube of half-width 3/2 but outside the sphere of radius 3/2
            coords = np.empty((nmol, ms, 3), dtype=object)
            for m in range(nmol):
                o = [sp.Rational(rng.randint(-5, 5), 2) for _ in range(3)]
                ax = rng.randint(0, 2)
                coords[m, 0] = o
                coords[m, 1] = [o[c] + (1 if c == ax else 0) for c in range(3)]
                coords[m, 2] = [o[0] + sp.Rational(6, 5), o[1] + sp.Rational(6, 5), o[2]]
            nel = [int(sum(tore[z] for z in species[m])) for m in range(nmol)]
            charge = np.array([n % 2 for n in nel], dtype=np.int64)
            for cutoff in (sp.Integer(10) ** 10, sp.Rational(3, 2)):
                I = NpSym(repo)
                mol = types.SimpleNamespace(species=species, coordinates=coords.copy(), const=types.SimpleNamespace(tore=tore, length_conversion_factor=lcf),
                                            tot_charge=charge, mult=np.ones(nmol, dtype=np.int64))
                selfns = _instance(bs, "Parser", outercutoff=cutoff, uhf=False, hipnn_automatic_doublet=False, elements=None)
                try:
                    res = I.call_function(bs, f, [selfns, mol, "AM1"], {"return_mask_l": True})
                except Raised as e:
                    bad.append(f"a valid closed-shell batch {species.tolist()} is rejected: {e.what[:80]}")
                    continue
                n_runs += 1
                if not (isinstance(res, tuple) and len(res) == 18):
                    raise AnalysisError("Parser.forward(return_mask_l=True) does not return 18 values")
                (r_nmol, r_ms, nSH, nHeavy, nHydro, nocc, Z, maskd, atom_molid, mask, mask_l, pair_molid, ni, nj, idxi, idxj, xij, rij) = res
                atoms = [(m, p) for m in range(nmol) for p in range(ms) if species[m, p] > 0]
                tl = lambda x: [int(t) for t in np.asarray(x).reshape(-1)]
                where = f"batch {species.tolist()}, cutoff {'infinite' if cutoff > 100 else cutoff}"
                if "index" in aspects:
                    if (int(r_nmol), int(r_ms)) != (nmol, ms):
                        bad.append(f"{where}: (nmol, molsize) = {(r_nmol, r_ms)}")
                    if tl(nHeavy) != [int((species[m] > 1).sum()) for m in range(nmol)] or tl(nHydro) != [int((species[m] == 1).sum()) for m in range(nmol)] or any(tl(nSH)):
                        bad.append(f"{where}: heavy / hydrogen counts per molecule are {tl(nHeavy)} / {tl(nHydro)}")
                    if tl(nocc) != [(nel[m] - int(charge[m])) // 2 for m in range(nmol)]:
                        bad.append(f"{where}: occupied orbitals {tl(nocc)} are not (valence electrons - charge)/2 of each molecule")
                    if tl(Z) != [int(species[m, p]) for m, p in atoms]:
                        bad.append(f"{where}: Z is not the list of real atoms in batch order")
                    if tl(maskd) != [m * ms * ms + p * ms + p for m, p in atoms]:
                        bad.append(f"{where}: maskd is not the diagonal block of each real atom")
                    if tl(atom_molid) != [m for m, p in atoms]:
                        bad.append(f"{where}: atom_molid is not each real atom's molecule")
                # per-pair records
                want = set()
                for a, (ma, pa) in enumerate(atoms):
                    for b, (mb, pb) in enumerate(atoms):
                        if a < b and ma == mb:
                            dvec = [coords[ma, pb, c] - coords[ma, pa, c] for c in range(3)]
                            d2 = sum(x * x for x in dvec)
                            if d2 < cutoff ** 2:
                                d = sp.sqrt(d2)
                                want.add((a, b, int(species[ma, pa]), int(species[mb, pb]), ma * ms * ms + pa * ms + pb, ma * ms * ms + pb * ms + pa, ma,
                                          sp.nsimplify(d * lcf), tuple(sp.nsimplify(x / d) for x in dvec)))
                npairs = len(tl(idxi))
                got = set()
                try:
                    for k in range(npairs):
                        got.add((int(idxi[k]), int(idxj[k]), int(ni[k]), int(nj[k]), int(mask[k]), int(mask_l[k]), int(pair_molid[k]),
                                 sp.nsimplify(rij[k]), tuple(sp.nsimplify(xij[k, c]) for c in range(3))))
                except Exception as e:
                    bad.append(f"{where}: per-pair arrays have inconsistent lengths ({type(e).__name__})")
                    continue
                if "pairs" in aspects or "index" in aspects:
                    if got != want or npairs != len(want):
                        extra, missing = sorted(got - want, key=str)[:1], sorted(want - got, key=str)[:1]
                        bad.append(f"{where}: pair records differ from the definition (i<j real atoms of one molecule with |r_ij|^2 < cutoff^2; indices, atomic numbers, block, transposed "
                                   f"block, molecule, distance, unit vector r_j - r_i): unexpected {extra}, missing {missing}")
    if n_runs < 30:
        raise AnalysisError(f"Parser.forward: only {n_runs} batches interpreted")
    ctx.check(not bad, rid, bs, f, "Parser.forward", "interpreted batches",
              f"Parser.forward returns the defined counts, atom lists, block indices and pair records on {n_runs} concrete padded batches (1-3 molecules, all real-atom counts, "
              f"infinite and finite cutoff with a pair inside the cutoff cube but outside the sphere)",
              f"Parser.forward: {bad[0] if bad else ''} ({len(bad)} discrepancies on {n_runs} interpreted batches): molecules of a padded batch are mis-indexed / the pair list is not the radial cutoff list")


# ====================================================================================================================
# request validation, decided by interpreting the validators on concrete requests
def interpreted_check_input(repo):
    """check_input(species) on every 2 x 3 array over {0, 1, 2}: it must raise exactly when some row increases somewhere (the documented precondition: non-increasing rows,
    equal neighbours allowed, every adjacent pair compared).  Returns (ok, message)."""
    import itertools
    import numpy as np
    from .npsym import NpSym, Raised
    mol = repo.mod("seqm/Molecule.py")
    f = mol.func("check_input")
    n = 0
    for vals in itertools.product((0, 1, 2), repeat=6):
        sp_ = np.array(vals, dtype=np.int64).reshape(2, 3)
        unsorted = any(sp_[r, c + 1] > sp_[r, c] for r in range(2) for c in range(2))
        I = NpSym(repo)
        try:
            I.call_function(mol, f, [sp_])
            raised = False
        except Raised:
            raised = True
        n += 1
        if raised != unsorted:
            return False, (f"check_input {'rejects the sorted' if raised else 'accepts the unsorted'} species array {sp_.tolist()} (exhaustive run over 2 x 3 arrays with values 0..2): "
                           f"{'valid input is refused' if raised else 'a species row that is not non-increasing reaches the parser'}")
    return True, f"check_input raises exactly for the arrays with an increasing neighbour pair ({n} arrays, exhaustive)"


def interpreted_parser_guards(repo):
    """{row id: (ok, message)} for the electron-count guards of Parser.forward, each decided on concrete requests: the violating request must raise (also when it is the second
    molecule of a batch), the neighbouring valid requests must not."""
    import numpy as np
    import sympy as sp
    from .npsym import NpSym, Raised
    bs = repo.mod("seqm/basics.py")
    f = bs.func("Parser.forward")
    tore = np.array([0, 1, 0, 0, 0, 0, 4, 5, 6, 7], dtype=np.int64)

    def run(species, charge, mult=None, uhf=False, auto=False):
        species = np.array(species, dtype=np.int64)
        nmol, ms = species.shape
        coords = np.array([[[sp.Integer(m * 7 + p), sp.Integer(p * p), sp.Integer(0)] for p in range(ms)] for m in range(nmol)], dtype=object)
        mol = types.SimpleNamespace(species=species, coordinates=coords, const=types.SimpleNamespace(tore=tore, length_conversion_factor=sp.Rational(189, 100)),
                                    tot_charge=np.array(charge, dtype=np.int64), mult=np.array(mult if mult is not None else [1] * nmol, dtype=np.int64))
        selfns = _instance(bs, "Parser", outercutoff=sp.Integer(10) ** 10, uhf=uhf, hipnn_automatic_doublet=auto, elements=None)
        try:
            NpSym(repo).call_function(bs, f, [selfns, mol, "AM1"])
            return False
        except Raised:
            return True
    H2, OH, CH2O = [1, 1, 0, 0], [8, 1, 0, 0], [8, 6, 1, 1]
    out = {}

    def decide(rid, must_raise, must_pass, what):
        for label, args in must_raise:
            if not run(*args[0], **args[1]):
                out[rid] = (False, f"{what}: the request `{label}` is accepted (interpreted run of Parser.forward)")
                return
        for label, args in must_pass:
            if run(*args[0], **args[1]):
                out[rid] = (False, f"the valid request `{label}` is rejected (interpreted run of Parser.forward)")
                return
        out[rid] = (True, f"{what}: {len(must_raise)} violating requests raise, {len(must_pass)} valid neighbours pass (interpreted runs)")
    A = lambda *a, **k: (a, k)
    decide("rhf-odd-electrons", [("OH radical, RHF", A([OH], [0])), ("batch [CH2O, OH], RHF", A([CH2O, OH], [0, 0])), ("CH2O cation, RHF", A([CH2O], [1]))],
           [("OH-, RHF", A([OH], [-1])), ("CH2O, RHF", A([CH2O], [0])), ("batch [CH2O, OH-]", A([CH2O, OH], [0, -1]))], "odd electron count with a restricted reference")
    decide("uhf-fractional-alpha", [("OH radical as singlet, UHF", A([OH], [0], mult=[1], uhf=True)), ("CH2O doublet, UHF", A([CH2O], [0], mult=[2], uhf=True)),
                                    ("batch [CH2O singlet, OH singlet], UHF", A([CH2O, OH], [0, 0], mult=[1, 1], uhf=True))],
           [("OH doublet, UHF", A([OH], [0], mult=[2], uhf=True)), ("CH2O triplet, UHF", A([CH2O], [0], mult=[3], uhf=True)),
            ("OH as singlet with automatic doublets", A([OH], [0], mult=[1], uhf=True, auto=True))], "charge/multiplicity pair with a non-integer number of alpha electrons")
    out["uhf-fractional-beta"] = out["uhf-fractional-alpha"]
    decide("negative-occupation", [("H2 with charge +4, RHF", A([H2], [4])), ("H2 septet, UHF", A([H2], [0], mult=[7], uhf=True)), ("batch [CH2O, H2 4+]", A([CH2O, H2], [0, 4]))],
           [("H2 2+, RHF", A([H2], [2])), ("H2 triplet, UHF", A([H2], [0], mult=[3], uhf=True))], "charge/multiplicity pair that needs a negative number of occupied orbitals")
    decide("occupation-exceeds-basis", [("H2 with charge -4, RHF", A([H2], [-4])), ("H2 quintet, UHF", A([H2], [0], mult=[5], uhf=True)), ("batch [CH2O, H2 4-]", A([CH2O, H2], [0, -4]))],
           [("H2 2-, RHF", A([H2], [-2])), ("H2 triplet, UHF", A([H2], [0], mult=[3], uhf=True))], "charge/multiplicity pair that needs more occupied orbitals than the valence basis has")
    # exhaustive acceptance table on a finite domain: H2 (2 electrons, 2 orbitals) and CH4 (8 electrons, 8 orbitals), total charge -4..4, multiplicity 1..9, restricted
    # (multiplicity ignored) and unrestricted: a request is valid iff every spin channel gets an integer number of electrons within [0, number of orbitals]
    CH4 = [6, 1, 1, 1, 1]
    table_bad = None
    n_tab = 0

    def run_small(species, charge, mult, uhf):
        species = np.array([species], dtype=np.int64)
        mol = types.SimpleNamespace(species=species, coordinates=np.array([[[sp.Integer(p), sp.Integer(p * p), sp.Integer(0)] for p in range(species.shape[1])]], dtype=object),
                                    const=types.SimpleNamespace(tore=tore, length_conversion_factor=sp.Rational(189, 100)), tot_charge=np.array([charge], dtype=np.int64),
                                    mult=np.array([mult], dtype=np.int64))
        selfns = _instance(bs, "Parser", outercutoff=sp.Integer(10) ** 10, uhf=uhf, hipnn_automatic_doublet=False, elements=None)
        try:
            NpSym(repo).call_function(bs, f, [selfns, mol, "AM1"], {"do_large_tensors": False})
            return False
        except Raised:
            return True
    for species, nel, norb in ((H2[:2], 2, 2), (CH4, 8, 8)):
        for charge in range(-4, 5):
            n_e = nel - charge
            for uhf in (False, True):
                for mult in (range(1, 10) if uhf else (1,)):
                    if uhf:
                        a2, b2 = n_e + (mult - 1), n_e - (mult - 1)
                        valid = a2 % 2 == 0 and 0 <= a2 // 2 <= norb and 0 <= b2 // 2 <= norb and b2 >= 0
                    else:
                        valid = n_e % 2 == 0 and 0 <= n_e // 2 <= norb
                    raised = run_small(species, charge, mult, uhf)
                    n_tab += 1
                    if raised == valid and table_bad is None:
                        table_bad = (f"{'CH4' if len(species) == 5 else 'H2'} with charge {charge:+d}, multiplicity {mult}, {'UHF' if uhf else 'RHF'} "
                                     f"({n_e} electrons, {norb} orbitals) is {'rejected although valid' if raised else 'ACCEPTED although it needs a spin channel outside [0, number of orbitals] or a fractional occupation'}")
    if table_bad is not None:
        for rid_ in ("negative-occupation", "occupation-exceeds-basis"):
            out[rid_] = (False, f"charge / multiplicity acceptance table ({n_tab} interpreted requests): {table_bad}")
    return out


# ====================================================================================================================
# COM-removal request and degrees of freedom, interpreted
def interpreted_com_setup(repo):
    """The part of Molecular_Dynamics_Basic.initialize that validates `remove_com` and fixes the number of constraints is interpreted (sa.npsym) for concrete requests, and
    the three set_dof implementations are interpreted with a molecule of 5 real atoms.  Returns dict:
       'requests': {label: ('raise', None) | ('ok', dict(do_remove_com, angular, stride, constraints))},
       'dof': {(class, damp is set, constraints): n_dof}"""
    import ast
    import sympy as sp
    from .loader import AnalysisError, norm, callee_attr
    from .npsym import NpSym, _Frame, Raised
    md = repo.mod("seqm/MolecularDynamics.py")
    ini = md.func("Molecular_Dynamics_Basic.initialize")
    first = [st for st in ast.walk(ini) if isinstance(st, ast.Assign) and any(norm(t) == "self.do_remove_com" for t in st.targets)]
    last = [st for st in ast.walk(ini) if isinstance(st, ast.Expr) and isinstance(st.value, ast.Call) and callee_attr(st.value) == "set_dof"]
    if len(first) != 1 or len(last) != 1:
        raise AnalysisError("initialize: `self.do_remove_com = ...` / `self.set_dof(...)` not found exactly once")
    blk, i0, i1 = _lca_block(md, ini, [first[0], last[0]])
    params = [a.arg for a in ini.args.args]
    if "remove_com" not in params:
        raise AnalysisError("initialize: parameter remove_com not found")
    requests = {"none": None, "linear": ("linear", 5), "angular": ("angular", 1), "upper-case with blanks": (" Angular ", 2), "unknown mode": ("spin", 1), "empty mode": ("", 1),
                "both": ("linear angular", 1)}
    out = {"requests": {}, "dof": {}}
    for label, req in requests.items():
        cap = {}

        def set_dof(frame, molecule, constraints=sp.Integer(0)):
            cap["constraints"] = constraints
        selfns = types.SimpleNamespace(set_dof=set_dof, do_remove_com=None, remove_com_angular=None, remove_com_stride=None)
        I = NpSym(repo)
        fr = _Frame(I, md, {"self": selfns, "remove_com": req, "molecule": None})
        try:
            fr.block(blk[i0:i1 + 1])
        except Raised:
            out["requests"][label] = ("raise", None)
            continue
        out["requests"][label] = ("ok", {"do_remove_com": selfns.do_remove_com, "angular": selfns.remove_com_angular, "stride": selfns.remove_com_stride, "constraints": cap.get("constraints")})
    for cls in ("Molecular_Dynamics_Basic", "Molecular_Dynamics_Langevin", "XL_BOMD"):
        if cls not in md.classes:
            continue
        for damp in (None, sp.Integer(50)):
            for c in (sp.Integer(0), sp.Integer(3), sp.Integer(6)):
                from .npsym import Instance as _Inst
                selfns = _Inst(md, cls, damp=damp, n_dof=None)
                np_ = __import__("numpy")
                # a padded batch: 5 real atoms in molecules of padded size 7
                spc = np_.array([[8, 6, 6, 1, 1, 0, 0], [7, 6, 1, 1, 1, 0, 0]])
                mol = types.SimpleNamespace(num_atoms=np_.array([5, 5]), molsize=7, nmol=2, species=spc, coordinates=np_.full((2, 7, 3), sp.Integer(0), dtype=object),
                                            mass=np_.where(spc[..., None] > 0, sp.Integer(12), sp.Integer(0)).astype(object), Z=spc[spc > 0])
                I_ = NpSym(repo)
                I_.class_attribute(md, cls, "set_dof", selfns)(None, mol, c)      # the implementation the class resolves to (own or inherited)
                nd = selfns.n_dof
                nd = nd.reshape(-1)[0] if hasattr(nd, "reshape") else nd
                out["dof"][(cls, damp is not None, int(c))] = sp.nsimplify(nd)
    return out


def com_setup_verdicts(repo):
    """(ok, message) per aspect, from interpreted_com_setup"""
    r = interpreted_com_setup(repo)
    req, dof = r["requests"], r["dof"]
    v = {}
    bad = [k for k in ("unknown mode", "empty mode", "both") if req[k][0] != "raise"]
    good = [k for k in ("none", "linear", "angular", "upper-case with blanks") if req[k][0] != "ok"]
    v["validation"] = (not bad and not good,
                       "remove_com modes other than 'linear' / 'angular' (case and blanks ignored) are rejected, the documented ones accepted (interpreted requests)" if not bad and not good else
                       (f"the COM-removal request `{bad[0]}` is accepted" if bad else f"the valid COM-removal request `{good[0]}` is rejected") + " (interpreted run of initialize)")
    exp = {"none": (False, None, 0), "linear": (True, False, 3), "angular": (True, True, 6), "upper-case with blanks": (True, True, 6)}
    wrong = []
    for k, (do, ang, c) in exp.items():
        if req[k][0] != "ok":
            continue
        g = req[k][1]
        if bool(g["do_remove_com"]) != do or (do and bool(g["angular"]) != ang) or g["constraints"] is None or int(g["constraints"]) != c:
            wrong.append(f"{k}: do_remove_com={g['do_remove_com']}, angular={g['angular']}, constraints={g['constraints']}")
        if do and k == "linear" and int(g["stride"]) != 5:
            wrong.append(f"{k}: stride {g['stride']}")
    v["mode"] = (not wrong, "angular removal iff the mode is 'angular'; constraints 0 / 3 / 6 for none / linear / angular; stride stored" if not wrong else "COM setup: " + "; ".join(wrong[:2]))
    wd = []
    for (cls, damped, c), nd in sorted(dof.items()):
        want = 15 - (0 if (cls == "Molecular_Dynamics_Langevin" or (cls == "XL_BOMD" and damped)) else c)
        if nd != want:
            wd.append(f"{cls}.set_dof(constraints={c}, damp {'set' if damped else 'None'}) gives n_dof = {nd} for 5 atoms, expected {want}")
    v["dof"] = (not wd and len(dof) >= 12, "n_dof = 3 N - constraints; the Langevin thermostat ignores the constraints, XL-BOMD ignores them exactly when a damping time is set (interpreted)" if not wd else wd[0])
    return v


# ====================================================================================================================
# parameter packing, interpreted
def interpreted_parameter_packing(repo):
    """Pack_Parameters.__init__ / forward on a concrete request (AM1, learned = ['U_ss', 'beta_s'], an extra caller key): the table loader is replaced by a symbolic table
    whose columns follow the `parameters=` list it is asked for.  Returns (ok, message)."""
    import numpy as np
    import sympy as sp
    from .loader import AnalysisError
    from .npsym import NpSym
    bs = repo.mod("seqm/basics.py")
    I = NpSym(repo)
    asked = {}

    def params(frame, *a, **k):
        cols = list(k.get("parameters", a[3] if len(a) > 3 else []))
        asked["cols"] = cols
        return np.array([[sp.Symbol(f"tab_{c}_{z}") for c in cols] for z in range(10)], dtype=object)
    I.stubs["params"] = lambda *a, **k: params(None, *a, **k)
    I.stubs["PWCCT"] = lambda *a, **k: ("ALPHA", "CHI")
    I.stubs["super"] = lambda *a, **k: types.SimpleNamespace(__init__=lambda fr, *a2, **k2: None)
    selfns = types.SimpleNamespace()
    learned = ["U_ss", "beta_s"]
    sq = {"elements": [0, 1, 6, 8], "learned": list(learned), "method": "AM1", "parameter_file_dir": "/nowhere/"}
    I.call_function(bs, "Pack_Parameters.__init__", [selfns, sq])
    plist = I.global_value(bs, "parameterlist")["AM1"]
    want_req = [k for k in plist if k not in learned]
    if list(getattr(selfns, "required_list", [])) != want_req:
        return False, f"required_list is {list(getattr(selfns, 'required_list', []))[:6]}..., not the method's parameters without the learned ones"
    if asked.get("cols") != want_req:
        return False, "the parameter table is not loaded for exactly the required (non-learned) parameters"
    Z = np.array([8, 6, 1, 1], dtype=np.int64)
    t_uss, t_beta, t_extra = (np.array([sp.Symbol(f"{n}{a}") for a in range(4)], dtype=object) for n in ("Uss", "betas", "extra"))
    given = {"U_ss": t_uss, "beta_s": t_beta, "my_extra_key": t_extra}
    res = I.call_function(bs, "Pack_Parameters.forward", [selfns, Z, given])
    if not (isinstance(res, tuple) and len(res) == 3 and isinstance(res[0], dict)):
        raise AnalysisError("Pack_Parameters.forward does not return (dict, alpha, chi)")
    out = res[0]
    if out.get("U_ss") is not t_uss or out.get("beta_s") is not t_beta:
        return False, "a learned (caller-supplied) parameter tensor is replaced or copied by the packing: gradients with respect to it are lost"
    if out.get("my_extra_key") is not t_extra:
        return False, "a caller-supplied key that is not a method parameter is dropped or replaced by the packing"
    for k in want_req:
        v = out.get(k)
        if getattr(v, "shape", None) != (4,) or any(v[a] != sp.Symbol(f"tab_{k}_{Z[a]}") for a in range(4)):
            return False, f"packed parameter `{k}` is not the table column of `{k}` at the atoms' atomic numbers"
    if set(out) != set(want_req) | set(given):
        return False, f"unexpected keys after packing: {sorted(set(out) - set(want_req) - set(given))[:4]}"
    if res[1] != "ALPHA" or res[2] != "CHI":
        return False, "alpha / chi are not passed through"
    return True, f"packing: the {len(want_req)} non-learned AM1 parameters come from their own table column at Z, learned and extra caller tensors are passed through as the same objects"


def check_cis_energy(ctx, rid):
    """calc_cis_energy (the excitation energy that is differentiated for reverse-mode excited-state forces) interpreted on the uniform test batch with exact rationals:
    CIS  E = V . (A V);  RPA  E = X . (A X + B Y) + Y . (B X + A Y), with A and B the operators decided by check_cis_operator (independent oracle from the AO integrals)."""
    import random
    import numpy as np
    import sympy as sp
    from .loader import AnalysisError
    from .npsym import NpSym
    repo = ctx.repo
    rc = repo.mod(RC)
    f = rc.func("calc_cis_energy")
    U = UniformBatch(2, 2, 1)
    rng, cache = random.Random(61), {}
    w = _numeric(np.array([[[sp.Symbol(f"w{k}_{a}_{b}") for b in range(10)] for a in range(10)] for k in range(U.nmol * U.npm)], dtype=object), rng, cache)
    par = {k: _numeric(U.atom_vector(k), rng, cache) for k in ("g_ss", "g_pp", "g_sp", "g_p2", "h_sp")}
    for a, (m, p) in enumerate(U.atoms):
        if p >= U.heavy:
            for k in ("g_pp", "g_sp", "g_p2", "h_sp"):
                par[k][a] = sp.Integer(0)
    nocc = 3
    nvirt = U.norb - nocc
    rnd = lambda *shape: np.array([sp.Rational(rng.randint(-20, 20), rng.randint(1, 7)) for _ in range(int(np.prod(shape)))], dtype=object).reshape(shape)
    C = rnd(U.nmol, U.norb, U.norb)
    e_mo = np.array([[sp.Integer(3 * i + b) for i in range(U.norb)] for b in range(U.nmol)], dtype=object)
    mol = U.namespace(nmol=U.nmol, molsize=U.molsize, mask=U.mask, maskd=U.maskd, mask_l=U.mask_l, idxi=U.idxi, idxj=U.idxj, nHeavy=np.array([U.heavy] * U.nmol),
                      nHydro=np.array([U.hydro] * U.nmol), norb=np.array([U.norb] * U.nmol), nocc=np.array([nocc] * U.nmol), parameters=par, molecular_orbitals=C, verbose=False)
    Cocc, Cvirt = C[:, :, :nocc], C[:, :, nocc:]
    ea_ei = np.array([[[e_mo[b, nocc + a] - e_mo[b, i] for a in range(nvirt)] for i in range(nocc)] for b in range(U.nmol)], dtype=object)

    def AB(b, V):
        Vr = V.reshape(nocc, nvirt)
        Tn = [[sp.Add(*[Cocc[b, m, i] * Vr[i, a] * Cvirt[b, n, a] for i in range(nocc) for a in range(nvirt)]) for n in range(U.norb)] for m in range(U.norb)]
        Gm = U.G(b, Tn, w, par)
        A = np.array([[ea_ei[b, i, a] * Vr[i, a] + 2 * sp.Add(*[Cocc[b, m, i] * Gm[m][n] * Cvirt[b, n, a] for m in range(U.norb) for n in range(U.norb)]) for a in range(nvirt)] for i in range(nocc)], dtype=object)
        B = np.array([[2 * sp.Add(*[Cocc[b, m, i] * Gm[n][m] * Cvirt[b, n, a] for m in range(U.norb) for n in range(U.norb)]) for a in range(nvirt)] for i in range(nocc)], dtype=object)
        return A.reshape(-1), B.reshape(-1)
    I = NpSym(repo, stubs={"getMemUse": lambda *a, **k: (False, 1)})
    X, Y = rnd(U.nmol, nocc * nvirt), rnd(U.nmol, nocc * nvirt)
    vals = {"mol": mol, "w": w, "e_mo": e_mo, "F": None, "P": None}
    # CIS
    res = I.call_function(rc, f, [mol, w.copy(), e_mo.copy(), X.copy(), None, None], {"rpa": False})
    want = []
    for b in range(U.nmol):
        A_, _ = AB(b, X[b])
        want.append(sp.Add(*[X[b, k] * A_[k] for k in range(nocc * nvirt)]))
    ok = getattr(res, "shape", None) == (U.nmol,) and all(sp.sympify(res[b]) == want[b] for b in range(U.nmol))
    ctx.check(ok, rid, rc, f, "calc_cis_energy", "CIS", "CIS excitation energy = V . (A V) with the singlet CIS Hamiltonian (exact rationals, uniform batch with hydrogen packing)",
              "calc_cis_energy (CIS) is not V . A V: the energy that is differentiated for excited-state forces is not the reported excitation energy")
    # RPA
    amp = np.stack([X, Y], axis=0)
    res = I.call_function(rc, f, [mol, w.copy(), e_mo.copy(), amp.copy(), None, None], {"rpa": True})
    want = []
    for b in range(U.nmol):
        AX, BX = AB(b, X[b])
        AY, BY = AB(b, Y[b])
        want.append(sp.Add(*[X[b, k] * (AX[k] + BY[k]) + Y[b, k] * (BX[k] + AY[k]) for k in range(nocc * nvirt)]))
    ok = getattr(res, "shape", None) == (U.nmol,) and all(sp.sympify(res[b]) == want[b] for b in range(U.nmol))
    ctx.check(ok, rid, rc, f, "calc_cis_energy", "RPA", "RPA excitation energy = X . (A X + B Y) + Y . (B X + A Y) (exact rationals)",
              "calc_cis_energy (RPA) is not (X Y) [[A B],[B A]] (X Y)^T: with reverse-mode forces on an RPA state the differentiated energy is not the reported excitation energy "
              "(Etot and forces are inconsistent with cis_energies and with the analytical gradient)")


def check_phase_alignment(ctx, rid):
    """Energy._phase_align_cis interpreted with exact rationals: the returned amplitudes are the new ones with every root multiplied by ONE sign s(molecule, root) = sign of its
    overlap with the reference -- the same sign for the X and the Y block of an RPA vector (a sign applied to X only leaves [X; -Y], which is not an eigenvector), roots beyond the
    reference left untouched."""
    import random
    import numpy as np
    import sympy as sp
    from .npsym import NpSym
    repo = ctx.repo
    bs = repo.mod("seqm/basics.py")
    f = bs.func("Energy._phase_align_cis")
    rng = random.Random(71)
    rnd = lambda *shape: np.array([sp.Rational(rng.randint(-9, 9) or 2, rng.randint(1, 5)) for _ in range(int(np.prod(shape)))], dtype=object).reshape(shape)
    nmol, nroots, nov = 2, 3, 4
    for rpa in (False, True):
        for n_ref in (3, 2):
            new = rnd(2, nmol, nroots, nov) if rpa else rnd(nmol, nroots, nov)
            ref = rnd(2, nmol, n_ref, nov) if rpa else rnd(nmol, n_ref, nov)
            X = new[0] if rpa else new
            Rf = ref[0] if rpa else ref
            s = np.array([[(1 if sum(Rf[b, r, k] * X[b, r, k] for k in range(nov)) >= 0 else -1) if r < n_ref else 1 for r in range(nroots)] for b in range(nmol)], dtype=object)
            want = new * (s[None, :, :, None] if rpa else s[:, :, None])
            res = NpSym(repo).call_function(bs, f, [new.copy(), ref.copy()], {"rpa": rpa})
            ok = getattr(res, "shape", None) == new.shape and all(sp.sympify(a) == sp.sympify(b) for a, b in zip(res.reshape(-1), want.reshape(-1)))
            flips = int(sum(1 for v in s.reshape(-1) if v == -1))
            ctx.check(ok, rid, bs, f, "Energy._phase_align_cis", f"{'RPA' if rpa else 'CIS'}, {n_ref} reference roots",
                      f"{'RPA' if rpa else 'CIS'} amplitudes aligned with {n_ref} reference roots: every root is multiplied by one sign ({flips} flips in the test data)"
                      f"{', X and Y blocks alike' if rpa else ''}; extra roots untouched",
                      f"phase alignment ({'RPA' if rpa else 'CIS'}, {n_ref} reference roots) does not return s(molecule, root) * amplitudes"
                      f"{' for both the X and the Y block: a sign applied to one block only turns [X; Y] into [X; -Y], which is no longer an eigenvector of the RPA problem' if rpa else ''}")


# ====================================================================================================================
# resume: constructor arguments of the rebuilt engine, interpreted
def interpreted_resume_kwargs(repo):
    """Molecular_Dynamics_Basic.run_from_checkpoint is interpreted (sa.npsym) for a synthetic checkpoint of every engine type; the checkpoint loader, RNG restore and the run
    itself are stand-ins, the engine class is replaced by a recorder.  Returns {engine type: (class name constructed, kwargs)} with sentinel values from the checkpoint."""
    import numpy as np
    import sympy as sp
    from .loader import AnalysisError
    from .npsym import NpSym, ClassRef
    md = repo.mod("seqm/MolecularDynamics.py")
    f = md.func("Molecular_Dynamics_Basic.run_from_checkpoint")
    out = {}
    for T in ("Molecular_Dynamics_Basic", "Molecular_Dynamics_Langevin", "XL_BOMD", "KSA_XL_BOMD"):
        damp, xlp, sq, outp = ("DAMP",), {"k": 5, "tag": "XLP"}, {"tag": "SEQM"}, {"tag": "OUT"}
        ckpt = {"MD_type": T, "damp": damp, "xl_bomd_params": xlp, "seqm_parameters": sq, "timestep": sp.Rational(1, 2), "Temp": sp.Integer(300), "output": outp, "step_done": 7,
                "steps": 10, "remove_com": None, "reuse_P": True, "xl_ctx": {"Pt": np.full((6, 1, 2, 2), sp.Integer(0), dtype=object), "es_amp_t": None}}
        molecule = types.SimpleNamespace(dP2dt2=None)
        rec = {}

        def hook(cref, args, kwargs, rec=rec):
            rec["cls"], rec["args"], rec["kwargs"] = cref.node.name, list(args), dict(kwargs)
            obj = types.SimpleNamespace(_xl_ctx=None)
            obj.to = lambda frame, *a, **k: obj
            obj.run = lambda frame, *a, **k: rec.__setitem__("run", dict(k))
            return obj
        I = NpSym(repo, stubs={"Molecular_Dynamics_Basic._load_checkpoint_base": lambda *a, **k: (ckpt, molecule, "device", True),
                               "Molecular_Dynamics_Basic._restore_rng": lambda *a, **k: None, "torch.load": lambda *a, **k: ckpt})
        I.class_hook = hook
        I.call_function(md, f, ["ckpt.pt"], {"device": "device"})
        if "cls" not in rec:
            raise AnalysisError(f"run_from_checkpoint: no engine constructed for a `{T}` checkpoint")
        out[T] = (rec["cls"], rec["kwargs"], rec.get("run"), {"damp": damp, "xl_bomd_params": xlp, "seqm_parameters": sq, "output": outp})
    return out


def resume_kwargs_verdict(repo):
    r = interpreted_resume_kwargs(repo)
    bad = []
    for T, (cls, kw, runkw, sent) in r.items():
        if cls != T:
            bad.append(f"a `{T}` checkpoint is resumed with class {cls}")
        for k in ("seqm_parameters", "output"):
            if kw.get(k) is not sent[k]:
                bad.append(f"{T}: constructor argument `{k}` is not the checkpointed one")
        if kw.get("step_offset") != 7:
            bad.append(f"{T}: step_offset is {kw.get('step_offset')}, the checkpoint says 7 steps are done")
        if T != "Molecular_Dynamics_Basic" and kw.get("damp") is not sent["damp"]:
            bad.append(f"engine type {T}: the checkpoint records `damp` and {T}.__init__ accepts it, but the constructor is called with damp={kw.get('damp', '<absent>')!r}: the resumed engine "
                       f"runs with the constructor default (the thermostat of a damped run is silently switched off on resume)")
        if T in ("XL_BOMD", "KSA_XL_BOMD") and kw.get("xl_bomd_params") is not sent["xl_bomd_params"]:
            bad.append(f"engine type {T}: the checkpointed xl_bomd_params are not handed to the constructor")
    return (not bad, bad[0] if bad else "every engine type is rebuilt with its own class and with the checkpointed seqm_parameters, output, step offset, damping time and XL-BOMD parameters (interpreted resume)")


# ------------------------------------------------------------------------------------------------------------------------------------------------
# C17-R2: the fewest-switches selection of SurfaceHoppingDynamics._attempt_hop, decided by its values on a finite family of exact-rational requests
# ------------------------------------------------------------------------------------------------------------------------------------------------
def _hop_oracle(H, pop, active, draws):
    """FSSH selection as documented: g_j = max(0, H[a, j] / max(pop_a, 1e-10)); rows whose sum exceeds one are renormalised; the target is the first state whose cumulative
    probability reaches the draw, -1 when none does."""
    import sympy as sp
    out = []
    for m in range(len(active)):
        a = int(active[m])
        den = max(pop[m][a], sp.Rational(1, 10 ** 10))
        g = [max(sp.Integer(0), H[m][a][j] / den) for j in range(len(H[m][a]))]
        s = sum(g)
        if s > 1:
            g = [x / s for x in g]
        c, tgt = sp.Integer(0), -1
        for j, x in enumerate(g):
            c += x
            if c >= draws[m]:
                tgt = j
                break
        out.append(tgt)
    return out


def interpreted_hop_selection(repo, n_random=60, seed=11):
    """Interpret SurfaceHoppingDynamics._attempt_hop (sa.npsym) on batches of three trajectories x three states with exact rational hop integrals, populations and draws, and
    compare the selected targets with the documented fewest-switches rule.  The requests are designed so that every decision of the rule is exercised on both sides: negative
    rates (clamp), row sums above and below one (renormalisation only above one), draws below the first / between two / above the last cumulative value, different active
    states per trajectory (row isolation), and a batch without any hop (early exit).  Returns (ok, message, facts)."""
    import random
    import numpy as np
    import sympy as sp
    from .loader import AnalysisError
    from .npsym import NpSym, Raised
    nad = repo.mod("seqm/NonadiabaticDynamics.py")
    fn = nad.func("SurfaceHoppingDynamics._attempt_hop")
    R = sp.Rational
    designed = [
        # (H rows for the active state of each trajectory (other rows are decoys), populations of the active state, active states, draws, what it exercises)
        ([[R(-3, 10), R(1, 2), R(1, 10)], [R(9, 10), R(8, 10), 0], [R(1, 10), R(1, 10), R(1, 10)]], [1, 1, 1], [0, 1, 2], [R(1, 4), R(7, 10), R(1, 2)],
         "negative rate clamped / row sum above one renormalised / draw above the last cumulative value"),
        ([[0, R(2, 5), R(1, 5)], [R(1, 5), 0, R(1, 5)], [R(3, 10), R(3, 10), 0]], [R(1, 2), R(1, 2), R(1, 2)], [0, 1, 2], [R(1, 2), R(3, 10), R(13, 10)],
         "division by the active population (rates 0.8/0.4, 0.4/0.4, 0.6/0.6)"),
        ([[0, R(1, 100), 0], [0, 0, R(1, 100)], [R(1, 100), 0, 0]], [1, 1, 1], [0, 1, 2], [R(1, 2), R(1, 2), R(1, 2)], "no trajectory hops"),
        ([[0, R(3, 10), R(3, 10)], [R(3, 10), 0, R(3, 10)], [R(3, 10), R(3, 10), 0]], [1, 1, 1], [0, 1, 2], [R(3, 10), R(31, 100), R(6, 10)],
         "draw equal to a cumulative value reaches it; row sum below one is not renormalised"),
        ([[0, R(1, 2), R(1, 2)], [R(1, 2), 0, R(1, 2)], [R(1, 2), R(1, 2), 0]], [R(1, 10 ** 12), R(1, 10 ** 12), 1], [0, 1, 2], [R(99, 100), R(1, 100), R(99, 100)],
         "vanishing active population is floored, not divided by"),
    ]
    rng = random.Random(seed)
    cases = []
    for rows, pa, act, dr, what in designed:
        cases.append((rows, pa, act, dr, what))
    for _ in range(n_random):
        act = [rng.randrange(3) for _ in range(3)]
        rows = [[R(rng.randint(-6, 12), rng.choice([7, 11, 13, 20])) for _ in range(3)] for _ in range(3)]
        pa = [R(rng.randint(1, 20), 20) for _ in range(3)]
        dr = [R(rng.randint(0, 99), 100) for _ in range(3)]
        cases.append((rows, pa, act, dr, "random"))
    facts = {"requests": 0, "draw_calls": set(), "hops": 0, "no_hops": 0}
    for rows, pa, act, dr, what in cases:
        nm, ns = 3, 3
        H = np.empty((nm, ns, ns), dtype=object)
        pop = np.empty((nm, ns), dtype=object)
        for m in range(nm):
            for i in range(ns):
                for j in range(ns):
                    # decoy rows: large rates that would hop at once if the wrong row were read
                    H[m, i, j] = sp.sympify(rows[m][j]) if i == act[m] else R(7 + i + j, 3)
                pop[m, i] = sp.sympify(pa[m]) if i == act[m] else R(1, 1000)
        calls = []

        def rand_stub(*a, **k):
            calls.append((a, tuple(sorted(k))))
            return np.array([sp.sympify(x) for x in dr], dtype=object)
        selfns = types.SimpleNamespace(_active_states=np.array(act, dtype=np.int64), _hop_integral=H, populations=pop, _arange_cache={},
                                       _get_arange=lambda fr, n, device=None, dtype=None: np.arange(int(n)))
        I = NpSym(repo, stubs={"torch.rand": rand_stub, "torch.rand_like": lambda x, **k: rand_stub(x.shape[0], **k)})
        try:
            got = I.call_function(nad, fn, [selfns])
        except Raised as e:
            return False, f"_attempt_hop raises on a regular request ({what}): {e}", facts
        got = [int(x) for x in np.asarray(got).reshape(-1)]
        want = _hop_oracle(H.tolist(), pop.tolist(), act, [sp.sympify(x) for x in dr])
        facts["requests"] += 1
        facts["hops"] += sum(1 for x in want if x >= 0)
        facts["no_hops"] += sum(1 for x in want if x < 0)
        facts["draw_calls"].add(len(calls))
        if len(calls) != 1:
            return False, f"{len(calls)} uniform draws in one hop attempt (one draw per trajectory and attempt is the fewest-switches rule)", facts
        a0 = calls[0][0]
        if "generator" in calls[0][1]:
            return False, "the hop draw uses a private generator (a seeded run is reproducible only through the global generator that the checkpoint captures)", facts
        shp = a0[0] if a0 else None
        shp = tuple(shp) if isinstance(shp, (tuple, list)) else (shp,)
        if tuple(int(s) for s in shp) != (nm,):
            return False, f"the uniform draw has shape {shp}, not one number per trajectory", facts
        if got != want:
            return False, (f"hop targets {got} differ from the fewest-switches rule {want} for active states {act}, rates {[[str(x) for x in r] for r in rows]}, "
                           f"active populations {[str(x) for x in pa]}, draws {[str(x) for x in dr]} ({what})"), facts
    return True, "", facts


# ------------------------------------------------------------------------------------------------------------------------------------------------
# C02-R4: Euler-angle frames of the overlap / d-orbital rotation routines, decided by value on exact unit vectors (generic directions and both z poles)
# ------------------------------------------------------------------------------------------------------------------------------------------------
EULER_BUILDERS = (("seqm/seqm_functions/diat_overlap.py", "diatom_overlap_matrix"), ("seqm/seqm_functions/diat_overlapD.py", "diatom_overlap_matrixD"),
                  ("seqm/seqm_functions/RotationMatrixD.py", "GenerateRotationMatrix"))


def interpreted_euler_frames(repo):
    """For every routine that builds the (azimuth, polar) direction cosines ca, sa, cb, sb of the bond vector, the statements up to the first use of the four quantities are
    interpreted (sa.npsym) on exact unit vectors; the frame is correct iff (sb ca, sb sa, cb) is the bond vector again (so the local z axis is the bond) and (ca, sa) is a unit
    vector (so the local x, y axes are orthonormal) -- on generic directions, in the xy plane, and at both z poles, where the azimuth is undefined and any fixed unit (ca, sa)
    is acceptable.  Returns [(rel, qual, line, ok, message, n_vectors)]."""
    import ast
    import numpy as np
    import sympy as sp
    from .loader import AnalysisError, norm
    from .npsym import NpSym, _Frame
    R = sp.Rational
    vectors = [(R(12, 25), R(16, 25), R(3, 5)), (R(-3, 13), R(4, 13), R(-12, 13)), (0, R(3, 5), R(4, 5)), (R(-4, 5), 0, R(-3, 5)), (1, 0, 0), (0, -1, 0), (R(3, 5), R(-4, 5), 0),
               (0, 0, 1), (0, 0, -1)]
    out = []
    for rel, qual in EULER_BUILDERS:
        if not repo.has(rel):
            continue
        m = repo.mod(rel)
        if not m.has_func(qual):
            raise AnalysisError(f"{rel}: frame builder {qual} not found")
        f = m.func(qual)
        roles = {"ca", "sa", "cb", "sb"}

        def role_of(t):
            b = t
            while isinstance(b, ast.Subscript):
                b = b.value
            return b.id.lower() if isinstance(b, ast.Name) and b.id.lower() in roles else None

        def defines_only_roles(st):
            tg = st.targets if isinstance(st, ast.Assign) else [st.target] if isinstance(st, (ast.AugAssign, ast.AnnAssign)) else []
            flat = []
            for t in tg:
                flat.extend(t.elts if isinstance(t, (ast.Tuple, ast.List)) else [t])
            return bool(flat) and all(role_of(t) for t in flat)
        xij = np.array([[sp.sympify(c) for c in v] for v in vectors], dtype=object)
        par = [a.arg for a in f.args.args]
        xname = next((p for p in par if p.lower() in ("xij", "x", "v", "vec")), None)
        if xname is None:
            raise AnalysisError(f"{qual}: bond-vector parameter not found among {par}")
        I = NpSym(repo, stubs={"print": lambda *a, **k: None})
        fr = _Frame(I, m, {xname: xij})
        bound = {}
        for st in f.body:
            cur = {k.lower(): k for k in fr.env if k.lower() in roles}
            if len(cur) == 4 and not defines_only_roles(st):
                used = {n.id for n in ast.walk(st) if isinstance(n, ast.Name)}
                if used & set(cur.values()):
                    break
            try:
                fr.stmt(st)
            except AnalysisError as e:
                # statements that need the other (unprovided) arguments are skipped as long as they do not define the direction cosines
                if defines_only_roles(st) or any(role_of(t) for t in (st.targets if isinstance(st, ast.Assign) else [])):
                    raise AnalysisError(f"{qual}: `{norm(st)[:60]}` not interpretable: {e}")
                continue
        cur = {k.lower(): fr.env[k] for k in fr.env if k.lower() in roles}
        if len(cur) != 4:
            raise AnalysisError(f"{qual}: direction cosines ca, sa, cb, sb not all defined at the top level of the routine (found {sorted(cur)})")
        ok, msg = True, ""
        sign = None     # the routine may build the frame of the reversed bond (`xij = -xij`): one sign for all directions
        for k, v in enumerate(vectors):
            ca, sa, cb, sb = (sp.nsimplify(np.asarray(cur[r]).reshape(-1)[k]) for r in ("ca", "sa", "cb", "sb"))
            x, y, z = (sp.sympify(c) for c in v)
            if sign is None:
                sign = -1 if all(sp.simplify(d) == 0 for d in (sb * ca + x, sb * sa + y, cb + z)) else 1
            x, y, z = sign * x, sign * y, sign * z
            if sp.simplify(ca ** 2 + sa ** 2 - 1) != 0:
                ok, msg = False, (f"for the bond direction ({x}, {y}, {z}) the azimuth pair (ca, sa) = ({ca}, {sa}) is not a unit vector: the local x / y axes are not orthonormal there, "
                                  f"pi-type overlaps and rotated integrals of such a bond are scaled or dropped and the energy is not rotation invariant")
                break
            if any(sp.simplify(d) != 0 for d in (sb * ca - x, sb * sa - y, cb - z)):
                ok, msg = False, (f"for the bond direction ({x}, {y}, {z}) the frame's z axis (sb ca, sb sa, cb) = ({sb * ca}, {sb * sa}, {cb}) is not the bond direction")
                break
        out.append((rel, qual, f.lineno, ok, msg, len(vectors)))
    return out


def interpreted_xl_constructor(repo):
    """XL_BOMD.__init__ interpreted (sa.npsym) for k = 2..10: {k: {m, kappa, alpha, coeff_D, coeff}} for every k the constructor accepts"""
    import numpy as np
    import sympy as sp
    from .loader import AnalysisError
    from .npsym import ClassRef, NpSym, Raised
    md = repo.mod("seqm/MolecularDynamics.py")
    out = {}
    for k in range(2, 11):
        I = NpSym(repo, stubs={"esdriver": lambda *a, **kw: types.SimpleNamespace(), "torch.nn.Parameter": lambda x, **kw: x})
        I.construct_instances = True
        try:
            obj = I.construct(ClassRef(md, md.classes["XL_BOMD"]), [], {"damp": None, "xl_bomd_params": {"k": k}, "seqm_parameters": {"method": "AM1"}, "timestep": sp.Rational(1, 2),
                                                                       "output": {"molid": [0], "h5": {}}})
        except Raised:
            continue
        except AnalysisError as e:
            if "missing" in str(e) and "key" in str(e):     # a row the table does not have
                continue
            raise
        need = ("m", "coeff", "coeff_D")
        if any(not hasattr(obj, a) for a in need):
            raise AnalysisError(f"XL_BOMD.__init__ (k={k}) does not set {[a for a in need if not hasattr(obj, a)]}")
        coeff = [sp.nsimplify(x) for x in np.asarray(obj.coeff).reshape(-1)]
        out[k] = {"m": int(obj.m), "coeff": coeff, "coeff_D": sp.nsimplify(obj.coeff_D), "kappa": getattr(obj, "kappa", None), "alpha": getattr(obj, "alpha", None)}
    if not out:
        raise AnalysisError("XL_BOMD.__init__ could not be interpreted for any k")
    return out


# ------------------------------------------------------------------------------------------------------------------------------------------------
# core-core parameter tuples handed to pair_nuclear_energy by the SCF energy and by the XL-BOMD energy (C06-R4, C09-R4): decided by value
# ------------------------------------------------------------------------------------------------------------------------------------------------
def slice_and_eval(I, mod, func, expr, env):
    """value of expression `expr` of function `func`: the top-level statements of func (before the one containing expr) that define, directly or transitively, a name
    expr reads are interpreted in order in `env`; then expr is evaluated"""
    import ast
    from .loader import AnalysisError
    from .npsym import _Frame
    host = None
    for st in func.body:
        if any(n is expr for n in ast.walk(st)):
            host = st
            break
    if host is None:
        raise AnalysisError("slice_and_eval: expression not at the top level of the function")
    before = func.body[:func.body.index(host)]
    needed = {n.id for n in ast.walk(expr) if isinstance(n, ast.Name)} - set(env)
    chosen = []
    for st in reversed(before):
        stores = {n.id for n in ast.walk(st) if isinstance(n, ast.Name) and isinstance(n.ctx, ast.Store)}
        if stores & needed:
            chosen.append(st)
            needed |= {n.id for n in ast.walk(st) if isinstance(n, ast.Name) and isinstance(n.ctx, ast.Load)} - set(env)
    fr = _Frame(I, mod, dict(env))
    fr.qual = next((q for q, n in mod.functions.items() if n is func), func.name)
    fr.self_name = func.args.args[0].arg if func.args.args else None
    for st in reversed(chosen):
        try:
            fr.stmt(st)
        except AnalysisError:
            # a chosen statement may also compute unrelated things from inputs the rule does not provide; what matters is whether expr can be evaluated afterwards
            continue
    return fr.ev(expr)


def interpreted_core_parameters(repo):
    """[(rel, qual, line, method, ok, message)] for the `parameters` argument of every pair_nuclear_energy call of the two energy drivers"""
    import ast
    import numpy as np
    import sympy as sp
    from .loader import AnalysisError, call_name, norm
    from .npsym import Instance, NpSym
    sites = (("seqm/basics.py", "Energy.forward", "Energy"), ("seqm/dynamics/xlbomd.py", "EnergyXL.forward", "EnergyXL"))
    nat = 3
    names = ["alpha"] + [f"Gaussian{i}_{x}" for i in range(1, 5) for x in "KLM"]
    params = {n: np.array([sp.Symbol(f"{n}_{a}") for a in range(nat)], dtype=object) for n in names}
    out = []
    for rel, qual, cls in sites:
        m = repo.mod(rel)
        f = m.func(qual)
        calls = [c for c in ast.walk(f) if isinstance(c, ast.Call) and (call_name(c) or "").split(".")[-1] == "pair_nuclear_energy"]
        if len(calls) != 1:
            raise AnalysisError(f"{qual}: {len(calls)} pair_nuclear_energy calls")
        c = calls[0]
        arg = next((k.value for k in c.keywords if k.arg == "parameters"), c.args[14] if len(c.args) > 14 else None)
        if arg is None:
            raise AnalysisError(f"{qual}: pair_nuclear_energy is called without its parameters argument")
        # the statement holding the call must be a top-level statement of the driver for the slice; the call itself is replaced by its argument
        for method, ng in (("MNDO", 0), ("AM1", 4), ("PM3", 2), ("PM6", 4), ("PM6_SP", 4)):
            I = NpSym(repo)
            selfobj = Instance(m, cls, method=method)
            # attributes the constructor initialises with a literal (flags, empty caches)
            init_ = m.functions.get(f"{cls}.__init__")
            for st_ in (ast.walk(init_) if init_ is not None else ()):
                if isinstance(st_, ast.Assign) and len(st_.targets) == 1 and isinstance(st_.targets[0], ast.Attribute) and norm(st_.targets[0].value) == "self" \
                        and isinstance(st_.value, (ast.Constant, ast.Dict, ast.List, ast.Tuple)) and st_.targets[0].attr != "method":
                    try:
                        setattr(selfobj, st_.targets[0].attr, ast.literal_eval(st_.value))
                    except (ValueError, SyntaxError):
                        pass
            mol = types.SimpleNamespace(parameters=dict(params), method=method)
            try:
                val = slice_and_eval(I, m, f, arg, {f.args.args[0].arg: selfobj, f.args.args[1].arg: mol})
            except AnalysisError as e:
                raise AnalysisError(f"{qual}: core-core parameter tuple not interpretable for {method}: {e}")
            val = tuple(val) if isinstance(val, (tuple, list)) else (val,)
            want = (params["alpha"],) if ng == 0 else (params["alpha"],) + tuple(np.stack([params[f"Gaussian{i}_{x}"] for i in range(1, ng + 1)], axis=1) for x in "KLM")
            ok = len(val) == len(want) and all(np.asarray(a).shape == np.asarray(b).shape and bool((np.asarray(a) == np.asarray(b)).all()) for a, b in zip(val, want))
            msg = ""
            if not ok:
                shapes = [tuple(np.asarray(a).shape) for a in val]
                msg = (f"{qual} hands pair_nuclear_energy a parameter tuple of shapes {shapes} for {method}; the published core-core term uses "
                       f"{'alpha only' if ng == 0 else f'alpha and {ng} Gaussians (K, L, M of shape (atoms, {ng}), Gaussian1..{ng} in this order)'}")
            out.append((rel, qual, c.lineno, method, ok, msg))
    return out


# ------------------------------------------------------------------------------------------------------------------------------------------------
# C17-R3: energy-conserving velocity adjustment of an accepted hop, frustrated hops untouched -- decided by value at exact points
# ------------------------------------------------------------------------------------------------------------------------------------------------
def interpreted_hop_rescale(repo, n_points=10, seed=5):
    """SurfaceHoppingDynamics._rescale_velocity_along_nac is interpreted (sa.npsym) for a batch of two trajectories (3 atoms, the last one padding with zero inverse mass)
    at exact rational points: downward hops (dE < 0), small upward hops that are allowed, large upward hops that are frustrated, both state orders (d_ji = -d_ij) and both
    signs of v.d.  Accepted: the routine returns True, v' - v = alpha d / m with one scalar alpha on the hopping trajectory only, KES * dE_kin + dE = 0 exactly, alpha is the
    root of smaller magnitude.  Frustrated (discriminant <= 0): returns False and no velocity changes.  Returns (ok, message, facts)."""
    import random
    import numpy as np
    import sympy as sp
    from .loader import AnalysisError
    from .npsym import Instance, NpSym, Raised
    nad = repo.mod("seqm/NonadiabaticDynamics.py")
    f = nad.func("SurfaceHoppingDynamics._rescale_velocity_along_nac")
    R = sp.Rational
    rng = random.Random(seed)
    try:
        KES = sp.nsimplify(NpSym(repo).global_value(nad, "CONSTANTS").KINETIC_ENERGY_SCALE)
    except (AnalysisError, AttributeError) as e:
        raise AnalysisError(f"CONSTANTS.KINETIC_ENERGY_SCALE not resolvable from {nad.rel}: {e}")
    facts = {"accepted": 0, "frustrated": 0}
    kinds = ["down", "up-small", "up-large"]
    for k in range(n_points * 3):
        kind = kinds[k % 3]
        nmol, A = 2, 3
        V = np.array([[[R(rng.randint(-30, 30), 17) or R(1, 17) for _ in range(3)] for _ in range(A)] for _ in range(nmol)], dtype=object)
        D = np.array([[[R(rng.randint(-20, 20), 13) or R(2, 13) for _ in range(3)] for _ in range(A)] for _ in range(nmol)], dtype=object)
        MI = np.array([[[R(rng.randint(1, 12), 7)] if a < A - 1 else [sp.Integer(0)] for a in range(A)] for _ in range(nmol)], dtype=object)
        V[:, A - 1, :] = sp.Integer(0)          # padding atoms are at rest (C13-R4); their coupling-vector entries are arbitrary
        mol_index = k % nmol
        i_state, j_state = ((0, 1) if kind == "down" else (1, 0)) if (k // 3) % 2 == 0 else ((2, 1) if kind == "down" else (1, 2))
        lo, hi = min(i_state, j_state), max(i_state, j_state)
        sign = 1 if i_state < j_state else -1
        d_eff = sign * D[mol_index]
        vd = sum(V[mol_index, a, c] * d_eff[a, c] for a in range(A) for c in range(3))
        d2m = sum(MI[mol_index, a, 0] * d_eff[a, c] ** 2 for a in range(A) for c in range(3))
        # the allowed upward gap is below vd^2 KES / (2 d2m)
        bound = vd ** 2 * KES / (2 * d2m)
        dE = -R(rng.randint(1, 9), 11) if kind == "down" else (bound * R(rng.randint(1, 8), 10) if kind == "up-small" else bound * R(rng.randint(11, 30), 10) + R(1, 100))
        mol = types.SimpleNamespace(velocities=V.copy(), mass_inverse=MI.copy())
        I = NpSym(repo)
        selfobj = Instance(nad, "SurfaceHoppingDynamics")
        try:
            ret = I.call_function(nad, f, [selfobj, {(lo, hi): D.copy()}, i_state, j_state, mol, dE, mol_index])
        except Raised as e:
            return False, f"the velocity adjustment raises for a regular hop request ({kind}): {str(e)[:100]}", facts
        Vn = np.asarray(mol.velocities)
        other = 1 - mol_index
        if any(sp.simplify(Vn[other, a, c] - V[other, a, c]) != 0 for a in range(A) for c in range(3)):
            return False, f"a hop of trajectory {mol_index} changes the velocities of trajectory {other}", facts
        dV = [[sp.simplify(Vn[mol_index, a, c] - V[mol_index, a, c]) for c in range(3)] for a in range(A)]
        moved = any(x != 0 for row in dV for x in row)
        frustrated = (vd ** 2 - 2 * (dE / KES) * d2m) <= 0
        if frustrated:
            facts["frustrated"] += 1
            if moved or bool(ret):
                return False, (f"a frustrated hop (gap {sp.N(dE, 6)} above the kinetic energy available along the coupling vector) "
                               f"{'changes the velocities' if moved else 'is reported as accepted'}: it must leave state and velocities untouched"), facts
            continue
        facts["accepted"] += 1
        if not bool(ret) or not moved:
            return False, f"an energetically allowed hop ({kind}, dE = {sp.N(dE, 6)}) is rejected / leaves the velocities unchanged", facts
        if any(x != 0 for x in dV[A - 1]):
            return False, "the velocity adjustment moves a padding atom (zero inverse mass)", facts
        alphas = [sp.simplify(dV[a][c] / (d_eff[a, c] * MI[mol_index, a, 0])) for a in range(A - 1) for c in range(3)]
        if any(sp.simplify(x - alphas[0]) != 0 for x in alphas):
            return False, "v' - v is not one scalar multiple of d / m on the hopping trajectory (the adjustment is not along the coupling vector)", facts
        al = alphas[0]
        # kinetic energy with masses 1/MI (padding excluded)
        dK = sum((Vn[mol_index, a, c] ** 2 - V[mol_index, a, c] ** 2) / MI[mol_index, a, 0] for a in range(A - 1) for c in range(3)) / 2
        resid = sp.simplify(KES * dK + dE)
        if resid != 0:
            return False, f"kinetic energy after the hop is off by {sp.N(resid, 8)} (KES * dE_kin + dE should vanish): total energy is not conserved across an accepted hop ({kind})", facts
        other_root = sp.simplify(-2 * vd / d2m - al)
        if sp.N(sp.Abs(al) - sp.Abs(other_root), 30) > 0:
            return False, f"the adjustment uses the root of larger magnitude (alpha = {sp.N(al, 8)}, the other root is {sp.N(other_root, 8)})", facts
    return True, "", facts


# ------------------------------------------------------------------------------------------------------------------------------------------------
# C17-R3/R4: bookkeeping of the hop loop (SurfaceHoppingDynamics._after_electronic_update), decided by value on a batch of four trajectories
# ------------------------------------------------------------------------------------------------------------------------------------------------
def interpreted_hop_bookkeeping(repo):
    """_after_electronic_update is interpreted (sa.npsym) with stand-ins for the hop draw (preset targets), the coupling-vector evaluation and the velocity adjustment
    (records its arguments, returns a preset verdict per trajectory).  Batch: four trajectories, three states, active = [0, 1, 2, 1], proposed hops [1, -, 0, 2], the fourth
    trajectory is in its post-hop hold-off; the hop of trajectory 0 is accepted, the hop of trajectory 2 is frustrated.  Checked: the adjustment is requested exactly once for
    each hopping trajectory with (from = its active state, to = its target, dE = E[its row, to] - E[its row, from], its own index); only an accepted hop changes the active
    state and starts the hold-off; a frustrated hop changes nothing of the state; untouched trajectories keep state, hold-off and amplitudes; the reported potential follows the
    new active state; forces are recomputed iff some hop was accepted.  Returns (ok, message, facts)."""
    import numpy as np
    import sympy as sp
    from .loader import AnalysisError
    from .npsym import Instance, NpSym, Raised
    nad = repo.mod("seqm/NonadiabaticDynamics.py")
    f = nad.func("SurfaceHoppingDynamics._after_electronic_update")
    R = sp.Rational
    facts = {"scenarios": 0}
    nmol, ns = 4, 3
    E = np.array([[R(10 * m + 3 * s * s + s, 7) for s in range(ns)] for m in range(nmol)], dtype=object)
    for decohere in (True, False):
        for verdicts in ({0: True, 2: False}, {0: False, 2: False}, {0: True, 2: True}):
            active0 = [0, 1, 2, 1]
            targets = [1, -1, 0, 2]
            hold0 = [0, 0, 0, 1]
            calls, recomputed = [], []
            amp = np.array([[[R(100 * m + 10 * s + c + 1, 1000) for c in range(3)] for s in range(ns)] for m in range(nmol)], dtype=object)
            amp0 = amp.copy()
            etot0 = np.array([R(-500 - m, 3) for m in range(nmol)], dtype=object)

            def rescale(fr, nac, i_state, j_state, molecule, dE, mol_index=None, **k):
                calls.append((int(i_state), int(j_state), sp.nsimplify(dE), int(mol_index) if mol_index is not None else None))
                return verdicts.get(int(mol_index) if mol_index is not None else -1, False)
            mol = types.SimpleNamespace(coordinates=np.zeros((nmol, 2, 3), dtype=object), Etot=etot0.copy(), force=np.full((nmol, 2, 3), sp.Integer(1), dtype=object),
                                        mass_inverse=np.full((nmol, 2, 1), sp.Integer(1), dtype=object), acc=None)
            selfobj = Instance(nad, "SurfaceHoppingDynamics", _active_states=np.array(active0, dtype=np.int64), _trivial_crossing_mask=None,
                               post_hop_holdoff=np.array(hold0, dtype=np.int64), prev_state=np.full((nmol,), -1, dtype=np.int64), _amp_phase=amp, hop_log=[],
                               step_offset=0, _decohere_on_hop=decohere, _current_potential=None, _arange_cache={},
                               _attempt_hop=lambda fr: np.array(targets, dtype=np.int64),
                               _compute_NACR_for_hop=lambda fr, molecule, pairs: {"pairs": list(pairs)},
                               _rescale_velocity_along_nac=rescale,
                               _recompute_active_force=lambda fr, molecule: recomputed.append(1))
            I = NpSym(repo)
            I.construct_instances = True
            try:
                I.call_function(nad, f, [selfobj, mol, E.copy()], {"step": 6})
            except Raised as e:
                return False, f"the hop bookkeeping raises on a regular batch: {str(e)[:120]}", facts
            facts["scenarios"] += 1
            hopping = [0, 2]        # trajectory 3 is in its hold-off, trajectory 1 has no proposal
            want_calls = sorted((active0[m], targets[m], sp.nsimplify(E[m, targets[m]] - E[m, active0[m]]), m) for m in hopping)
            if sorted(calls, key=lambda c: (c[3] if c[3] is not None else -1)) != sorted(want_calls, key=lambda c: c[3]):
                got = [(c[0], c[1], str(c[2]), c[3]) for c in calls]
                exp = [(c[0], c[1], str(c[2]), c[3]) for c in want_calls]
                return False, (f"the velocity adjustment is requested with (from, to, dE, trajectory) = {got}; the hopping trajectories need {exp} "
                               f"(each with its own states, its own energy gap and its own index; a trajectory in its hold-off does not hop)"), facts
            act = [int(x) for x in np.asarray(selfobj._active_states)]
            want_act = [targets[m] if (m in hopping and verdicts.get(m)) else active0[m] for m in range(nmol)]
            if act != want_act:
                return False, f"active states after the hop step are {act}, expected {want_act} (only an accepted hop switches the surface; verdicts {verdicts})", facts
            hold = [int(x) for x in np.asarray(selfobj.post_hop_holdoff)]
            want_hold = [2 if (m in hopping and verdicts.get(m)) else hold0[m] for m in range(nmol)]
            if hold != want_hold:
                return False, f"hold-off counters after the hop step are {hold}, expected {want_hold}", facts
            for m in range(nmol):
                row = np.asarray(selfobj._amp_phase)[m]
                if decohere and m in hopping:
                    on = want_act[m]
                    exp_row = np.zeros((ns, 3), dtype=object)
                    exp_row[on, 0] = 1
                    if any(sp.simplify(row[s, c] - exp_row[s, c]) != 0 for s in range(ns) for c in range(3)):
                        return False, f"decoherence on hop: the amplitudes of trajectory {m} are not collapsed onto the surface it continues on (state {on})", facts
                elif any(sp.simplify(row[s, c] - amp0[m, s, c]) != 0 for s in range(ns) for c in range(3)):
                    return False, f"the amplitudes of trajectory {m} change although it {'does not hop' if m not in hopping else 'hops without decoherence'}", facts
            log = [(int(getattr(ev, "mol_index")), int(getattr(ev, "from_state")), int(getattr(ev, "to_state")), bool(getattr(ev, "accepted")), int(getattr(ev, "step"))) for ev in selfobj.hop_log]
            want_log = sorted((m, active0[m], targets[m], bool(verdicts.get(m)), 7) for m in hopping)
            if sorted(log) != want_log:
                return False, f"the hop log records {sorted(log)} (trajectory, from, to, accepted, step), expected {want_log}", facts
            if bool(recomputed) != any(verdicts.get(m) for m in hopping):
                return False, ("forces are not recomputed after an accepted hop (the trajectory continues with the old surface's force)" if not recomputed
                               else "forces are recomputed although no hop was accepted"), facts
            et = np.asarray(mol.Etot).reshape(-1)
            for m in range(nmol):
                exp = etot0[m] - E[m, active0[m]] + E[m, want_act[m]]
                if sp.simplify(et[m] - exp) != 0:
                    return False, f"the potential energy reported for trajectory {m} after the hop step is not that of its active surface (E_total - E[old] + E[new])", facts
    return True, "", facts


# ------------------------------------------------------------------------------------------------------------------------------------------------
# C14-R2: the tail of Energy.forward that assembles Etot / Hf from their parts, decided by value
# ------------------------------------------------------------------------------------------------------------------------------------------------
def interpreted_energy_tail(repo):
    """The top-level statement of Energy.forward that calls heat_formation (the `if all_terms:` tail) is interpreted (sa.npsym) on a batch of three molecules with symbolic
    electronic / pair-nuclear / excitation / dispersion energies; total_energy is interpreted, the isolated-atom energy, the dispersion term and heat_formation are stand-ins
    (heat_formation records the total energy it is given).  Checked for dispersion on and off (AM1) and for PM3 with the flag on (the correction is AM1 only):
    returned Etot = Eelec + sum of the molecule's pair terms + excitation energy (+ dispersion), each once; the heat of formation is computed from that same final Etot.
    Returns (ok, message, name of the excitation addend)."""
    import ast
    import numpy as np
    import sympy as sp
    from .loader import AnalysisError, call_name
    from .npsym import Instance, NpSym, Raised, _Frame, _Return
    bs = repo.mod("seqm/basics.py")
    f = bs.func("Energy.forward")
    hosts = [st for st in f.body if any(isinstance(c, ast.Call) and (call_name(c) or "").split(".")[-1] == "heat_formation" for c in ast.walk(st))]
    if len(hosts) != 1:
        raise AnalysisError(f"Energy.forward: {len(hosts)} top-level statements call heat_formation")
    host = hosts[0]
    nmol = 3
    pair_molid = np.array([0, 0, 1, 2, 2, 2], dtype=np.int64)
    Eelec = np.array([sp.Symbol(f"Eel{m}") for m in range(nmol)], dtype=object)
    EnucAB = np.array([sp.Symbol(f"Enuc{p}") for p in range(len(pair_molid))], dtype=object)
    Eexc = np.array([sp.Symbol(f"Eexc{m}") for m in range(nmol)], dtype=object)
    Edisp = np.array([sp.Symbol(f"Edisp{m}") for m in range(nmol)], dtype=object)
    want_nuc = [sum(EnucAB[p] for p in range(len(pair_molid)) if pair_molid[p] == m) for m in range(nmol)]
    for method, flag in (("AM1", True), ("AM1", False), ("PM3", True)):
        seen = {}

        def heat_formation(const, nmol_, atom_molid, Z, Etot, Eiso, flag=True, **k):
            seen["Etot"] = np.asarray(Etot).copy()
            return np.array([sp.Symbol(f"Hf{m}") for m in range(nmol)], dtype=object), np.array([sp.Symbol(f"EisoSum{m}") for m in range(nmol)], dtype=object)
        stubs = {"elec_energy_isolated_atom": lambda *a, **k: np.array([sp.Symbol(f"Eiso{a_}") for a_ in range(5)], dtype=object),
                 "dispersion_am1_fs1": lambda *a, **k: Edisp.copy(), "heat_formation": heat_formation}
        I = NpSym(repo, stubs=stubs)
        selfobj = Instance(bs, "Energy", seqm_parameters={"dispersion": flag}, method=method, Hf_flag=True)
        params = {k: np.array([sp.Symbol(f"{k}_{a_}") for a_ in range(5)], dtype=object) for k in ("U_ss", "U_pp", "g_ss", "g_pp", "g_sp", "g_p2", "h_sp")}
        mol = types.SimpleNamespace(nmol=nmol, pair_molid=pair_molid, const=types.SimpleNamespace(), Z=np.array([6, 1, 8, 7, 1], dtype=np.int64),
                                    atom_molid=np.array([0, 0, 1, 2, 2], dtype=np.int64), parameters=params)
        env = {f.args.args[0].arg: selfobj, f.args.args[1].arg: mol, "all_terms": True, "EnucAB": EnucAB.copy(), "Eelec": Eelec.copy(), "Eexcited": Eexc.copy(),
               "P": np.zeros((nmol, 2, 2), dtype=object)}
        for nm in ("e_gap", "e", "charge", "notconverged", "F", "w", "v", "Hcore"):
            env[nm] = sp.Symbol(nm)
        fr = _Frame(I, bs, env)
        fr.qual, fr.self_name = "Energy.forward", f.args.args[0].arg
        try:
            fr.stmt(host)
            return False, "the energy assembly of Energy.forward does not return when all terms are requested", "Eexcited"
        except _Return as r:
            ret = r.v
        except Raised as e:
            return False, f"the energy assembly raises on a regular request: {str(e)[:100]}", "Eexcited"
        if not isinstance(ret, tuple) or len(ret) < 2:
            raise AnalysisError("Energy.forward: the all-terms return is not a tuple")
        want = [Eelec[m] + want_nuc[m] + Eexc[m] + (Edisp[m] if (flag and method == "AM1") else 0) for m in range(nmol)]
        cand = [k for k, x in enumerate(ret) if isinstance(x, np.ndarray) and x.shape == (nmol,) and all(sp.expand(x[m] - want[m]) == 0 for m in range(nmol))]
        if not cand:
            shown = next((x for x in ret[1:3] if isinstance(x, np.ndarray) and x.shape == (nmol,)), None)
            return False, (f"no returned energy equals Eelec + pair-nuclear terms of the molecule + excitation energy"
                           f"{' + dispersion' if (flag and method == 'AM1') else ''} (method {method}, dispersion flag {flag}); the returned total energy of molecule 0 is "
                           f"{shown[0] if shown is not None else '?'}"), "Eexcited"
        if "Etot" not in seen:
            return False, "heat_formation is not evaluated on the all-terms path", "Eexcited"
        if any(sp.expand(seen["Etot"][m] - want[m]) != 0 for m in range(nmol)):
            return False, (f"the heat of formation is computed from {seen['Etot'][0]} while the reported total energy is {want[0]} (method {method}, dispersion flag {flag}): "
                           f"Hf and Etot describe different energies (a term is added to Etot after Hf was formed, or left out of it)"), "Eexcited"
    return True, "", "Eexcited"


# ------------------------------------------------------------------------------------------------------------------------------------------------
# C14-R1/R4: what Electronic_Structure.forward reports on the molecule, decided by value (both density-propagation modes)
# ------------------------------------------------------------------------------------------------------------------------------------------------
def interpreted_reported_observables(repo):
    """Electronic_Structure.forward is interpreted (sa.npsym) with stand-ins for the two force drivers that return distinct stamped results; checked for dm_prop in
    {SCF, XL-BOMD} x {closed, open shell} x {AM1, PM6} on a padded batch: every returned quantity lands in its own attribute of the molecule (force, Hf, Etot, Eelec, Enuc,
    Eiso, e_mo, e_gap; for XL-BOMD also entropy, dP2dt2, Krylov error, Fermi occupations), molecule.dm is the density the driver returned (not the density handed in), and
    molecule.q is the core charge minus the block-diagonal population of that reported density.  Returns [(case, ok, message)]."""
    import numpy as np
    import sympy as sp
    from .loader import AnalysisError
    from .npsym import Instance, NpSym, Raised
    es = repo.mod("seqm/ElectronicStructure.py")
    f = es.func("Electronic_Structure.forward")
    species = np.array([[8, 6, 1], [7, 1, 0]], dtype=np.int64)
    tore = np.array([sp.Integer(0)] + [sp.Symbol(f"Z{z}") for z in range(1, 10)], dtype=object)
    out = []
    for dm_prop in ("SCF", "XL-BOMD"):
        for nbf, method in ((4, "AM1"), (9, "PM6")):
            for open_shell in (False, True):
                N = 3 * nbf
                dens = lambda name: np.array([[[sp.Symbol(f"{name}{m}_{min(i, j)}_{max(i, j)}") for j in range(N)] for i in range(N)] for m in range(2)], dtype=object)
                mk = lambda tag: (np.stack([dens(tag + "a"), dens(tag + "b")], axis=1) if open_shell else dens(tag + "a"))
                D_ret, P_in = mk("D"), mk("Q")
                tok = {k: np.array([sp.Symbol(f"{k}{m}") for m in range(2)], dtype=object) for k in ("force", "Hf", "Etot", "Eelec", "Enuc", "Eiso", "e_mo", "e_gap", "charge",
                                                                                                     "notconv", "entropy", "dP2dt2", "krylov", "fermi")}

                def scf_driver(fr, molecule, *a, **k):
                    return (tok["force"], D_ret.copy(), tok["Hf"], tok["Etot"], tok["Eelec"], tok["Enuc"], tok["Eiso"], tok["e_mo"], tok["e_gap"], tok["charge"], tok["notconv"])

                def xl_driver(fr, molecule, P, *a, **k):
                    return (tok["force"], D_ret.copy(), tok["Hf"], tok["Etot"], tok["Eelec"], tok["Enuc"], tok["Eiso"], tok["e_mo"], tok["e_gap"], tok["entropy"], tok["dP2dt2"],
                            tok["krylov"], tok["fermi"])
                mol = types.SimpleNamespace(dm=None, method=method, const=types.SimpleNamespace(tore=tore), species=species, q=None, force=None, Hf=None, Etot=None, Eelec=None,
                                            Enuc=None, Eiso=None, e_mo=None, e_gap=None, Electronic_entropy=None, dP2dt2=None, Krylov_Error=None, Fermi_occ=None)
                selfobj = Instance(es, "Electronic_Structure", conservative_force=scf_driver, conservative_force_xl=xl_driver, seqm_parameters={}, charge=None, notconverged=None)
                case = f"dm_prop={dm_prop}, {method}, {'open' if open_shell else 'closed'} shell"
                try:
                    NpSym(repo).call_function(es, f, [selfobj, mol], {"P0": P_in.copy(), "dm_prop": dm_prop, "xl_bomd_params": {"k": 4}})
                except Raised as e:
                    out.append((case, False, f"Electronic_Structure.forward raises on a regular request: {str(e)[:100]}"))
                    continue
                msg = ""
                pairs = [("force", "force"), ("Hf", "Hf"), ("Etot", "Etot"), ("Eelec", "Eelec"), ("Enuc", "Enuc"), ("Eiso", "Eiso"), ("e_mo", "e_mo"), ("e_gap", "e_gap")]
                if dm_prop == "XL-BOMD":
                    pairs += [("Electronic_entropy", "entropy"), ("dP2dt2", "dP2dt2"), ("Krylov_Error", "krylov"), ("Fermi_occ", "fermi")]
                for attr, k in pairs:
                    v = getattr(mol, attr, None)
                    if not (isinstance(v, np.ndarray) and v.shape == tok[k].shape and all(sp.sympify(a_) == b_ for a_, b_ in zip(v, tok[k]))):
                        msg = f"molecule.{attr} does not receive the driver's `{k}` result (it holds {str(v)[:40]})"
                        break
                if not msg:
                    dm = mol.dm
                    if not (isinstance(dm, np.ndarray) and dm.shape == D_ret.shape and bool((dm == D_ret).all())):
                        msg = ("molecule.dm is not the density matrix returned by the force driver" +
                               (" (it is the density that was handed in: with XL-BOMD that is the propagated auxiliary density)" if isinstance(dm, np.ndarray) and dm.shape == P_in.shape and bool((dm == P_in).all()) else ""))
                if not msg:
                    Ptot = (D_ret[:, 0] + D_ret[:, 1]) if open_shell else D_ret
                    q = mol.q
                    ok = getattr(q, "shape", None) == (2, 3)
                    bad_from_in = False
                    if ok:
                        Pin_tot = (P_in[:, 0] + P_in[:, 1]) if open_shell else P_in
                        for m in range(2):
                            for a in range(3):
                                want = tore[species[m, a]] - sp.Add(*[Ptot[m, a * nbf + i, a * nbf + i] for i in range(nbf)])
                                if sp.expand(sp.sympify(q[m, a]) - want) != 0:
                                    ok = False
                                    alt = tore[species[m, a]] - sp.Add(*[Pin_tot[m, a * nbf + i, a * nbf + i] for i in range(nbf)])
                                    bad_from_in = bad_from_in or sp.expand(sp.sympify(q[m, a]) - alt) == 0
                    if not ok:
                        msg = ("the reported atomic charges are not core charge minus the block-diagonal population of the reported density molecule.dm" +
                               (": they are computed from the density that was handed in (with XL-BOMD the propagated auxiliary density), so charges and density describe different states"
                                if bad_from_in else " (wrong spin block / orbital count / sign)"))
                out.append((case, not msg, msg))
    return out


# ------------------------------------------------------------------------------------------------------------------------------------------------
# C08-R1 / C12-R2: one velocity-Verlet step (plain and with the Langevin O half-steps), decided by value as polynomial identities
# ------------------------------------------------------------------------------------------------------------------------------------------------
def interpreted_verlet_step(repo):
    """one_step of Molecular_Dynamics_Basic and of Molecular_Dynamics_Langevin is interpreted (sa.npsym) on symbolic positions, velocities, accelerations, inverse masses and
    time step for a padded batch (two molecules x two atoms).  The electronic-structure driver is a stand-in that records the coordinates it is called with and publishes a new
    symbolic force; the thermostat half-step of the Langevin engine is a stand-in v <- c1 v + c2 xi_k with a fresh noise array per call.  Identities (exact, expanded):
        x' = x + v~ dt + 1/2 a dt^2,  force evaluated once, at x',  a' = F' / m * ACC_SCALE,  v' = v~ + 1/2 (a + a') dt        (v~ = v, plain)
        Langevin: v~ = c1 v + c2 xi_1 enters the Verlet step and the result is passed through v <- c1 v + c2 xi_2 (O - V - O, two noise draws)
    Returns [(engine, ok, message)]."""
    import numpy as np
    import sympy as sp
    from .loader import AnalysisError
    from .npsym import Instance, NpSym, Raised
    md = repo.mod("seqm/MolecularDynamics.py")
    shape = (2, 2, 3)
    sym = lambda tag: np.array([[[sp.Symbol(f"{tag}{m}{a}{c}") for c in range(3)] for a in range(2)] for m in range(2)], dtype=object)
    dt, c1, c2 = sp.symbols("dt c1 c2")
    ACC = sp.nsimplify(NpSym(repo).global_value(md, "CONSTANTS").ACC_SCALE)
    out = []
    for cls, thermostat in (("Molecular_Dynamics_Basic", False), ("Molecular_Dynamics_Langevin", True)):
        if f"{cls}.one_step" not in md.functions:
            continue
        x, v, a, F = sym("x"), sym("v"), sym("a"), sym("F")
        mi = np.array([[[sp.Symbol(f"w{m}{a_}")] for a_ in range(2)] for m in range(2)], dtype=object)
        calls, noises = [], []
        mol = types.SimpleNamespace(coordinates=x.copy(), velocities=v.copy(), acc=a.copy(), force=None, mass_inverse=mi.copy(), dm=None, cis_amplitudes=None,
                                    const=types.SimpleNamespace(do_timing=False, timing={"MD": []}))

        def driver(fr, molecule, *a_, **k):
            calls.append(np.asarray(molecule.coordinates).copy())
            molecule.force = F.copy()

        def o_step(fr, molecule):
            xi = sym(f"xi{len(noises) + 1}_")
            noises.append(xi)
            molecule.velocities[...] = c1 * molecule.velocities + c2 * xi
        selfobj = Instance(md, cls, timestep=dt, esdriver=driver, langevin_c1=c1, langevin_c2=c2, damp=sp.Integer(50))
        if thermostat:
            selfobj._apply_langevin_thermostat = o_step
        try:
            NpSym(repo).call_function(md, md.func(f"{cls}.one_step"), [selfobj, mol])
        except Raised as e:
            out.append((cls, False, f"one_step raises: {str(e)[:100]}"))
            continue
        eq = lambda A, B: all(sp.expand(sp.sympify(p) - q) == 0 for p, q in zip(np.asarray(A).reshape(-1), np.asarray(B).reshape(-1)))
        msg = ""
        v0 = (c1 * v + c2 * noises[0]) if (thermostat and noises) else v
        x_new = x + v0 * dt + a * dt ** 2 / 2
        a_new = F * mi * ACC
        v_mid = v0 + (a + a_new) * dt / 2
        if thermostat and len(noises) != 2:
            msg = f"the thermostat half-step is applied {len(noises)} time(s) in one step; the scheme applies it before and after the Verlet step (two independent noise draws)"
        elif len(calls) != 1:
            msg = f"the forces are evaluated {len(calls)} times in one step"
        elif not eq(calls[0], x_new):
            msg = "the forces are not evaluated at the new positions x + v dt + 1/2 a dt^2 (drift and force evaluation out of order, or wrong half-kick before the drift)"
        elif not eq(mol.coordinates, x_new):
            msg = "the positions after the step are not x + v dt + 1/2 a dt^2"
        elif not eq(mol.acc, a_new):
            msg = "the acceleration after the step is not F(x') / m * ACC_SCALE"
        else:
            v_new = (c1 * v_mid + c2 * noises[1]) if thermostat else v_mid
            if not eq(mol.velocities, v_new):
                msg = ("the velocities after the step are not v + 1/2 (a + a') dt" if not thermostat else
                       "the velocities after the step are not O(V(O(v))): thermostat half-step, velocity-Verlet step with both half-kicks, thermostat half-step")
        out.append((cls, not msg, msg))
    if not out:
        raise AnalysisError("no one_step implementation found")
    return out


# ------------------------------------------------------------------------------------------------------------------------------------------------
# C16-R4: the orbital window of the CIS / RPA active space, decided by value
# ------------------------------------------------------------------------------------------------------------------------------------------------
def interpreted_orbital_window(repo):
    """get_occ_virt (the active space of the Davidson drivers) and the orbital-energy differences of calc_cis_energy are interpreted (sa.npsym) for a uniform batch with 4
    occupied of 9 orbitals and the windows None, (2, 3), (1, 4), (3, 1), (4, 5): the occupied block must be the n highest occupied orbitals, the virtual block the m lowest
    virtual ones (n first, m second, as documented: `(n, m): n orbitals below the HOMO and m above the LUMO`), ea_ei[b, i, a] = e[b, virt_a] - e[b, occ_i]; windows that exceed
    the occupied / virtual space, (5, 1) and (1, 6), must be rejected.  Heterogeneous batches: no window -> padded per-molecule blocks.  Returns (ok, message, n)."""
    import ast
    import numpy as np
    import sympy as sp
    from .loader import AnalysisError
    from .npsym import NpSym, Raised
    rc = repo.mod("seqm/seqm_functions/rcis_batch.py")
    f = rc.func("get_occ_virt")
    nmol, nb, norb, nocc = 2, 3, 9, 4
    C = np.array([[[sp.Symbol(f"C{m}_{b}_{k}") for k in range(norb)] for b in range(nb)] for m in range(nmol)], dtype=object)
    e = np.array([[sp.Symbol(f"e{m}_{k}") for k in range(norb)] for m in range(nmol)], dtype=object)
    mol = lambda: types.SimpleNamespace(molecular_orbitals=C.copy(), nocc=np.array([nocc] * nmol, dtype=np.int64), norb=np.array([norb] * nmol, dtype=np.int64), nmol=nmol)
    n = 0
    for win in (None, (2, 3), (1, 4), (3, 1), (4, 5)):
        n_below, m_above = (nocc, norb - nocc) if win is None else win
        try:
            res = NpSym(repo).call_function(rc, f, [mol()], {"orbital_window": win, "e_mo": e.copy()})
        except Raised as ex:
            return False, f"get_occ_virt rejects the valid orbital window {win} (4 occupied, 5 virtual orbitals): {str(ex)[:80]}", n
        n += 1
        no, nv, Cocc, Cvirt, ea_ei = res
        occ = list(range(nocc - n_below, nocc))
        virt = list(range(nocc, nocc + m_above))
        ok = int(no) == len(occ) and int(nv) == len(virt) and np.asarray(Cocc).shape == (nmol, nb, len(occ)) and np.asarray(Cvirt).shape == (nmol, nb, len(virt))
        ok = ok and bool((np.asarray(Cocc) == C[:, :, occ]).all()) and bool((np.asarray(Cvirt) == C[:, :, virt]).all())
        if not ok:
            return False, (f"orbital window {win} (documented: n orbitals below the HOMO, m above the LUMO): the active space is not the {n_below} highest occupied and the {m_above} "
                           f"lowest virtual orbitals (it has {int(no)} occupied and {int(nv)} virtual orbitals): the eigenvalues returned are those of another window"), n
        want = np.array([[[e[b, a] - e[b, i] for a in virt] for i in occ] for b in range(nmol)], dtype=object)
        if np.asarray(ea_ei).shape != want.shape or not bool((np.asarray(ea_ei) == want).all()):
            return False, f"orbital window {win}: the orbital-energy differences are not e[virtual] - e[occupied] of the active orbitals", n
    for win in ((5, 1), (1, 6)):
        try:
            NpSym(repo).call_function(rc, f, [mol()], {"orbital_window": win, "e_mo": e.copy()})
            return False, f"the orbital window {win} exceeds the 4 occupied / 5 virtual orbitals and is accepted", n
        except Raised:
            n += 1
    # orbital-energy differences of calc_cis_energy under a window: the top-level statement that defines ea_ei, by backward slice
    ce = rc.func("calc_cis_energy")
    tgt = [st for st in ce.body if isinstance(st, ast.Assign) and any(isinstance(t, ast.Name) and t.id == "ea_ei" for t in st.targets)]
    if len(tgt) == 1:
        for win in (None, (2, 3), (3, 1)):
            n_below, m_above = (nocc, norb - nocc) if win is None else win
            I = NpSym(repo)
            env = {"mol": mol(), "e_mo": e.copy(), "orbital_window": win, "rpa": True, "w": None, "amplitude": None, "F": None, "P": None}
            try:
                val = slice_and_eval(I, rc, ce, tgt[0].value, env)
            except (AnalysisError, Raised):
                break
            occ, virt = list(range(nocc - n_below, nocc)), list(range(nocc, nocc + m_above))
            want = np.array([[[e[b, a] - e[b, i] for a in virt] for i in occ] for b in range(nmol)], dtype=object)
            n += 1
            if np.asarray(val).shape != want.shape or not bool((np.asarray(val) == want).all()):
                return False, (f"calc_cis_energy with the orbital window {win}: the orbital-energy differences are not those of the {n_below} highest occupied and {m_above} lowest "
                               f"virtual orbitals (the excitation energy handed to the gradient belongs to another window)"), n
    return True, "", n


# ------------------------------------------------------------------------------------------------------------------------------------------------
# C06-R10 / C19-R4: the PM6-family core-core term against the published form (Stewart 2007), decided by value on symbolic pairs
# ------------------------------------------------------------------------------------------------------------------------------------------------
def interpreted_pm6_core_core(repo):
    """pair_nuclear_energy is interpreted (sa.npsym) for method PM6 / PM6_SP on one pair of each kind -- C-H, N-H, O-H, C-C, Si-O, O-O (generic), Si-H (generic) -- with
    symbolic distance, core charges, rho_core, diatomic alpha / x parameters and Gaussian terms.  Published form, with g = ev / sqrt(r^2 + (rho_A + rho_B)^2) and R in Angstrom:
        E = Z_A Z_B g [1 + 2 x_AB exp(-alpha_AB (R + 0.0003 R^6))]   (X-H with X in {C, N, O}: exponent -alpha_AB R^2)
            + 1e-8 [(Zn_A^(1/3) + Zn_B^(1/3)) / R]^12  +  Z_A Z_B / R * (sum of the two atoms' Gaussians)
            + Z_A Z_B g 9.28 exp(-5.98 R) for C-C,   - Z_A Z_B g 0.0007 exp(-(R - 2.9)^2) for Si-O
    (the Si-O Gaussian is accepted with the distance in either unit: the repository evaluates it with the distance in bohr, an observation recorded in DESIGN.md).
    Returns [(method, pair, ok, message)]."""
    import numpy as np
    import sympy as sp
    from .loader import AnalysisError
    from .npsym import NpSym, Raised
    en = repo.mod("seqm/seqm_functions/energy.py")
    f = en.func("pair_nuclear_energy")
    I0 = NpSym(repo)
    a0 = sp.nsimplify(I0.global_value(en, "a0"))
    ev = sp.nsimplify(I0.global_value(en, "ev"))
    pairs = [(6, 1, "C-H"), (7, 1, "N-H"), (8, 1, "O-H"), (6, 6, "C-C"), (14, 8, "Si-O"), (8, 8, "O-O"), (14, 1, "Si-H")]
    npairs = len(pairs)
    ni = np.array([p[0] for p in pairs], dtype=np.int64)
    nj = np.array([p[1] for p in pairs], dtype=np.int64)
    idxi = np.arange(npairs, dtype=np.int64)
    idxj = np.arange(npairs, 2 * npairs, dtype=np.int64)
    r = np.array([sp.Symbol(f"r{k}", positive=True) for k in range(npairs)], dtype=object)
    rhoi = np.array([sp.Symbol(f"rhoA{k}", positive=True) for k in range(npairs)], dtype=object)
    rhoj = np.array([sp.Symbol(f"rhoB{k}", positive=True) for k in range(npairs)], dtype=object)
    gam = np.array([sp.Symbol(f"gam{k}") for k in range(npairs)], dtype=object)
    tore = np.array([sp.Symbol(f"Z{z}", positive=True) for z in range(19)], dtype=object)
    atomic_num = np.array([sp.Integer(z) for z in range(19)], dtype=object)
    chi = np.array([[sp.Symbol(f"x_{a}_{b}") for b in range(19)] for a in range(19)], dtype=object)
    alp = np.array([[sp.Symbol(f"al_{a}_{b}", positive=True) for b in range(19)] for a in range(19)], dtype=object)
    nat = 2 * npairs
    alpha = np.array([sp.Symbol(f"alpha{a}") for a in range(nat)], dtype=object)
    K, L, M = (np.array([[sp.Symbol(f"{t}{a}_{g}") for g in range(4)] for a in range(nat)], dtype=object) for t in "KLM")
    out = []
    for method in ("PM6", "PM6_SP"):
        const = types.SimpleNamespace(atomic_num=atomic_num, tore=tore)
        try:
            E = NpSym(repo).call_function(en, f, [None, const, 1, ni, nj, idxi, idxj, r.copy(), rhoi.copy(), rhoj.copy(), alp, chi], {"gam": gam.copy(), "method": method, "parameters": (alpha, K, L, M)})
        except Raised as e:
            out.append((method, "all", False, f"pair_nuclear_energy raises for {method}: {str(e)[:80]}"))
            continue
        E = np.asarray(E)
        for k, (za, zb, name) in enumerate(pairs):
            R = r[k] * a0
            g = ev / sp.sqrt(r[k] ** 2 + (rhoi[k] + rhoj[k]) ** 2)
            ZZ = tore[za] * tore[zb]
            xh = za in (6, 7, 8) and zb == 1
            expo = -alp[za, zb] * (R ** 2 if xh else (R + sp.Rational(3, 10000) * R ** 6))
            want = ZZ * g * (1 + 2 * chi[za, zb] * sp.exp(expo)) + sp.Rational(1, 10 ** 8) * ((sp.Integer(za) ** sp.Rational(1, 3) + sp.Integer(zb) ** sp.Rational(1, 3)) / R) ** 12
            want += ZZ / R * (sum(K[idxi[k], g_] * sp.exp(-L[idxi[k], g_] * (R - M[idxi[k], g_]) ** 2) for g_ in range(4))
                              + sum(K[idxj[k], g_] * sp.exp(-L[idxj[k], g_] * (R - M[idxj[k], g_]) ** 2) for g_ in range(4)))
            alts = [want]
            if name == "C-C":
                alts = [want + ZZ * g * sp.Rational(928, 100) * sp.exp(-R * sp.Rational(598, 100))]
            if name == "Si-O":
                alts = [want - ZZ * g * sp.Rational(7, 10000) * sp.exp(-(R - sp.Rational(29, 10)) ** 2), want - ZZ * g * sp.Rational(7, 10000) * sp.exp(-(r[k] - sp.Rational(29, 10)) ** 2)]
            got = sp.sympify(E[k])
            rng = np.random.RandomState(7 + k)
            syms = sorted(set().union(*[a_.free_symbols for a_ in alts]) | got.free_symbols, key=str)
            ok = False
            for alt in alts:
                good = True
                for _ in range(3):
                    vals = {s_: sp.Rational(int(rng.randint(3, 40)), 17) for s_ in syms}
                    d = sp.N((got - alt).subs(vals), 40)
                    scale = abs(sp.N(alt.subs(vals), 40)) + 1
                    if abs(d) > scale * sp.Float("1e-11"):
                        good = False
                        break
                ok = ok or good
            msg = ""
            if not ok:
                msg = (f"{method}: the core-core energy of a {name} pair is not the published PM6 form "
                       f"(Z_A Z_B g [1 + 2 x exp(-alpha {'R^2' if xh else '(R + 0.0003 R^6)'})] + unpolarisable-core term + Gaussians"
                       f"{' + 9.28 exp(-5.98 R) term' if name == 'C-C' else ' - 0.0007 exp(-(R - 2.9)^2) term' if name == 'Si-O' else ''}): fragments containing such a pair get a wrong "
                       f"interaction energy at every distance")
            out.append((method, name, ok, msg))
    return out


# ------------------------------------------------------------------------------------------------------------------------------------------------
# C12-R1 / R3 (and the ZeroOnPad fact about the noise amplitude used by C13-R4): the Langevin coefficients by value
# ------------------------------------------------------------------------------------------------------------------------------------------------
def interpreted_langevin_coefficients(repo):
    """Molecular_Dynamics_Langevin.initialize is interpreted (sa.npsym) on a driver object with symbolic time step, damping time and target temperature and a molecule with
    symbolic inverse masses (padded batch, 2 x 2 atoms); the parent initialisation is a stand-in that records whether the coefficients were in place when it ran.  Whatever
    helpers, records or temporaries the routine uses, the values it leaves in `langevin_c1` / `langevin_c2` must satisfy, identically in dt, damp, T and the masses,
        c1 = exp(-dt / (2 damp))                                    (half-step friction of the Bussi-Parrinello O-V-O scheme)
        c1^2 + c2^2 / (T * mass_inverse * VEL_SCALE^2) = 1          (fluctuation-dissipation, per atom)
    and a second initialize() on the same object after its settings changed must give the coefficients of the *new* settings (no memo), the parent must run after the
    coefficients are set, a driver without damping time must still initialise.  Returns {"ok", "messages", "c1", "c2", "symbols", "zero_on_pad"}."""
    import numpy as np
    import sympy as sp
    from .loader import AnalysisError
    from .npsym import Instance, NpSym, Raised
    md = repo.mod("seqm/MolecularDynamics.py")
    q = "Molecular_Dynamics_Langevin.initialize"
    if q not in md.functions:
        raise AnalysisError(f"{q} not found")
    VEL = sp.nsimplify(NpSym(repo).global_value(md, "CONSTANTS").VEL_SCALE)
    msgs = []

    def setting(tag):
        dt, damp, T = sp.symbols(f"dt{tag} damp{tag} T{tag}", positive=True)
        w = np.array([[[sp.Symbol(f"w{tag}_{m}{a}", positive=True)] for a in range(2)] for m in range(2)], dtype=object)
        return dt, damp, T, w

    def molecule(w):
        x = np.array([[[sp.Symbol(f"x{m}{a}{c}") for c in range(3)] for a in range(2)] for m in range(2)], dtype=object)
        return types.SimpleNamespace(coordinates=x, mass_inverse=w.copy(), velocities=None, acc=None, force=None, dm=None, cis_amplitudes=None,
                                     const=types.SimpleNamespace(do_timing=False, timing={"MD": []}))

    def run_init(selfobj, mol):
        seen = {}

        def parent(*a, **k):
            seen["c1"] = getattr(selfobj, "langevin_c1", None)
            seen["c2"] = getattr(selfobj, "langevin_c2", None)
            seen["called"] = seen.get("called", 0) + 1
            return None
        I = NpSym(repo, stubs={"super().initialize": parent, "print": lambda *a, **k: None})
        try:
            I.call_function(md, md.func(q), [selfobj, mol])
        except Raised as e:
            return None, f"initialize() raises: {str(e)[:100]}"
        return seen, ""

    def coefficient_errors(seen, dt, damp, T, w, what):
        errs = []
        c1, c2 = seen.get("c1"), seen.get("c2")
        if c1 is None or c2 is None:
            return [f"{what}: initialize() hands control to the parent initialisation without having set " +
                    " and ".join(n for n, v in (("langevin_c1", c1), ("langevin_c2", c2)) if v is None) +
                    " from the current settings (a coefficient computed elsewhere goes stale when time step, damping time, temperature or masses change)"]
        c1s = [sp.sympify(t) for t in np.asarray(c1, dtype=object).reshape(-1)]
        if any(sp.simplify(t - sp.exp(-dt / (2 * damp))) != 0 for t in c1s):
            errs.append(f"{what}: c1 = {c1s[0]} is not the half-step friction factor exp(-dt/(2 damp)) of the current settings")
        c2a = np.asarray(c2, dtype=object)
        try:
            c2b = np.broadcast_to(c2a, w.shape) if c2a.shape != w.shape else c2a
        except ValueError:
            return errs + [f"{what}: langevin_c2 has shape {c2a.shape}, not one amplitude per atom {w.shape}"]
        for idx in np.ndindex(*w.shape):
            ident = sp.simplify(c1s[0] ** 2 + sp.sympify(c2b[idx]) ** 2 / (T * w[idx] * VEL ** 2) - 1)
            if ident != 0:
                errs.append(f"{what}: fluctuation-dissipation relation broken for atom {idx[:2]}: c1^2 + c2^2/(k_B T/m) - 1 = {sp.simplify(ident)} (c1 = {c1s[0]}, c2 = {c2b[idx]}); "
                            f"the stationary temperature differs from the target")
                break
        return errs
    # (a) first initialisation
    dt, damp, T, w = setting("a")
    selfobj = Instance(md, "Molecular_Dynamics_Langevin", timestep=dt, damp=damp, Temp=T)
    seen, err = run_init(selfobj, molecule(w))
    if seen is None:
        return {"ok": False, "messages": [err], "c1": None, "c2": None, "symbols": None, "zero_on_pad": False}
    if not seen.get("called"):
        msgs.append("initialize() of the Langevin engine does not run the parent initialisation")
    first = dict(seen)
    msgs += coefficient_errors(seen, dt, damp, T, w, "fresh driver")
    # (b) same object, later initialisations: every input changed alone (a memo keyed on some of them must not survive a change of the others), then all together
    dt2, damp2, T2, w2 = setting("b")
    cur = [dt, damp, T, w]
    for pos, (val, what_) in enumerate(((w2, "the masses"), (dt2, "the time step"), (damp2, "the damping time"), (T2, "the target temperature"))):
        cur[{0: 3, 1: 0, 2: 1, 3: 2}[pos]] = val
        selfobj.timestep, selfobj.damp, selfobj.Temp = cur[0], cur[1], cur[2]
        seen2, err = run_init(selfobj, molecule(cur[3]))
        if seen2 is None:
            msgs.append("later " + err)
            break
        errs_ = coefficient_errors(seen2, cur[0], cur[1], cur[2], cur[3], f"later initialize() on the same driver after only {what_} changed")
        msgs += errs_
        if errs_:
            break
    # (c) no damping time
    plain = Instance(md, "Molecular_Dynamics_Langevin", timestep=dt, damp=None, Temp=T)
    seen3, err = run_init(plain, molecule(w))
    if seen3 is None:
        msgs.append("without a damping time " + err)
    elif not seen3.get("called"):
        msgs.append("without a damping time initialize() does not run the parent initialisation")
    c1 = first.get("c1")
    c2 = first.get("c2")
    zero_on_pad = False
    if c2 is not None:
        c2a = np.asarray(c2, dtype=object)
        try:
            c2b = np.broadcast_to(c2a, w.shape)
            zero_on_pad = all(sp.simplify(sp.sympify(c2b[idx]).subs(w[idx], 0)) == 0 for idx in np.ndindex(*w.shape))
        except ValueError:
            zero_on_pad = False
    return {"ok": not msgs, "messages": msgs, "c1": None if c1 is None else sp.sympify(np.asarray(c1, dtype=object).reshape(-1)[0]),
            "c2": None if c2 is None else sp.sympify(np.broadcast_to(np.asarray(c2, dtype=object), w.shape)[0, 0, 0]) if zero_on_pad or c2 is not None else None,
            "symbols": {"dt": dt, "damp": damp, "Temp": T, "minv": w[0, 0, 0], "VEL": VEL}, "zero_on_pad": zero_on_pad}


# ------------------------------------------------------------------------------------------------------------------------------------------------
# C02-R7: the p and d rotation blocks of the spd integral rotation are orthogonal matrices (by value)
# ------------------------------------------------------------------------------------------------------------------------------------------------
def interpreted_d_rotation(repo):
    """RotationMatrixD.GenerateRotationMatrix is interpreted (sa.npsym) on exact unit bond vectors (generic directions with x, y, z all non-zero in several octants, the
    coordinate planes, the axes) and the 3 x 3 p block and the 5 x 5 d block are read back from the returned table (rows 0..2 / 0..4 of the columns INDX[K+1] / INDX[K+4]).
    Whatever the ordering and phase conventions of the real p / d functions, a change of frame is represented by *orthogonal* matrices: P P^T = 1 and D D^T = 1 (to 1e-9; the
    routine's literal for sqrt(3)/2 has 13 digits).  A mistyped, halved or sign-flipped entry of the d block breaks this for bonds off the coordinate planes, where no test
    geometry of the suite lies.  Returns [(ok, message)]."""
    import numpy as np
    import sympy as sp
    from .loader import AnalysisError
    from .npsym import NpSym
    rel = "seqm/seqm_functions/RotationMatrixD.py"
    if not repo.has(rel):
        raise AnalysisError(f"{rel} not found")
    m = repo.mod(rel)
    if not m.has_func("GenerateRotationMatrix"):
        raise AnalysisError("GenerateRotationMatrix not found")
    R = sp.Rational
    vecs = [(R(12, 25), R(9, 25), R(4, 5)), (R(-3, 13), R(4, 13), R(12, 13)), (R(24, 85), R(-32, 85), R(15, 17)), (R(-12, 25), R(-9, 25), R(-4, 5)), (R(3, 13), R(4, 13), R(-12, 13)),
            (R(3, 5), R(4, 5), 0), (R(3, 5), 0, R(-4, 5)), (0, R(-5, 13), R(12, 13)), (1, 0, 0), (0, -1, 0), (0, 0, 1), (0, 0, -1)]
    xij = np.array([[sp.sympify(c) for c in v] for v in vecs], dtype=object)
    I = NpSym(repo, stubs={"print": lambda *a, **k: None})
    out = np.asarray(I.call_function(m, "GenerateRotationMatrix", [xij]), dtype=object)
    if out.ndim != 3 or out.shape[0] != len(vecs) or out.shape[1] < 5 or out.shape[2] < 37:
        raise AnalysisError(f"GenerateRotationMatrix returns an array of shape {out.shape}; the (pairs, 15, 45) table is expected")
    INDX = [0, 1, 3, 6, 10, 15, 21, 28, 36]
    res = []
    for blk, n, cols in (("p", 3, [INDX[k + 1] for k in range(3)]), ("d", 5, [INDX[k + 4] for k in range(5)])):
        bad = None
        for k, v in enumerate(vecs):
            B = sp.Matrix(n, n, lambda i, j: sp.nsimplify(out[k, j, cols[i]]))
            G = (B * B.T - sp.eye(n)).applyfunc(lambda t: abs(sp.N(t, 30)))
            worst = max(G)
            if worst > sp.Float("1e-9"):
                i, j = divmod(list(G).index(worst), n)
                bad = (f"the {blk} block of the rotation table is not an orthogonal matrix for the bond direction ({', '.join(str(c) for c in v)}): (B B^T)[{i},{j}] deviates from "
                       f"the unit matrix by {float(worst):.3g}; a change of frame must be represented orthogonally, so rotated {blk}-orbital integrals (and the energy of a molecule "
                       f"with such a bond) depend on the orientation")
                break
        res.append((bad is None, bad or f"{blk} block orthogonal for {len(vecs)} exact bond directions (generic, planar, axial)"))
    return res
