"""Rotation of the local-frame two-centre integrals to the molecular frame, decided against the tensor-transformation law.

Code side: the combos loop of `w_withquaternion` is re-interpreted with concrete orbital indices (kk, ll, mm, nn) and symbolic rotation
matrix elements / local integrals: every store `w[:, idx] = ...` / `.add_(...)` becomes one expression per packed element.
Oracle side: molecular-frame p_k = sum_a rot[a][k] p_a(local) (s unchanged), so
        (kl|mn)_mol = sum_{abcd} T_ka T_lb T_mc T_nd (ab|cd)_local
with the full local tensor generated from the point-charge model of sa.multipole (no selection-rule table is embedded: vanishing and
equal elements come out of the point-charge sums).  Both sides are evaluated with 40 digits at random exact rotations (Cayley transform
of random rational skew matrices) and random positive parameters.
"""
from __future__ import annotations

import ast
import random

from .loader import AnalysisError, call_name, callee_attr, norm


class _Rows:
    """r0 / r1 / r2 views of the rotation matrix: r_a[:, m] -> R[a][m]"""
    def __init__(self, R, a):
        self.R, self.a = R, a


def packed_combos():
    """specification of the packed order: w.view(10, 10)[pack(kk, ll), pack(mm, nn)] with pack(k >= l) = k (k + 1) / 2 + l (the order the Fock builders read, C06-R12)"""
    return [(kk, ll, mm, nn) for kk in range(4) for ll in range(kk + 1) for mm in range(4) for nn in range(mm + 1)]


def interpret_w(repo, ri_syms, rixh_syms, R, RX):
    """abstract interpretation (sa.npsym) of w_withquaternion on three pairs -- heavy-heavy, heavy-H, H-H -- with symbolic local integrals, frames and core
    charges.  Returns dict(w=[100 expr], wXH=[10 expr], e1b=(3,4,4), e2a=(3,4,4), tore=symbols by atomic number, wHH=symbol).  Independent of how the routine
    is written (loops, counters, helper functions, order of statements)."""
    import numpy as np
    import sympy as sp
    from .npsym import NpSym
    m = repo.mod("seqm/seqm_functions/two_elec_two_center_int.py")
    func = m.func("w_withquaternion")
    ZX = 6
    ni, nj = np.array([8, ZX, 1], dtype=np.int64), np.array([ZX, 1, 1], dtype=np.int64)      # an O-C, a C-H and an H-H pair: all core charges are distinct symbols
    rot = np.empty((3, 3, 3), dtype=object)
    for a in range(3):
        for b in range(3):
            rot[0, a, b], rot[1, a, b], rot[2, a, b] = R[a][b], RX[a][b], sp.Symbol(f"Rhh{a}{b}")
    tore = np.array([sp.Symbol(f"Z{z}") for z in range(9)], dtype=object)
    wHH = np.array([sp.Symbol("wHH")], dtype=object)
    vals = {"mol": None, "tore": tore, "ni": ni, "nj": nj, "xij": np.array([[sp.Symbol(f"x{p}{c}") for c in range(3)] for p in range(3)], dtype=object),
            "riXH": np.array([list(rixh_syms)], dtype=object), "ri": np.array([list(ri_syms)], dtype=object), "wHH": wHH}
    try:
        args = [vals[a.arg] for a in func.args.args]
    except KeyError as e:
        raise AnalysisError(f"w_withquaternion: parameter {e} has no meaning known to the rotation oracle")
    seen = {}

    def frame(v, *a, **k):
        seen["v"] = v
        if a or k:
            raise AnalysisError("w_withquaternion: the energy path requests the frame derivative")
        return rot.copy()
    I = NpSym(repo, stubs={"rotate_with_quaternion": frame})
    res = I.call_function(m, func, args)
    if not (isinstance(res, tuple) and len(res) == 4):
        raise AnalysisError("w_withquaternion: result is not (e1b, e2a, wXH, w)")
    e1b, e2a, wXH, w = res
    if getattr(w, "size", 0) != 100 or getattr(wXH, "size", 0) != 10 or getattr(e1b, "shape", None) != (3, 4, 4) or getattr(e2a, "shape", None) != (3, 4, 4):
        raise AnalysisError("w_withquaternion: unexpected result shapes")
    v = seen.get("v")
    frame_vec_ok = v is not None and getattr(v, "shape", None) == (3, 3) and all(sp.expand(v[p, c] + vals["xij"][p, c]) == 0 for p in range(3) for c in range(3))
    return {"w": list(w.reshape(-1)), "wXH": list(wXH.reshape(-1)), "e1b": e1b, "e2a": e2a, "tore": tore, "wHH": wHH[0], "frame_vector_is_minus_xij": frame_vec_ok, "Z": (ZX, 1), "ni": ni, "nj": nj,
            "module": m, "func": func}


def interpret_rotation(func, ri_syms, rixh_syms, R, RX, repo=None):
    """(w: {idx: expr}, wXH: {idx: expr}, combos) -- kept for the callers; the interpretation itself is interpret_w"""
    if repo is None:
        raise AnalysisError("interpret_rotation needs the repository")
    r = interpret_w(repo, ri_syms, rixh_syms, R, RX)
    return dict(enumerate(r["w"])), dict(enumerate(r["wXH"])), packed_combos()


def random_rotation(rng):
    """exact rational rotation matrix by the Cayley transform (I - A)(I + A)^-1 of a random skew matrix"""
    import sympy as sp
    a, b, c = (sp.Rational(rng.randint(-9, 9), rng.randint(2, 7)) for _ in range(3))
    A = sp.Matrix([[0, -c, b], [c, 0, -a], [-b, a, 0]])
    I = sp.eye(3)
    return (I - A) * (I + A).inv()


def oracle_tensor(vals, conv):
    """numeric local tensor {(kindA, kindB): value} from the point-charge model"""
    import sympy as sp
    from . import multipole as mp
    kinds = ["SS", "SO", "SP", "SP*", "OO", "PP", "P*P*", "PO", "P*O", "P*P"]
    out = {}
    for ka in kinds:
        for kb in kinds:
            if (ka, kb) == ("P*P", "P*P"):
                continue
            out[(ka, kb)] = sp.N(mp.integral(ka, kb, *conv).subs(vals), 40)
    out[("P*P", "P*P")] = (out[("PP", "PP")] - out[("PP", "P*P*")]) / 2
    return out


LOCAL_PAIR = {("S", "S"): "SS", ("O", "S"): "SO", ("P", "S"): "SP", ("Q", "S"): "SP*", ("O", "O"): "OO", ("P", "P"): "PP", ("Q", "Q"): "P*P*",
              ("O", "P"): "PO", ("O", "Q"): "P*O", ("P", "Q"): "P*P"}


def pair_kind(a, b):
    return LOCAL_PAIR[tuple(sorted((a, b)))]
