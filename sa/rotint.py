"""Rotation of the local-frame two-centre integrals to the molecular frame, decided against the tensor-transformation law.

Code side: the combos loop of `w_withquaternion` is re-interpreted with concrete orbital indices (kk, ll, mm, nn) and symbolic rotation
matrix elements / local integrals: every store `w[:, idx] = ...` / `.add_(...)` becomes one expression per packed element.
Oracle side: molecular-frame p_k = sum_a rot[a][k] p_a(local) (s unchanged), so
        (kl|mn)_mol = sum_{abcd} T_ka T_lb T_mc T_nd (ab|cd)_local
with the full local tensor generated from the point-charge model of sa.multipole (no selection-rule table is embedded: vanishing and
equal elements come out of the point-charge sums).  Both sides are evaluated with 40 digits at random exact rotations (Cayley transform
of random rational skew matrices) and random positive parameters.
"""
from __future__ import annotations

import ast
import random

from .loader import AnalysisError, call_name, callee_attr, norm


class _Rows:
    """r0 / r1 / r2 views of the rotation matrix: r_a[:, m] -> R[a][m]"""
    def __init__(self, R, a):
        self.R, self.a = R, a


def interpret_rotation(func, ri_syms, rixh_syms, R, RX):
    """returns (w: {idx: expr}, wXH: {idx: expr}) from the combos loop of w_withquaternion"""
    import sympy as sp
    loops = [st for st in func.body if isinstance(st, ast.For) and isinstance(st.target, ast.Tuple) and len(st.target.elts) == 4]
    if len(loops) != 1:
        raise AnalysisError("w_withquaternion: combos loop not found")
    loop = loops[0]
    names = [e.id for e in loop.target.elts]
    w, wxh = {}, {}
    env = {"idx": 0, "idxXH": 0}
    # row views and unbound integral tuples are bound from their definitions in the code (r0 = rot[:, 0], ri_s = ri.unbind(dim=-1), ...)
    mats = {"rot": R, "rotXH": RX}
    vecs = {"ri": list(ri_syms), "riXH": list(rixh_syms)}
    for st in func.body:
        if st is loop:
            break
        if not (isinstance(st, ast.Assign) and len(st.targets) == 1 and isinstance(st.targets[0], ast.Name)):
            continue
        v = st.value
        if isinstance(v, ast.Subscript) and isinstance(v.value, ast.Name) and v.value.id in mats:
            elts = v.slice.elts if isinstance(v.slice, ast.Tuple) else [v.slice]
            ints = [e.value for e in elts if isinstance(e, ast.Constant) and isinstance(e.value, int)]
            full = [e for e in elts if isinstance(e, ast.Slice) and e.lower is None and e.upper is None]
            if len(ints) == 1 and len(elts) >= 2 and isinstance(elts[0], ast.Slice) and isinstance(elts[1], ast.Constant) and len(ints) + len(full) == len(elts):
                env[st.targets[0].id] = _Rows(mats[v.value.id], ints[0])
        elif isinstance(v, ast.Call) and callee_attr(v) == "unbind" and isinstance(v.func.value, ast.Name) and v.func.value.id in vecs:
            dim = [kw.value for kw in v.keywords if kw.arg == "dim"] or list(v.args)
            if dim and norm(dim[0]) in ("-1", "1"):
                env[st.targets[0].id] = vecs[v.func.value.id]
    n_rows = sum(isinstance(x, _Rows) for x in env.values())
    if n_rows < 6 or sum(isinstance(x, list) for x in env.values()) < 2:
        raise AnalysisError(f"w_withquaternion: row views / unbound integral tuples not recognised ({n_rows} row views)")

    def ev(e):
        if isinstance(e, ast.Constant):
            return sp.Integer(e.value) if isinstance(e.value, int) and not isinstance(e.value, bool) else e.value
        if isinstance(e, ast.Name):
            if e.id in env:
                return env[e.id]
            raise AnalysisError(f"rotation: unbound {e.id}")
        if isinstance(e, ast.UnaryOp) and isinstance(e.op, ast.USub):
            return -ev(e.operand)
        if isinstance(e, ast.BinOp):
            a, b = ev(e.left), ev(e.right)
            if isinstance(e.op, ast.Add):
                return a + b
            if isinstance(e.op, ast.Sub):
                return a - b
            if isinstance(e.op, ast.Mult):
                return a * b
            raise AnalysisError(f"rotation: operator {norm(e)}")
        if isinstance(e, ast.Subscript):
            base = ev(e.value) if not (isinstance(e.value, ast.Name) and e.value.id in ("w", "wXH")) else e.value.id
            sl = e.slice
            if isinstance(base, list):
                return base[int(ev(sl))]
            if isinstance(base, _Rows):
                last = sl.elts[-1] if isinstance(sl, ast.Tuple) else sl
                return base.R[base.a][int(ev(last))]
            if base in ("w", "wXH"):
                last = sl.elts[-1] if isinstance(sl, ast.Tuple) else sl
                return (w if base == "w" else wxh).get(int(ev(last)), sp.Integer(0))
        raise AnalysisError(f"rotation: expression {norm(e)[:60]}")

    def test(t):
        if isinstance(t, ast.Compare) and len(t.ops) == 1:
            a, b = ev(t.left), ev(t.comparators[0])
            op = t.ops[0]
            return {ast.Eq: a == b, ast.NotEq: a != b, ast.Lt: a < b, ast.Gt: a > b, ast.LtE: a <= b, ast.GtE: a >= b}[type(op)]
        raise AnalysisError(f"rotation: test {norm(t)}")

    def store(target, value, add=False):
        base = target.value.id
        sl = target.slice
        last = sl.elts[-1] if isinstance(sl, ast.Tuple) else sl
        i = int(ev(last))
        d = w if base == "w" else wxh
        d[i] = (d.get(i, sp.Integer(0)) + value) if add else value

    def block(stmts):
        for st in stmts:
            if isinstance(st, ast.If):
                block(st.body if test(st.test) else st.orelse)
            elif isinstance(st, ast.Assign) and len(st.targets) == 1:
                t = st.targets[0]
                if isinstance(t, ast.Name):
                    env[t.id] = ev(st.value)
                elif isinstance(t, ast.Subscript) and isinstance(t.value, ast.Name) and t.value.id in ("w", "wXH"):
                    store(t, ev(st.value))
                else:
                    raise AnalysisError(f"rotation: store {norm(t)}")
            elif isinstance(st, ast.AugAssign) and isinstance(st.target, ast.Name):
                env[st.target.id] = env[st.target.id] + ev(st.value)
            elif isinstance(st, ast.Expr) and isinstance(st.value, ast.Call) and callee_attr(st.value) == "add_" and isinstance(st.value.func.value, ast.Subscript):
                store(st.value.func.value, ev(st.value.args[0]), add=True)
            elif isinstance(st, ast.Expr) and isinstance(st.value, ast.Constant):
                continue
            else:
                raise AnalysisError(f"rotation: statement {norm(st)[:60]}")
    combos = [(kk, ll, mm, nn) for kk in range(4) for ll in range(kk + 1) for mm in range(4) for nn in range(mm + 1)]
    # the comprehension in the source must be this enumeration
    cdef = [st for st in func.body if isinstance(st, ast.Assign) and norm(st.targets[0]) == "combos"]
    want = "[(kk,ll,mm,nn)forkkinrange(4)forllinrange(kk+1)formminrange(4)fornninrange(mm+1)]"
    if not cdef or norm(cdef[0].value).replace(" ", "") != want:
        raise AnalysisError("w_withquaternion: combos enumeration changed")
    for c in combos:
        for nm, v in zip(names, c):
            env[nm] = v
        block(loop.body)
    return w, wxh, combos


def random_rotation(rng):
    """exact rational rotation matrix by the Cayley transform (I - A)(I + A)^-1 of a random skew matrix"""
    import sympy as sp
    a, b, c = (sp.Rational(rng.randint(-9, 9), rng.randint(2, 7)) for _ in range(3))
    A = sp.Matrix([[0, -c, b], [c, 0, -a], [-b, a, 0]])
    I = sp.eye(3)
    return (I - A) * (I + A).inv()


def oracle_tensor(vals, conv):
    """numeric local tensor {(kindA, kindB): value} from the point-charge model"""
    import sympy as sp
    from . import multipole as mp
    kinds = ["SS", "SO", "SP", "SP*", "OO", "PP", "P*P*", "PO", "P*O", "P*P"]
    out = {}
    for ka in kinds:
        for kb in kinds:
            if (ka, kb) == ("P*P", "P*P"):
                continue
            out[(ka, kb)] = sp.N(mp.integral(ka, kb, *conv).subs(vals), 40)
    out[("P*P", "P*P")] = (out[("PP", "PP")] - out[("PP", "P*P*")]) / 2
    return out


LOCAL_PAIR = {("S", "S"): "SS", ("O", "S"): "SO", ("P", "S"): "SP", ("Q", "S"): "SP*", ("O", "O"): "OO", ("P", "P"): "PP", ("Q", "Q"): "P*P*",
              ("O", "P"): "PO", ("O", "Q"): "P*O", ("P", "Q"): "P*P"}


def pair_kind(a, b):
    return LOCAL_PAIR[tuple(sorted((a, b)))]
