"""By-value decider for the density builders (C03-R8 = C04-R7 = C05-R6).  [EA+]

`make_Pnew_factory(...)` hands the SCF drivers the map  F -> P  ("diagonalise / purify the Fock matrix and occupy the lowest nocc orbitals").  Everything the properties
say about a converged density -- symmetric, trace = number of electrons, idempotent, commuting with F, reproduced by re-diagonalisation, the same whichever solver
path produced it, independent of batch mates and of zero padding -- presupposes that this map returns, for every molecule of a batch,

        P = 2 * sum_{i < nocc} c_i c_i^T        (restricted; the same with the channel's own occupation per spin channel when unrestricted -- the drivers halve it)

with c_i the eigenvectors of *that molecule's own* real orbital block, in the padded ("unpacked") layout, and nothing on padding orbitals.  The factory's closure (pack ->
padding shift -> eigensolver / SP2 purification -> aufbau occupation -> unpack) is interpreted from its syntax tree by sa.npsym on designed Fock matrices whose exact
eigendecomposition is known by construction (rational rotations of rational spectra), for every arm of the factory the tests do not exercise:

  * diagonalisation and SP2, forward mode and `backward=True` (the unrolled eigensolver `sym_eig_trunc1`);
  * a heterogeneous zero-padded batch whose smaller molecule has only *positive* orbital energies (so an unshifted padding orbital at 0 would be occupied),
    a homogeneous batch with different occupations (the `same` fast path of pack/unpack), a batch of two molecules with the same number of orbitals but a different
    heavy / hydrogen split (fast path must not be keyed on the orbital count), a single molecule;
  * restricted (B, N, N) and unrestricted (B, 2, N, N) Fock matrices with per-spin occupations.

The diagonalisation arms must reproduce the projector exactly (rational arithmetic); the SP2 arm to 50 x the requested purification tolerance.  `torch.linalg.eigh` is
evaluated exactly (npsym._exact_eigh).  Nothing of the repository is imported or run.
"""
from __future__ import annotations

from .loader import AnalysisError

SCF = "seqm/seqm_functions/scf_loop.py"


def _givens(n, i, j, c, s):
    import numpy as np
    import sympy as sp
    Q = np.empty((n, n), dtype=object)
    Q[:] = sp.Integer(0)
    for k in range(n):
        Q[k, k] = sp.Integer(1)
    Q[i, i], Q[j, j], Q[i, j], Q[j, i] = c, c, s, -s
    return Q


def _orth(n, seed):
    """a rational orthogonal matrix: product of Givens rotations with Pythagorean angles"""
    import numpy as np
    import sympy as sp
    R = sp.Rational
    trip = [(R(3, 5), R(4, 5)), (R(5, 13), R(12, 13)), (R(8, 17), R(15, 17)), (R(4, 5), R(-3, 5)), (R(12, 13), R(5, 13))]
    Q = _eye(n)
    k = seed
    for i in range(n - 1):
        for j in (i + 1, n - 1):
            if i != j:
                c, s = trip[k % len(trip)]
                Q = Q.dot(_givens(n, i, j, c, s))
                k += 1
    return Q


class Mol:
    """one molecule of a designed batch: nheavy heavy atoms (4 orbitals each) followed by nhydro hydrogens (1 orbital each), `lam` the eigenvalues of its real block"""
    def __init__(self, nheavy, nhydro, lam, seed, simple=False):
        import numpy as np
        import sympy as sp
        self.nheavy, self.nhydro = nheavy, nhydro
        self.norb = 4 * nheavy + nhydro
        assert len(lam) == self.norb
        self.lam = [sp.sympify(x) for x in lam]
        # `simple`: one rotation between the first and the last orbital (small denominators: the purification arm squares its matrices exactly, digits double per pass)
        self.Q = _givens(self.norb, 0, self.norb - 1, sp.Rational(3, 5), sp.Rational(4, 5)) if simple else _orth(self.norb, seed)
        D = np.empty((self.norb, self.norb), dtype=object)
        D[:] = sp.Integer(0)
        for i, x in enumerate(self.lam):
            D[i, i] = x
        self.C = self.Q.dot(D).dot(self.Q.T)

    def u(self, c):
        return c if c < 4 * self.nheavy else 4 * self.nheavy + 4 * (c - 4 * self.nheavy)

    def unpacked(self, C, size):
        import numpy as np
        import sympy as sp
        F = np.empty((size, size), dtype=object)
        F[:] = sp.Integer(0)
        for a in range(self.norb):
            for b in range(self.norb):
                F[self.u(a), self.u(b)] = C[a, b]
        return F

    def projector(self, nocc, factor):
        import numpy as np
        import sympy as sp
        order = sorted(range(self.norb), key=lambda i: self.lam[i])[:nocc]
        P = np.empty((self.norb, self.norb), dtype=object)
        P[:] = sp.Integer(0)
        for i in order:
            P = P + np.outer(self.Q[:, i], self.Q[:, i])
        return P * sp.Integer(factor)


def _batches(simple=False):
    import sympy as sp
    R = sp.Rational
    A = Mol(1, 1, [-12, -9, -2, 1, 5], 0, simple)
    A2 = Mol(1, 1, [-20, -3, -1, 4, 9], 2, simple)
    B = Mol(0, 2, [1, 3], 1, simple)               # only positive orbital energies: an unshifted padding orbital (eigenvalue 0) would be occupied first
    H5 = Mol(0, 5, [-7, -4, R(1, 2), 2, 6], 3, simple)     # five hydrogens: as many orbitals as heavy+H, different layout
    return [
        ("zero-padded heterogeneous batch (5 and 2 orbitals, positive orbital energies next to padding)", 2, [A, B], [2, 1], [(2, 1), (1, 1)]),
        ("homogeneous batch with different occupations (fast path of pack / unpack)", 2, [A, A2], [2, 3], [(2, 1), (3, 2)]),
        ("equal orbital count, different heavy / hydrogen split", 5, [A, H5], [2, 3], [(2, 2), (3, 1)]),
        ("single molecule", 2, [A2], [3], [(2, 2)]),
    ]


def interpreted_density_builder(repo, arms=None):
    """Returns [(arm, batch, ok, message)] for every (arm, batch); raises AnalysisError when the factory cannot be interpreted."""
    import numpy as np
    import sympy as sp
    from .npsym import NpSym, FuncRef
    m = repo.mod(SCF)
    if not m.has_func("make_Pnew_factory"):
        raise AnalysisError("make_Pnew_factory not found in scf_loop.py")
    R = sp.Rational
    out = []
    all_arms = [
        ("diagonalisation", dict(sp2=[False, R(1, 10 ** 5)], backward=False, openshell=False), 0),
        ("diagonalisation, unrolled (backward=True)", dict(sp2=[False, R(1, 10 ** 5)], backward=True, openshell=False), 0),
        ("SP2 purification", dict(sp2=[True, R(1, 10 ** 3)], backward=False, openshell=False), R(2, 100)),
        ("diagonalisation, unrestricted", dict(sp2=[False, R(1, 10 ** 5)], backward=False, openshell=True), 0),
        ("diagonalisation, unrestricted, unrolled (backward=True)", dict(sp2=[False, R(1, 10 ** 5)], backward=True, openshell=True), 0),
    ]
    for arm, cfg, tol in all_arms:
        if (arms and arm not in arms) or (not arms and cfg["sp2"][0]):
            continue        # (the purification arm squares exact rational matrices, digits double per pass: only on request)
        for what, molsize, mols, nocc, nocc_u in _batches(simple=bool(cfg["sp2"][0])):
            I = NpSym(repo, stubs={"print": lambda *a, **k: None})
            I.warnings = []
            I.eigh_known = [(mo.C, mo.lam, mo.Q) for mo in mols] + [(mo.C * R(3, 2) + _eye(mo.norb) * R(1, 7), [x * R(3, 2) + R(1, 7) for x in mo.lam], mo.Q) for mo in mols]
            size = 4 * molsize
            uhf = cfg["openshell"]
            if uhf:
                # beta channel: the same molecule with a shifted / scaled spectrum (same eigenvectors would hide a channel mix-up only partly; use the negated spectrum order)
                Fa = [mo.unpacked(mo.C, size) for mo in mols]
                Fb = [mo.unpacked(mo.C * R(3, 2) + _eye(mo.norb) * R(1, 7), size) for mo in mols]
                F = np.stack([np.stack([a, b]) for a, b in zip(Fa, Fb)])
                occ = I.arr(np.array(nocc_u, dtype=np.int64))
                exp = np.stack([np.stack([mo.unpacked(mo.projector(na, 2), size), mo.unpacked(mo.projector(nb, 2), size)]) for mo, (na, nb) in zip(mols, nocc_u)])   # the factory returns 2 C C^T per spin channel; the drivers halve it (C04-R1)
            else:
                F = np.stack([mo.unpacked(mo.C, size) for mo in mols])
                occ = I.arr(np.array(nocc, dtype=np.int64))
                exp = np.stack([mo.unpacked(mo.projector(n, 2), size) for mo, n in zip(mols, nocc)])
            nsh = I.arr(np.zeros(len(mols), dtype=np.int64))
            nh = I.arr(np.array([mo.nheavy for mo in mols], dtype=np.int64))
            nhy = I.arr(np.array([mo.nhydro for mo in mols], dtype=np.int64))
            try:
                inner = I.call_function(m, "make_Pnew_factory", ["AM1", list(cfg["sp2"]), molsize, cfg["backward"], [1], uhf])
                if not isinstance(inner, FuncRef):
                    raise AnalysisError("make_Pnew_factory did not return a function")
                P = I._invoke(inner, [F.copy(), nsh, nh, nhy, occ], {})
            except AnalysisError as ex:
                raise AnalysisError(f"density builder ({arm}; {what}): {ex}")
            P = np.asarray(P, dtype=object)
            if P.shape != exp.shape:
                out.append((arm, what, False, f"the density returned for the {what} has shape {P.shape}, expected {exp.shape}"))
                continue
            worst, where = 0, None
            for idx in np.ndindex(*exp.shape):
                d = sp.sympify(P[idx]) - exp[idx]
                if not d.is_number:
                    raise AnalysisError(f"density builder ({arm}): symbolic entry in the result")
                d = abs(d)
                if d > worst:
                    worst, where = d, idx
            if worst > tol:
                k = where[0]
                mo = mols[k]
                tr = sum(sp.sympify(P[(k,) + ((where[1],) if uhf else ()) + (i, i)]) for i in range(size))
                padded = [i for i in range(size) if i not in {mo.u(c) for c in range(mo.norb)}]
                on_pad = max([abs(sp.sympify(P[(k,) + ((where[1],) if uhf else ()) + (i, i)])) for i in padded] or [0])
                want = (2 * nocc_u[k][where[1]] if uhf else 2 * nocc[k])
                msg = (f"{arm}: for the {what}, molecule {k}" + (f" spin channel {where[1]}" if uhf else "") +
                       f" does not get the aufbau projector of its own Fock block (largest deviation {float(worst):.3g} at element {where[-2:]}; trace {float(tr):.4g} instead of {want}; "
                       f"largest population on a padding orbital {float(on_pad):.3g}): the density handed to the SCF drivers is not the one that diagonalises this molecule's Fock matrix")
                out.append((arm, what, False, msg))
            else:
                out.append((arm, what, True, ""))
    return out


def _eye(n):
    import numpy as np
    import sympy as sp
    E = np.empty((n, n), dtype=object)
    E[:] = sp.Integer(0)
    for i in range(n):
        E[i, i] = sp.Integer(1)
    return E


def check_density_builders(ctx, rid):
    """rule wrapper: one obligation per (arm, batch); returns True when every arm was interpreted and holds"""
    scf = ctx.repo.mod(SCF)
    f = scf.func("make_Pnew_factory")
    allok = True
    for arm, what, ok, msg in interpreted_density_builder(ctx.repo):
        allok = allok and ok
        ctx.check(ok, rid, scf, f, "make_Pnew_factory", f"{arm}: {what}",
                  f"{arm}, {what}: every molecule (and spin channel) gets 2 x the projector on the lowest nocc eigenvectors of its own Fock block, nothing on padding orbitals "
                  f"(exact, interpreted) [EA+]", msg)
    return allok
