"""Element interpreter for per-pair kernels of the form

        name = <scalar expression of per-pair tensors>            (mask subscripts x[XH], x[XX] are views of the same pair)
        arr[..., K] = <scalar expression>                          (K constant-foldable, e.g. 3-1)

Statements are re-read as sympy equations for ONE generic pair; array elements are kept per (array, K).  Allocation / bookkeeping
statements that cannot be interpreted are skipped; reading a name that was skipped raises.  Nothing is executed.
"""
from __future__ import annotations

import ast
from typing import Any, Dict, Tuple

from .exprs import NotConst, fold, to_sympy, torch_funcs
from .loader import AnalysisError, call_name, callee_attr, norm


class ElemExec:
    def __init__(self, env: Dict[str, Any], masks=("HH", "XH", "XX"), vector_names=()):
        import sympy as sp
        self.sp = sp
        self.env = dict(env)
        self.masks = set(masks)
        self.elems: Dict[Tuple[str, int], Any] = {}
        self.vector_names = set(vector_names)
        f = torch_funcs()
        f["sqrt"] = lambda a, n: sp.sqrt(a[0])
        f["torch.sqrt"] = lambda a, n: sp.sqrt(a[0])
        f["pow"] = lambda a, n: a[0] ** a[1]
        f["torch.pow"] = lambda a, n: a[0] ** a[1]
        f[".unsqueeze"] = lambda a, n: a[0]
        f[".reshape"] = lambda a, n: a[0]
        f["[]"] = self._sub
        self.funcs = f

    def _index(self, sl):
        elts = sl.elts if isinstance(sl, ast.Tuple) else [sl]
        idx = [e for e in elts if not (isinstance(e, ast.Slice) or (isinstance(e, ast.Constant) and e.value is Ellipsis))]
        return idx

    def _sub(self, n: ast.Subscript, rec):
        idx = self._index(n.slice)
        # mask views
        if all(isinstance(e, ast.Name) and e.id in self.masks for e in idx) or not idx:
            return rec(n.value)
        if isinstance(n.value, ast.Name):
            ks = []
            for e in idx:
                if isinstance(e, ast.Name) and e.id in self.masks:
                    continue
                try:
                    ks.append(int(fold(e)))
                except (NotConst, TypeError, ValueError):
                    raise AnalysisError(f"elemexec: index {norm(e)}")
            if len(ks) == 1 and (n.value.id, ks[0]) in self.elems:
                return self.elems[(n.value.id, ks[0])]
            if not ks:
                return rec(n.value)
        raise AnalysisError(f"elemexec: subscript {norm(n)}")

    def ev(self, e):
        return to_sympy(e, self.env, self.funcs)

    def run(self, stmts):
        for st in stmts:
            if not isinstance(st, ast.Assign) or len(st.targets) != 1:
                continue
            t = st.targets[0]
            try:
                v = self.ev(st.value)
            except (AnalysisError, NotConst, KeyError, TypeError):
                if isinstance(t, ast.Name):
                    self.env.pop(t.id, None)
                continue
            if isinstance(t, ast.Name):
                self.env[t.id] = v
            elif isinstance(t, ast.Subscript) and isinstance(t.value, ast.Name):
                idx = self._index(t.slice)
                ks = []
                ok = True
                for e in idx:
                    if isinstance(e, ast.Name) and e.id in self.masks:
                        continue
                    try:
                        ks.append(int(fold(e)))
                    except (NotConst, TypeError, ValueError):
                        ok = False
                if ok and len(ks) == 1:
                    self.elems[(t.value.id, ks[0])] = v
                elif ok and not ks:
                    self.env[t.value.id] = v
