"""Force assembly rules shared by C01 (forces = -dE/dx) and C09 (XL forces coincide with SCF forces at D = P)."""
from __future__ import annotations

import ast

from .cfg import build_cfg
from .loader import AnalysisError, call_name, callee_attr, calls_in, names_in, norm, short


def check_force_assembly(ctx, rid, which=("seqm/basics.py::Force.forward", "seqm/dynamics/xlbomd.py::ForceXL.forward")):
    repo = ctx.repo
    n = 0
    for spec in which:
        rel, q = spec.split("::")
        m = repo.mod(rel)
        f = m.func(q)
        g = build_cfg(f)
        # the differentiated scalar
        bws = [nd for nd in g.nodes if nd.kind == "stmt" and any(callee_attr(c) == "backward" for c in calls_in(nd.stmt))]
        if not bws:
            raise AnalysisError(f"{q}: .backward() call not found")
        for b in bws:
            c = [c for c in calls_in(b.stmt) if callee_attr(c) == "backward"][0]
            recv = norm(c.func.value)
            defs = [st for st in ast.walk(f) if isinstance(st, ast.Assign) and norm(st.targets[0]) == recv]
            ok = len(defs) == 1 and norm(defs[0].value).replace(" ", "") in ("Hf.sum()", "Etot.sum()")
            n += 1
            ctx.check(ok, rid, m, b.stmt, q, defs[0] if defs else b.stmt,
                      f"{q}: the differentiated scalar is the batch sum of Hf/Etot (differs from Etot only by coordinate-independent terms)",
                      f"{q}: forces are the gradient of `{norm(defs[0].value) if defs else recv}`, not of the reported total energy")
        # energy tuple order: Hf and Etot are positions 0 and 1 of the energy call result
        unp = [st for st in ast.walk(f) if isinstance(st, ast.Assign) and isinstance(st.targets[0], ast.Tuple) and isinstance(st.value, ast.Call)
               and callee_attr(st.value) == "energy"]
        ok = bool(unp) and [norm(e) for e in unp[0].targets[0].elts][:2] == ["Hf", "Etot"]
        ctx.check(ok, rid, m, unp[0] if unp else f, q, unp[0].targets[0] if unp else "energy unpack", f"{q}: (Hf, Etot, ...) are positions 0,1 of the energy result",
                  f"{q}: energy result unpacked as {[norm(e) for e in unp[0].targets[0].elts][:3] if unp else None}")
        # every gradient read is negated and followed by zero_() on every path to a return
        reads = [nd for nd in g.nodes if nd.kind == "stmt" and isinstance(nd.stmt, ast.Assign) and "coordinates.grad" in norm(nd.stmt.value)]
        zeros = {nd.id for nd in g.nodes if nd.kind == "stmt" and any(callee_attr(c) == "zero_" and "coordinates.grad" in norm(c.func.value) for c in calls_in(nd.stmt))}
        if not reads:
            raise AnalysisError(f"{q}: read of coordinates.grad not found")
        for r in reads:
            v = r.stmt.value
            n += 1
            neg = isinstance(v, ast.UnaryOp) and isinstance(v.op, ast.USub)
            fresh = neg and isinstance(v.operand, ast.Call) and callee_attr(v.operand) in ("clone", "detach")
            ctx.check(neg, rid, m, r.stmt, q, r.stmt, f"{q}: force = -(d L / d coordinates)", f"{q}: `{short(r.stmt, 60)}` does not negate the gradient")
            ctx.check(g.must_pass(r.id, g.exit_return, zeros) and bool(zeros), rid, m, r.stmt, q, r.stmt,
                      f"{q}: coordinates.grad is zeroed after the read on every path (no accumulation over calls)",
                      f"{q}: after `{short(r.stmt, 50)}` a return is reachable without coordinates.grad.zero_(): the next evaluation returns the "
                      f"sum of this and the next gradient (forces 2x, 3x, ... too large)")
            ctx.check(fresh, rid, m, r.stmt, q, r.stmt, f"{q}: the force is a copy/detached view taken before the gradient buffer is zeroed",
                      f"{q}: `{short(r.stmt, 60)}` aliases the gradient buffer that is zeroed afterwards (force would become zero)")
        # returned force
        rets = [nd for nd in g.nodes if nd.kind == "stmt" and isinstance(nd.stmt, ast.Return) and isinstance(nd.stmt.value, ast.Tuple)]
        for r in rets:
            e0 = norm(r.stmt.value.elts[0])
            n += 1
            ctx.check(e0 in ("force.detach()", "force"), rid, m, r.stmt, q, r.stmt.value.elts[0], f"{q}: position 0 of the result is the force", f"{q}: returns `{e0}` as force")
        # analytical arm
        for st in ast.walk(f):
            if isinstance(st, ast.Assign) and "analytical_gradient" in norm(st.value) and norm(st.targets[0]) == "force":
                n += 1
                ctx.check(norm(st.value).replace(" ", "") == "-molecule.analytical_gradient", rid, m, st, q, st, f"{q}: analytical force = -analytical gradient",
                          f"{q}: analytical force is `{norm(st.value)}`")
        # requires_grad before the energy call
        rq = [nd.id for nd in g.nodes if nd.kind == "stmt" and any(callee_attr(c) == "requires_grad_" and "coordinates" in norm(c.func.value) for c in calls_in(nd.stmt))]
        en = [nd.id for nd in g.nodes if nd.kind == "stmt" and any(callee_attr(c) == "energy" for c in calls_in(nd.stmt))]
        ctx.check(bool(rq) and bool(en) and all(g.must_pass(g.entry, e, set(rq)) for e in en), rid, m, f, q, "coordinates.requires_grad_",
                  f"{q}: coordinates are marked differentiable before the energy is evaluated", f"{q}: energy can be evaluated before coordinates.requires_grad_()")
    return n
