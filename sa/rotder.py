"""Derivative of the rotated two-centre integrals (anal_grad.der_TETCILF), decided by expression algebra.

Three obligations, all read from the source and none executed:

  (A) product rule.  The quadruple loop of der_TETCILF stores, for every packed molecular-frame integral, a polynomial in the local integrals
      ri[k], their derivatives ri_x[k], the frame rot[a][m] and its derivative rot_der[a][m].  It must be D(w[idx]) where w[idx] is the polynomial
      that the energy side (two_elec_two_center_int.w_withquaternion, read by sa.rotint) stores at the same packed index, and D is the derivation
      with D(ri[k]) = ri_x[k], D(rot[a][m]) = rot_der[a][m].  Polynomial identity, decided exactly by expansion (110 identities).

  (B) frame derivative.  rotate_with_quaternion(v, calculate_gradient=True) and the chain rule in der_TETCILF are interpreted on small symbolic
      arrays (batch of one pair) with v = u/|u|: the result rot_der[a, i, j] must be d/du_a of the frame R_ij(u/|u|) that the *energy* branch of the
      same function builds (27 identities, 40-digit evaluation at random rational u).

  (C) both sides feed the same vector into the frame builder, and the prefactor of ri_x differentiates with respect to the same vector
      (term ~ -Xij, v = -xij, Xij = xij * rij * a0), so that (A) combines derivatives with respect to one variable.
"""
from __future__ import annotations

import ast
import copy

from .loader import AnalysisError, call_name, callee_attr, norm


# ------------------------------------------------------------------------------------------------ (A)
def interpret_derivative_loop(func, ri, dri, rix, drix, R, dR, RX, dRX):
    """returns (w_x: {idx: expr}, wXH_x: {idx: expr}) from the quadruple loop of der_TETCILF"""
    import sympy as sp
    outer = None
    pos = None
    for i, st in enumerate(func.body):
        if isinstance(st, ast.For) and isinstance(st.target, ast.Name) and any(
                isinstance(x, (ast.Assign, ast.AugAssign)) and norm(x.targets[0] if isinstance(x, ast.Assign) else x.target).startswith("w_x[") for x in ast.walk(st)):
            outer, pos = st, i
    if outer is None:
        raise AnalysisError("der_TETCILF: loop storing w_x not found")
    vec = {"ri": ri, "ri_x": dri, "riXH": rix, "riXH_x": drix}
    mat = {"rot": R, "rot_der": dR, "rotXH": RX, "rot_derXH": dRX}
    out = {"w_x": {}, "wXH_x": {}}
    env = {}

    def ints(sl):
        elts = sl.elts if isinstance(sl, ast.Tuple) else [sl]
        r = []
        for e in elts:
            if isinstance(e, ast.Slice) or (isinstance(e, ast.Constant) and (e.value is Ellipsis or e.value is None)):
                continue
            v = ev(e)
            if not isinstance(v, (int, sp.Integer)):
                raise AnalysisError(f"der loop: index {norm(e)}")
            r.append(int(v))
        return r

    def ev(e):
        if isinstance(e, ast.Constant):
            if isinstance(e.value, bool):
                return e.value
            if isinstance(e.value, int):
                return sp.Integer(e.value)
            if isinstance(e.value, float):
                return sp.nsimplify(e.value, rational=True)
            raise AnalysisError(f"der loop: constant {e.value!r}")
        if isinstance(e, ast.Name):
            if e.id in env:
                return env[e.id]
            raise AnalysisError(f"der loop: unbound {e.id}")
        if isinstance(e, ast.UnaryOp) and isinstance(e.op, ast.USub):
            return -ev(e.operand)
        if isinstance(e, ast.BinOp):
            a, b = ev(e.left), ev(e.right)
            if isinstance(e.op, ast.Add):
                return a + b
            if isinstance(e.op, ast.Sub):
                return a - b
            if isinstance(e.op, ast.Mult):
                return a * b
            raise AnalysisError(f"der loop: operator {norm(e)[:50]}")
        if isinstance(e, ast.Call) and callee_attr(e) == "unsqueeze" and isinstance(e.func, ast.Attribute):
            return ev(e.func.value)
        if isinstance(e, ast.Subscript) and isinstance(e.value, ast.Name):
            b = e.value.id
            ix = ints(e.slice)
            if b in vec and len(ix) == 1:
                return vec[b][ix[0]]
            if b in mat and len(ix) == 2:
                return mat[b][ix[0]][ix[1]]
            if b in out and len(ix) == 1:
                return out[b].get(ix[0], sp.Integer(0))
        raise AnalysisError(f"der loop: expression {norm(e)[:60]}")

    def test(t):
        if isinstance(t, ast.Compare) and len(t.ops) == 1:
            a, b = ev(t.left), ev(t.comparators[0])
            return {ast.Eq: a == b, ast.NotEq: a != b, ast.Lt: a < b, ast.Gt: a > b, ast.LtE: a <= b, ast.GtE: a >= b}[type(t.ops[0])]
        if isinstance(t, ast.BoolOp):
            vals = [test(v) for v in t.values]
            return all(vals) if isinstance(t.op, ast.And) else any(vals)
        raise AnalysisError(f"der loop: test {norm(t)}")

    def store(t, v, add):
        b = t.value.id
        ix = ints(t.slice)
        if b not in out or len(ix) != 1:
            raise AnalysisError(f"der loop: store {norm(t)}")
        out[b][ix[0]] = (out[b].get(ix[0], sp.Integer(0)) + v) if add else v

    def block(stmts):
        for st in stmts:
            if isinstance(st, ast.For):
                if not (isinstance(st.target, ast.Name) and isinstance(st.iter, ast.Call) and call_name(st.iter) == "range"):
                    raise AnalysisError(f"der loop: loop {norm(st.iter)}")
                a = [int(ev(x)) for x in st.iter.args]
                for i in range(*a):
                    env[st.target.id] = sp.Integer(i)
                    block(st.body)
            elif isinstance(st, ast.If):
                block(st.body if test(st.test) else st.orelse)
            elif isinstance(st, ast.Assign) and len(st.targets) == 1:
                t = st.targets[0]
                if isinstance(t, ast.Name):
                    env[t.id] = ev(st.value)
                elif isinstance(t, ast.Subscript) and isinstance(t.value, ast.Name):
                    store(t, ev(st.value), False)
                else:
                    raise AnalysisError(f"der loop: store {norm(t)}")
            elif isinstance(st, ast.AugAssign) and isinstance(st.op, ast.Add):
                if isinstance(st.target, ast.Name):
                    env[st.target.id] = env[st.target.id] + ev(st.value)
                elif isinstance(st.target, ast.Subscript) and isinstance(st.target.value, ast.Name):
                    store(st.target, ev(st.value), True)
                else:
                    raise AnalysisError(f"der loop: store {norm(st.target)}")
            elif isinstance(st, ast.Pass) or (isinstance(st, ast.Expr) and isinstance(st.value, ast.Constant)):
                continue
            else:
                raise AnalysisError(f"der loop: statement {norm(st)[:60]}")
    # integer counters initialised just before the loop
    k = pos - 1
    pre = []
    while k >= 0:
        st = func.body[k]
        if isinstance(st, ast.Assign) and isinstance(st.targets[0], ast.Name) and isinstance(st.value, (ast.Constant, ast.UnaryOp)):
            pre.insert(0, st)
            k -= 1
        else:
            break
    block(pre)
    block([outer])
    return out["w_x"], out["wXH_x"], outer


def derivation(expr, pairs):
    """D(expr) for the derivation that maps each symbol s to ds (pairs: [(s, ds)])"""
    import sympy as sp
    tot = sp.Integer(0)
    free = expr.free_symbols
    for s, ds in pairs:
        if s in free:
            tot += sp.diff(expr, s) * ds
    return tot


# ------------------------------------------------------------------------------------------------ (B)
class _Arr:
    """numpy object-array interpreter for the few tensor statements of rotate_with_quaternion's gradient branch"""
    def __init__(self, env):
        import numpy as np
        import sympy as sp
        self.np, self.sp = np, sp
        self.env = dict(env)

    def shape_of(self, e):
        if isinstance(e, (ast.Tuple, ast.List)):
            return tuple(int(self.ev(x)) for x in e.elts)
        raise AnalysisError(f"frame derivative: shape {norm(e)}")

    def index(self, sl):
        np = self.np
        elts = sl.elts if isinstance(sl, ast.Tuple) else [sl]
        out = []
        for e in elts:
            if isinstance(e, ast.Slice):
                if e.lower is not None or e.upper is not None or e.step is not None:
                    raise AnalysisError(f"frame derivative: slice {norm(e)}")
                out.append(slice(None))
            elif isinstance(e, ast.Constant) and e.value is Ellipsis:
                out.append(Ellipsis)
            elif isinstance(e, ast.Constant) and e.value is None:
                out.append(None)
            else:
                v = self.ev(e)
                if isinstance(v, np.ndarray) and v.dtype == bool:
                    out.append(v)
                else:
                    out.append(int(v))
        return tuple(out)

    def kw(self, call, name, default=None):
        for k in call.keywords:
            if k.arg == name:
                return ast.literal_eval(k.value)
        return default

    def ev(self, e):
        np, sp = self.np, self.sp
        if isinstance(e, ast.Constant):
            if isinstance(e.value, (bool, type(None))):
                return e.value
            if isinstance(e.value, (int, float)):
                return sp.nsimplify(e.value, rational=True)
            raise AnalysisError(f"frame derivative: constant {e.value!r}")
        t = norm(e)
        if isinstance(e, ast.Name):
            if e.id in self.env:
                return self.env[e.id]
            raise AnalysisError(f"frame derivative: unbound {e.id}")
        if isinstance(e, ast.UnaryOp):
            v = self.ev(e.operand)
            if isinstance(e.op, ast.USub):
                return -v
            if isinstance(e.op, ast.Invert) and isinstance(v, np.ndarray) and v.dtype == bool:
                return ~v
        if isinstance(e, ast.BinOp):
            a, b = self.ev(e.left), self.ev(e.right)
            if isinstance(a, np.ndarray) and a.dtype == bool:
                a = a.astype(int).astype(object)
            if isinstance(b, np.ndarray) and b.dtype == bool:
                b = b.astype(int).astype(object)
            if isinstance(e.op, ast.Add):
                return a + b
            if isinstance(e.op, ast.Sub):
                return a - b
            if isinstance(e.op, ast.Mult):
                return a * b
            if isinstance(e.op, ast.Div):
                return a / b
            if isinstance(e.op, ast.Pow):
                return a ** b
        if isinstance(e, ast.Subscript):
            return self.ev(e.value)[self.index(e.slice)]
        if isinstance(e, ast.Tuple):
            return tuple(self.ev(x) for x in e.elts)
        if isinstance(e, ast.Call):
            nm = call_name(e) or ""
            at = callee_attr(e)
            if nm in ("torch.zeros", "torch.empty"):
                return np.full(self.shape_of(e.args[0]) if isinstance(e.args[0], (ast.Tuple, ast.List)) else tuple(int(self.ev(x)) for x in e.args), sp.Integer(0), dtype=object)
            if nm == "torch.zeros_like":
                return np.full(self.ev(e.args[0]).shape, sp.Integer(0), dtype=object)
            if nm == "torch.eye":
                return np.array(sp.eye(int(self.ev(e.args[0]))).tolist(), dtype=object)
            if nm == "torch.cat":
                return np.concatenate([np.asarray(x, dtype=object) for x in self.ev(e.args[0])], axis=self.kw(e, "dim", 0))
            if nm == "torch.norm":
                x = self.ev(e.args[0])
                r = np.sum(x * x, axis=self.kw(e, "dim"), keepdims=bool(self.kw(e, "keepdim", False)))
                return np.vectorize(sp.sqrt, otypes=[object])(r)
            if nm == "torch.sqrt":
                return np.vectorize(sp.sqrt, otypes=[object])(self.ev(e.args[0]))
            if nm == "torch.einsum":
                spec = ast.literal_eval(e.args[0])
                return np.einsum(spec, *[self.ev(x) for x in e.args[1:]])
            if nm == "torch.tensor":
                return np.array([sp.nsimplify(x, rational=True) for x in ast.literal_eval(e.args[0])], dtype=object)
            if isinstance(e.func, ast.Attribute) and not nm.startswith("torch."):
                x = self.ev(e.func.value)
                if at == "unsqueeze":
                    return np.expand_dims(x, int(ast.literal_eval(e.args[0])))
                if at == "sum":
                    ax = self.kw(e, "dim", ast.literal_eval(e.args[0]) if e.args else None)
                    return np.sum(x, axis=ax, keepdims=bool(self.kw(e, "keepdim", False)))
                if at == "unbind":
                    ax = self.kw(e, "dim", ast.literal_eval(e.args[0]) if e.args else 0)
                    return tuple(np.take(x, i, axis=ax) for i in range(x.shape[ax]))
                if at in ("clone", "contiguous"):
                    return x.copy() if isinstance(x, np.ndarray) else x
        raise AnalysisError(f"frame derivative: expression {t[:70]}")

    def assign(self, st):
        np = self.np
        if isinstance(st, ast.Assign) and len(st.targets) == 1:
            t = st.targets[0]
            v = self.ev(st.value)
            if isinstance(t, ast.Name):
                self.env[t.id] = v
            elif isinstance(t, ast.Tuple) and all(isinstance(x, ast.Name) for x in t.elts):
                if len(v) != len(t.elts):
                    raise AnalysisError(f"frame derivative: unpack {norm(st)[:60]}")
                for x, vi in zip(t.elts, v):
                    self.env[x.id] = vi
            elif isinstance(t, ast.Subscript) and isinstance(t.value, ast.Name):
                arr = self.env[t.value.id]
                ix = self.index(t.slice)
                if any(isinstance(i, np.ndarray) for i in ix):
                    if any(bool(i.any()) for i in ix if isinstance(i, np.ndarray)):
                        arr[ix] = v
                else:
                    arr[ix] = v
            else:
                raise AnalysisError(f"frame derivative: store {norm(t)}")
        else:
            raise AnalysisError(f"frame derivative: statement {norm(st)[:60]}")


def interpret_frame(func, v_exprs, gradient):
    """interpret rotate_with_quaternion on a batch of one pair on the generic chart (mask False); returns rot (and dRdv) as object arrays"""
    import numpy as np
    import sympy as sp
    params = [a.arg for a in func.args.args]
    if len(params) < 2:
        raise AnalysisError("rotate_with_quaternion: signature changed")
    A = _Arr({params[0]: np.array([list(v_exprs)], dtype=object), "n": sp.Integer(1), "device": None, "dtype": None})
    A.env[params[1]] = gradient
    for st in func.body:
        if isinstance(st, ast.Expr) and isinstance(st.value, ast.Constant):
            continue
        if isinstance(st, ast.Return):
            return A.ev(st.value) if st.value is not None else None
        if isinstance(st, ast.If):
            t = norm(st.test).replace(" ", "")
            if "dtype" in t:
                A.env["eps"] = sp.Rational(1, 10 ** 7)
                continue
            if t == f"not{params[1]}":
                if not gradient:
                    return A.ev(st.body[0].value)
                continue
            raise AnalysisError(f"rotate_with_quaternion: branch {t}")
        if isinstance(st, ast.Assign):
            tt = norm(st.targets[0]).replace(" ", "")
            if tt.strip("()") == "n,device,dtype":
                continue
            if tt == "mask":
                A.env["mask"] = np.array([False])
                continue
            # strip device/dtype keywords (on a copy: the module tree is shared between rules)
            st = copy.deepcopy(st)
            for c in ast.walk(st.value):
                if isinstance(c, ast.Call):
                    c.keywords = [k for k in c.keywords if k.arg not in ("device", "dtype")]
            A.assign(st)
            continue
        raise AnalysisError(f"rotate_with_quaternion: statement {norm(st)[:60]}")
    raise AnalysisError("rotate_with_quaternion: no return reached")
