"""Derivative of the rotated two-centre integrals (anal_grad.der_TETCILF), decided by expression algebra.

Three obligations, all read from the source and none executed:

  (A) product rule.  The quadruple loop of der_TETCILF stores, for every packed molecular-frame integral, a polynomial in the local integrals
      ri[k], their derivatives ri_x[k], the frame rot[a][m] and its derivative rot_der[a][m].  It must be D(w[idx]) where w[idx] is the polynomial
      that the energy side (two_elec_two_center_int.w_withquaternion, read by sa.rotint) stores at the same packed index, and D is the derivation
      with D(ri[k]) = ri_x[k], D(rot[a][m]) = rot_der[a][m].  Polynomial identity, decided exactly by expansion (110 identities).

  (B) frame derivative.  rotate_with_quaternion(v, calculate_gradient=True) and the chain rule in der_TETCILF are interpreted on small symbolic
      arrays (batch of one pair) with v = u/|u|: the result rot_der[a, i, j] must be d/du_a of the frame R_ij(u/|u|) that the *energy* branch of the
      same function builds (27 identities, 40-digit evaluation at random rational u).

  (C) both sides feed the same vector into the frame builder, and the prefactor of ri_x differentiates with respect to the same vector
      (term ~ -Xij, v = -xij, Xij = xij * rij * a0), so that (A) combines derivatives with respect to one variable.
"""
from __future__ import annotations

import ast
import copy

from .loader import AnalysisError, call_name, callee_attr, norm


# ------------------------------------------------------------------------------------------------ (A)
def interpret_derivative_loop(func, ri, dri, rix, drix, R, dR, RX, dRX):
    """returns (w_x: {idx: expr}, wXH_x: {idx: expr}) from the quadruple loop of der_TETCILF"""
    import sympy as sp
    outer = None
    pos = None
    for i, st in enumerate(func.body):
        if isinstance(st, ast.For) and isinstance(st.target, ast.Name) and any(
                isinstance(x, (ast.Assign, ast.AugAssign)) and norm(x.targets[0] if isinstance(x, ast.Assign) else x.target).startswith("w_x[") for x in ast.walk(st)):
            outer, pos = st, i
    if outer is None:
        raise AnalysisError("der_TETCILF: loop storing w_x not found")
    vec = {"ri": ri, "ri_x": dri, "riXH": rix, "riXH_x": drix}
    mat = {"rot": R, "rot_der": dR, "rotXH": RX, "rot_derXH": dRX}
    out = {"w_x": {}, "wXH_x": {}}
    env = {}

    def ints(sl):
        elts = sl.elts if isinstance(sl, ast.Tuple) else [sl]
        r = []
        for e in elts:
            if isinstance(e, ast.Slice) or (isinstance(e, ast.Constant) and (e.value is Ellipsis or e.value is None)):
                continue
            v = ev(e)
            if not isinstance(v, (int, sp.Integer)):
                raise AnalysisError(f"der loop: index {norm(e)}")
            r.append(int(v))
        return r

    def ev(e):
        if isinstance(e, ast.Constant):
            if isinstance(e.value, bool):
                return e.value
            if isinstance(e.value, int):
                return sp.Integer(e.value)
            if isinstance(e.value, float):
                return sp.nsimplify(e.value, rational=True)
            raise AnalysisError(f"der loop: constant {e.value!r}")
        if isinstance(e, ast.Name):
            if e.id in env:
                return env[e.id]
            raise AnalysisError(f"der loop: unbound {e.id}")
        if isinstance(e, ast.UnaryOp) and isinstance(e.op, ast.USub):
            return -ev(e.operand)
        if isinstance(e, ast.BinOp):
            a, b = ev(e.left), ev(e.right)
            if isinstance(e.op, ast.Add):
                return a + b
            if isinstance(e.op, ast.Sub):
                return a - b
            if isinstance(e.op, ast.Mult):
                return a * b
            raise AnalysisError(f"der loop: operator {norm(e)[:50]}")
        if isinstance(e, ast.Call) and callee_attr(e) == "unsqueeze" and isinstance(e.func, ast.Attribute):
            return ev(e.func.value)
        if isinstance(e, ast.Subscript) and isinstance(e.value, ast.Name):
            b = e.value.id
            ix = ints(e.slice)
            if b in vec and len(ix) == 1:
                return vec[b][ix[0]]
            if b in mat and len(ix) == 2:
                return mat[b][ix[0]][ix[1]]
            if b in out and len(ix) == 1:
                return out[b].get(ix[0], sp.Integer(0))
        raise AnalysisError(f"der loop: expression {norm(e)[:60]}")

    def test(t):
        if isinstance(t, ast.Compare) and len(t.ops) == 1:
            a, b = ev(t.left), ev(t.comparators[0])
            return {ast.Eq: a == b, ast.NotEq: a != b, ast.Lt: a < b, ast.Gt: a > b, ast.LtE: a <= b, ast.GtE: a >= b}[type(t.ops[0])]
        if isinstance(t, ast.BoolOp):
            vals = [test(v) for v in t.values]
            return all(vals) if isinstance(t.op, ast.And) else any(vals)
        raise AnalysisError(f"der loop: test {norm(t)}")

    def store(t, v, add):
        b = t.value.id
        ix = ints(t.slice)
        if b not in out or len(ix) != 1:
            raise AnalysisError(f"der loop: store {norm(t)}")
        out[b][ix[0]] = (out[b].get(ix[0], sp.Integer(0)) + v) if add else v

    def block(stmts):
        for st in stmts:
            if isinstance(st, ast.For):
                if not (isinstance(st.target, ast.Name) and isinstance(st.iter, ast.Call) and call_name(st.iter) == "range"):
                    raise AnalysisError(f"der loop: loop {norm(st.iter)}")
                a = [int(ev(x)) for x in st.iter.args]
                for i in range(*a):
                    env[st.target.id] = sp.Integer(i)
                    block(st.body)
            elif isinstance(st, ast.If):
                block(st.body if test(st.test) else st.orelse)
            elif isinstance(st, ast.Assign) and len(st.targets) == 1:
                t = st.targets[0]
                if isinstance(t, ast.Name):
                    env[t.id] = ev(st.value)
                elif isinstance(t, ast.Subscript) and isinstance(t.value, ast.Name):
                    store(t, ev(st.value), False)
                else:
                    raise AnalysisError(f"der loop: store {norm(t)}")
            elif isinstance(st, ast.AugAssign) and isinstance(st.op, ast.Add):
                if isinstance(st.target, ast.Name):
                    env[st.target.id] = env[st.target.id] + ev(st.value)
                elif isinstance(st.target, ast.Subscript) and isinstance(st.target.value, ast.Name):
                    store(st.target, ev(st.value), True)
                else:
                    raise AnalysisError(f"der loop: store {norm(st.target)}")
            elif isinstance(st, ast.Pass) or (isinstance(st, ast.Expr) and isinstance(st.value, ast.Constant)):
                continue
            else:
                raise AnalysisError(f"der loop: statement {norm(st)[:60]}")
    # integer counters initialised just before the loop
    k = pos - 1
    pre = []
    while k >= 0:
        st = func.body[k]
        if isinstance(st, ast.Assign) and isinstance(st.targets[0], ast.Name) and isinstance(st.value, (ast.Constant, ast.UnaryOp)):
            pre.insert(0, st)
            k -= 1
        else:
            break
    block(pre)
    block([outer])
    return out["w_x"], out["wXH_x"], outer


def derivation(expr, pairs):
    """D(expr) for the derivation that maps each symbol s to ds (pairs: [(s, ds)])"""
    import sympy as sp
    tot = sp.Integer(0)
    free = expr.free_symbols
    for s, ds in pairs:
        if s in free:
            tot += sp.diff(expr, s) * ds
    return tot


# ------------------------------------------------------------------------------------------------ (B)
class _Arr:
    """numpy object-array interpreter for the few tensor statements of rotate_with_quaternion's gradient branch"""
    def __init__(self, env):
        import numpy as np
        import sympy as sp
        self.np, self.sp = np, sp
        self.env = dict(env)

    def shape_of(self, e):
        if isinstance(e, (ast.Tuple, ast.List)):
            return tuple(int(self.ev(x)) for x in e.elts)
        raise AnalysisError(f"frame derivative: shape {norm(e)}")

    def index(self, sl):
        np = self.np
        elts = sl.elts if isinstance(sl, ast.Tuple) else [sl]
        out = []
        for e in elts:
            if isinstance(e, ast.Slice):
                if e.lower is not None or e.upper is not None or e.step is not None:
                    raise AnalysisError(f"frame derivative: slice {norm(e)}")
                out.append(slice(None))
            elif isinstance(e, ast.Constant) and e.value is Ellipsis:
                out.append(Ellipsis)
            elif isinstance(e, ast.Constant) and e.value is None:
                out.append(None)
            else:
                v = self.ev(e)
                if isinstance(v, np.ndarray) and v.dtype == bool:
                    out.append(v)
                else:
                    out.append(int(v))
        return tuple(out)

    def kw(self, call, name, default=None):
        for k in call.keywords:
            if k.arg == name:
                return ast.literal_eval(k.value)
        return default

    def ev(self, e):
        np, sp = self.np, self.sp
        if isinstance(e, ast.Constant):
            if isinstance(e.value, (bool, type(None))):
                return e.value
            if isinstance(e.value, (int, float)):
                return sp.nsimplify(e.value, rational=True)
            raise AnalysisError(f"frame derivative: constant {e.value!r}")
        t = norm(e)
        if isinstance(e, ast.Name):
            if e.id in self.env:
                return self.env[e.id]
            raise AnalysisError(f"frame derivative: unbound {e.id}")
        if isinstance(e, ast.UnaryOp):
            v = self.ev(e.operand)
            if isinstance(e.op, ast.USub):
                return -v
            if isinstance(e.op, ast.Invert) and isinstance(v, np.ndarray) and v.dtype == bool:
                return ~v
        if isinstance(e, ast.BinOp):
            a, b = self.ev(e.left), self.ev(e.right)
            if isinstance(a, np.ndarray) and a.dtype == bool:
                a = a.astype(int).astype(object)
            if isinstance(b, np.ndarray) and b.dtype == bool:
                b = b.astype(int).astype(object)
            if isinstance(e.op, ast.Add):
                return a + b
            if isinstance(e.op, ast.Sub):
                return a - b
            if isinstance(e.op, ast.Mult):
                return a * b
            if isinstance(e.op, ast.Div):
                return a / b
            if isinstance(e.op, ast.Pow):
                return a ** b
        if isinstance(e, ast.Subscript):
            return self.ev(e.value)[self.index(e.slice)]
        if isinstance(e, ast.Tuple):
            return tuple(self.ev(x) for x in e.elts)
        if isinstance(e, ast.Call):
            nm = call_name(e) or ""
            at = callee_attr(e)
            if nm in ("torch.zeros", "torch.empty"):
                return np.full(self.shape_of(e.args[0]) if isinstance(e.args[0], (ast.Tuple, ast.List)) else tuple(int(self.ev(x)) for x in e.args), sp.Integer(0), dtype=object)
            if nm == "torch.zeros_like":
                return np.full(self.ev(e.args[0]).shape, sp.Integer(0), dtype=object)
            if nm == "torch.eye":
                return np.array(sp.eye(int(self.ev(e.args[0]))).tolist(), dtype=object)
            if nm == "torch.cat":
                return np.concatenate([np.asarray(x, dtype=object) for x in self.ev(e.args[0])], axis=self.kw(e, "dim", 0))
            if nm == "torch.norm":
                x = self.ev(e.args[0])
                r = np.sum(x * x, axis=self.kw(e, "dim"), keepdims=bool(self.kw(e, "keepdim", False)))
                return np.vectorize(sp.sqrt, otypes=[object])(r)
            if nm == "torch.sqrt":
                return np.vectorize(sp.sqrt, otypes=[object])(self.ev(e.args[0]))
            if nm == "torch.einsum":
                spec = ast.literal_eval(e.args[0])
                return np.einsum(spec, *[self.ev(x) for x in e.args[1:]])
            if nm == "torch.tensor":
                return np.array([sp.nsimplify(x, rational=True) for x in ast.literal_eval(e.args[0])], dtype=object)
            if isinstance(e.func, ast.Attribute) and not nm.startswith("torch."):
                x = self.ev(e.func.value)
                if at == "unsqueeze":
                    return np.expand_dims(x, int(ast.literal_eval(e.args[0])))
                if at == "sum":
                    ax = self.kw(e, "dim", ast.literal_eval(e.args[0]) if e.args else None)
                    return np.sum(x, axis=ax, keepdims=bool(self.kw(e, "keepdim", False)))
                if at == "unbind":
                    ax = self.kw(e, "dim", ast.literal_eval(e.args[0]) if e.args else 0)
                    return tuple(np.take(x, i, axis=ax) for i in range(x.shape[ax]))
                if at in ("clone", "contiguous"):
                    return x.copy() if isinstance(x, np.ndarray) else x
        raise AnalysisError(f"frame derivative: expression {t[:70]}")

    def assign(self, st):
        np = self.np
        if isinstance(st, ast.Assign) and len(st.targets) == 1:
            t = st.targets[0]
            v = self.ev(st.value)
            if isinstance(t, ast.Name):
                self.env[t.id] = v
            elif isinstance(t, ast.Tuple) and all(isinstance(x, ast.Name) for x in t.elts):
                if len(v) != len(t.elts):
                    raise AnalysisError(f"frame derivative: unpack {norm(st)[:60]}")
                for x, vi in zip(t.elts, v):
                    self.env[x.id] = vi
            elif isinstance(t, ast.Subscript) and isinstance(t.value, ast.Name):
                arr = self.env[t.value.id]
                ix = self.index(t.slice)
                if any(isinstance(i, np.ndarray) for i in ix):
                    if any(bool(i.any()) for i in ix if isinstance(i, np.ndarray)):
                        arr[ix] = v
                else:
                    arr[ix] = v
            else:
                raise AnalysisError(f"frame derivative: store {norm(t)}")
        else:
            raise AnalysisError(f"frame derivative: statement {norm(st)[:60]}")


def interpret_frame(func, v_exprs, gradient):
    """interpret rotate_with_quaternion on a batch of one pair on the generic chart (mask False); returns rot (and dRdv) as object arrays"""
    import numpy as np
    import sympy as sp
    params = [a.arg for a in func.args.args]
    if len(params) < 2:
        raise AnalysisError("rotate_with_quaternion: signature changed")
    A = _Arr({params[0]: np.array([list(v_exprs)], dtype=object), "n": sp.Integer(1), "device": None, "dtype": None})
    A.env[params[1]] = gradient
    for st in func.body:
        if isinstance(st, ast.Expr) and isinstance(st.value, ast.Constant):
            continue
        if isinstance(st, ast.Return):
            return A.ev(st.value) if st.value is not None else None
        if isinstance(st, ast.If):
            t = norm(st.test).replace(" ", "")
            if "dtype" in t:
                A.env["eps"] = sp.Rational(1, 10 ** 7)
                continue
            if t == f"not{params[1]}":
                if not gradient:
                    return A.ev(st.body[0].value)
                continue
            raise AnalysisError(f"rotate_with_quaternion: branch {t}")
        if isinstance(st, ast.Assign):
            tt = norm(st.targets[0]).replace(" ", "")
            if tt.strip("()") == "n,device,dtype":
                continue
            if tt == "mask":
                A.env["mask"] = np.array([False])
                continue
            # strip device/dtype keywords (on a copy: the module tree is shared between rules)
            st = copy.deepcopy(st)
            for c in ast.walk(st.value):
                if isinstance(c, ast.Call):
                    c.keywords = [k for k in c.keywords if k.arg not in ("device", "dtype")]
            A.assign(st)
            continue
        raise AnalysisError(f"rotate_with_quaternion: statement {norm(st)[:60]}")
    raise AnalysisError("rotate_with_quaternion: no return reached")


# ------------------------------------------------------------------------------------------------ abstract interpretation (sa.npsym) of the tails
def _mask_prelude(frame, func, stop_index):
    """execute the leading top-level assignments that only need what is already bound (pair-class masks, dtype/device aliases); others are skipped"""
    given = set(frame.env)
    for st in func.body[:stop_index]:
        if isinstance(st, ast.Assign) and all(isinstance(t, ast.Name) and t.id not in given for t in st.targets):
            try:
                frame.stmt(st)
            except AnalysisError:
                for t in st.targets:
                    frame.env.pop(t.id, None)


def interpret_derivative_tail(repo):
    """der_TETCILF from the frame-builder call to its end, on one O-C, one C-H and one H-H pair with symbolic local integrals, their derivatives, frame and
    frame derivative (xij = 0 and r0 = 1 make the normalisation Jacobian the identity / a0, so rot_der = dRdv / a0 stays atomic).
    Returns dict(w_x_final=(3,3,10,10) array, symbols...)."""
    import numpy as np
    import sympy as sp
    from .npsym import NpSym, _Frame
    ag = repo.mod("seqm/seqm_functions/anal_grad.py")
    d = ag.func("der_TETCILF")
    idx = [i for i, st in enumerate(d.body) if any(isinstance(c, ast.Call) and (call_name(c) or "").split(".")[-1] == "rotate_with_quaternion" for c in ast.walk(st))]
    if len(idx) != 1:
        raise AnalysisError("der_TETCILF: frame-builder call not found at the top level")
    k = idx[0]
    call = [c for c in ast.walk(d.body[k]) if isinstance(c, ast.Call) and (call_name(c) or "").split(".")[-1] == "rotate_with_quaternion"][0]
    argn = call.args[0].id if call.args and isinstance(call.args[0], ast.Name) else None
    pre = [st for st in d.body[:k] if isinstance(st, ast.Assign) and argn and any(isinstance(t, ast.Name) and t.id == argn for t in st.targets)]
    ni, nj = np.array([8, 6, 1], dtype=np.int64), np.array([6, 1, 1], dtype=np.int64)
    sym = lambda name, *shape: np.array([sp.Symbol(f"{name}{'_'.join(map(str, ix))}") for ix in np.ndindex(*shape)], dtype=object).reshape(shape)
    rot, dRdv = sym("R", 3, 3, 3), sym("dR", 3, 3, 3, 3)       # rot[pair, a, b], dRdv[pair, direction, a, b]
    ri, ri_x = sym("ri", 1, 22), sym("dri", 1, 3, 22)
    riXH, riXH_x, riHH_x = sym("rx", 1, 4), sym("drx", 1, 3, 4), sym("dhh", 1, 3)
    w_x_final = np.full((3, 3, 10, 10), sp.Integer(0), dtype=object)
    params = [a.arg for a in d.args.args]
    env = {"ni": ni, "nj": nj, "xij": np.full((3, 3), sp.Integer(0), dtype=object), "Xij": np.full((3, 3), sp.Integer(0), dtype=object),
           "r0": np.full((3,), sp.Integer(1), dtype=object), "ri": ri, "riXH": riXH, "ri_x": ri_x, "riXH_x": riXH_x, "riHH_x": riHH_x}
    if not params or params[0] in env:
        raise AnalysisError("der_TETCILF: output parameter not recognised")
    env[params[0]] = w_x_final
    for p in params:
        if p not in env:
            env[p] = None

    def frame_stub(v, *a, **kw):
        if not (kw.get("calculate_gradient") or (a and a[0])):
            raise AnalysisError("der_TETCILF: frame derivative not requested from the frame builder")
        return rot.copy(), dRdv.copy()
    I = NpSym(repo, stubs={"rotate_with_quaternion": frame_stub})
    fr = _Frame(I, ag, env)
    fr.env["dtype"], fr.env["device"] = None, None
    _mask_prelude(fr, d, k)
    for st in pre:
        fr.stmt(st)
    try:
        fr.block(d.body[k:])
    except Exception as e:
        if type(e).__name__ == "_Return":
            pass
        else:
            raise
    a0 = I.global_value(ag, "a0")
    return {"w_x_final": w_x_final, "rot": rot, "dR": dRdv / a0, "ri": ri[0], "dri": ri_x[0], "rx": riXH[0], "drx": riXH_x[0], "dhh": riHH_x[0], "func": d, "module": ag}


def interpret_core_electron_derivative(repo):
    """w_der after the der_TETCILF call: e1b_x / e2a_x as polynomials in the unified derivative block W[pair, direction, 10, 10] and the core charges"""
    import numpy as np
    import sympy as sp
    from .npsym import NpSym, _Frame
    ag = repo.mod("seqm/seqm_functions/anal_grad.py")
    f = ag.func("w_der")
    idx = [i for i, st in enumerate(f.body) if isinstance(st, ast.Expr) and isinstance(st.value, ast.Call) and (call_name(st.value) or "") == "der_TETCILF"]
    if len(idx) != 1:
        raise AnalysisError("w_der: call of der_TETCILF not found at the top level")
    k = idx[0]
    ni, nj = np.array([8, 6, 1], dtype=np.int64), np.array([6, 1, 1], dtype=np.int64)
    W = np.array([sp.Symbol(f"W{'_'.join(map(str, ix))}") for ix in np.ndindex(3, 3, 10, 10)], dtype=object).reshape(3, 3, 10, 10)
    tore = np.array([sp.Symbol(f"Z{z}") for z in range(9)], dtype=object)
    env = {"ni": ni, "nj": nj, "tore": tore, "w_x": W.copy(), "rij": np.full((3,), sp.Integer(1), dtype=object)}
    I = NpSym(repo)
    fr = _Frame(I, ag, env)
    _mask_prelude(fr, f, k)
    ret = None
    try:
        fr.block(f.body[k + 1:])
    except Exception as e:
        if type(e).__name__ == "_Return":
            ret = e.v
        else:
            raise
    if not (isinstance(ret, tuple) and len(ret) == 2 and all(getattr(x, "shape", None) == (3, 3, 4, 4) for x in ret)):
        raise AnalysisError("w_der: does not return (e1b_x, e2a_x) of shape (pairs, 3, 4, 4)")
    return {"e1b_x": ret[0], "e2a_x": ret[1], "W": W, "tore": tore, "ni": ni, "nj": nj, "func": f, "module": ag}


def interpret_frame_derivative(repo):
    """rot and rot_der as der_TETCILF obtains them (frame builder with gradient, Jacobian of the normalisation, contractions), interpreted by sa.npsym for one pair with
    bond vector u: xij = -u/|u|, r0 = |u|/a0, Xij = xij r0 a0, on the generic chart of the frame.  Also the energy-branch frame for the same vector.
    Returns dict(rot=(3,3), rot_der=(3,3,3) [direction, i, j], rot_energy=(3,3), u=(ux,uy,uz), v_is_minus_xij=bool)."""
    import numpy as np
    import sympy as sp
    from .npsym import NpSym, _Frame
    ag = repo.mod("seqm/seqm_functions/anal_grad.py")
    te = repo.mod("seqm/seqm_functions/two_elec_two_center_int.py")
    d = ag.func("der_TETCILF")
    idx = [i for i, st in enumerate(d.body) if any(isinstance(c, ast.Call) and (call_name(c) or "").split(".")[-1] == "rotate_with_quaternion" for c in ast.walk(st))]
    if len(idx) != 1 or not (isinstance(d.body[idx[0]], ast.Assign) and isinstance(d.body[idx[0]].targets[0], ast.Tuple) and len(d.body[idx[0]].targets[0].elts) == 2
                             and all(isinstance(e, ast.Name) for e in d.body[idx[0]].targets[0].elts)):
        raise AnalysisError("der_TETCILF: `rot, rot_der = rotate_with_quaternion(...)` not found at the top level")
    k = idx[0]
    rot_name, der_name = (e.id for e in d.body[k].targets[0].elts)
    call = [c for c in ast.walk(d.body[k]) if isinstance(c, ast.Call) and (call_name(c) or "").split(".")[-1] == "rotate_with_quaternion"][0]
    argn = call.args[0].id if call.args and isinstance(call.args[0], ast.Name) else None
    pre = [st for st in d.body[:k] if isinstance(st, ast.Assign) and argn and any(isinstance(t, ast.Name) and t.id == argn for t in st.targets)]
    ux, uy, uz = sp.symbols("ux uy uz", real=True)
    un = sp.sqrt(ux ** 2 + uy ** 2 + uz ** 2)
    generic = lambda node: False            # generic chart: the antipodal test |1 + v_x| < eps is false
    I = NpSym(repo, symbolic_compare=generic)
    a0 = I.global_value(ag, "a0")
    xij = np.array([[-ux / un, -uy / un, -uz / un]], dtype=object)
    env = {"ni": np.array([8]), "nj": np.array([6]), "xij": xij, "r0": np.array([un / a0], dtype=object), "Xij": xij * un, "dtype": None, "device": None}
    for p in [a.arg for a in d.args.args]:
        env.setdefault(p, None)
    seen = {}
    fb = te.func("rotate_with_quaternion")

    def through(v, *a, **kw):
        seen["v"] = v
        return I.call_function(te, fb, [v] + list(a), kw)
    I.stubs["rotate_with_quaternion"] = through
    fr = _Frame(I, ag, env)
    _mask_prelude(fr, d, k)
    for st in pre:
        fr.stmt(st)
    for st in d.body[k:]:
        if isinstance(st, (ast.For, ast.While)):
            break
        if isinstance(st, ast.Assign) and isinstance(st.value, ast.Subscript) and isinstance(st.value.value, ast.Name) and st.value.value.id in (rot_name, der_name) \
                and any(isinstance(n, ast.Name) and n.id in ("XH", "XX", "HH") for n in ast.walk(st.value.slice)):
            break
        fr.stmt(st)
    rot, rot_der = fr.env.get(rot_name), fr.env.get(der_name)
    if getattr(rot, "shape", None) != (1, 3, 3) or getattr(rot_der, "shape", None) != (1, 3, 3, 3):
        raise AnalysisError("der_TETCILF: frame / frame derivative have unexpected shapes")
    v = seen.get("v")
    v_ok = v is not None and all(sp.simplify(v[0, c] + xij[0, c]) == 0 for c in range(3))
    del I.stubs["rotate_with_quaternion"]
    rot_e = I.call_function(te, fb, [np.array([[ux / un, uy / un, uz / un]], dtype=object)])
    if getattr(rot_e, "shape", None) != (1, 3, 3):
        raise AnalysisError("rotate_with_quaternion: energy branch does not return one 3x3 frame per pair")
    return {"rot": rot[0], "rot_der": rot_der[0], "rot_energy": rot_e[0], "u": (ux, uy, uz), "v_is_minus_xij": v_ok, "a0": a0, "func": fb, "module": te}
