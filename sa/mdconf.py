"""Configuration-label taint for the MD output machinery.

`labels(expr)` resolves an expression to the set of *output-configuration keys* it derives
from, following def-chains through locals, `self._field` assignments in `__init__`,
`OutputConfig` getters/fields and `for name, stride in <dict>.items()` loops.
The special label ``ITEM:<dict expr>`` stands for "the value belonging to the loop's own key".
"""
from __future__ import annotations

import ast
from typing import Dict, List, Optional, Set

from .loader import AnalysisError, Module, Repo, attr_chain, dotted, norm, walk_no_nested

MD = "seqm/MolecularDynamics.py"
NAD = "seqm/NonadiabaticDynamics.py"


class ConfTaint:
    def __init__(self, repo: Repo):
        self.repo = repo
        self.md = repo.mod(MD)
        self.oc = self.md.cls("OutputConfig")
        self.h5w = self.md.cls("HDF5Writer")
        self._oc_methods = {st.name: st for st in self.oc.body if isinstance(st, ast.FunctionDef)}
        self._depth = 0

    # -------------------------------------------------------------- helpers
    def _assignments(self, func: ast.AST, name: str) -> List[ast.AST]:
        """All value expressions assigned to local `name` in func (flow-insensitive);
        for-loop / comprehension targets yield ('ITER', iterable, position)."""
        out = []
        for n in ast.walk(func):
            if isinstance(n, ast.Assign):
                for t in n.targets:
                    if isinstance(t, ast.Name) and t.id == name:
                        out.append(n.value)
                    elif isinstance(t, (ast.Tuple, ast.List)):
                        for k, e in enumerate(t.elts):
                            if isinstance(e, ast.Name) and e.id == name:
                                if isinstance(n.value, (ast.Tuple, ast.List)) and len(n.value.elts) == len(t.elts):
                                    out.append(n.value.elts[k])
                                else:
                                    out.append(("UNPACK", n.value, k))
            elif isinstance(n, ast.AnnAssign) and isinstance(n.target, ast.Name) and n.target.id == name and n.value:
                out.append(n.value)
            elif isinstance(n, ast.AugAssign) and isinstance(n.target, ast.Name) and n.target.id == name:
                out.append(n.value)
            elif isinstance(n, (ast.For, ast.comprehension)):
                t = n.target
                if isinstance(t, ast.Name) and t.id == name:
                    out.append(("ITER", n.iter, None))
                elif isinstance(t, (ast.Tuple, ast.List)):
                    for k, e in enumerate(t.elts):
                        if isinstance(e, ast.Name) and e.id == name:
                            out.append(("ITER", n.iter, k))
            elif isinstance(n, ast.NamedExpr) and n.target.id == name:
                out.append(n.value)
        return out

    def _self_field_values(self, cls: ast.ClassDef, field: str) -> List[ast.AST]:
        out = []
        for m, c in self.repo.mro(self.md if cls.name in self.md.classes else self._mod_of(cls), cls):
            for st in c.body:
                if isinstance(st, ast.FunctionDef):
                    for n in ast.walk(st):
                        if isinstance(n, ast.Assign):
                            for t in n.targets:
                                if isinstance(t, ast.Attribute) and t.attr == field and isinstance(t.value, ast.Name) \
                                        and t.value.id == "self":
                                    out.append((n.value, st, c))
        return out

    def _mod_of(self, cls):
        for rel in (MD, NAD):
            m = self.repo.mod(rel)
            if cls in m.classes.values():
                return m
        raise AnalysisError("class module not found")

    # -------------------------------------------------------------- main
    def labels(self, expr, func: ast.AST, cls: Optional[ast.ClassDef]) -> Set[str]:
        self._depth += 1
        try:
            if self._depth > 40:
                return {"?deep"}
            return self._labels(expr, func, cls)
        finally:
            self._depth -= 1

    def _labels(self, expr, func, cls) -> Set[str]:
        if isinstance(expr, tuple):
            kind, it, pos = expr
            if kind == "ITER":
                # for k, v in D.items(): v -> ITEM:D ; for x in L: x -> labels(L)
                if isinstance(it, ast.Call) and isinstance(it.func, ast.Attribute) and it.func.attr == "items":
                    if pos == 1:
                        return {"ITEM:" + norm(it.func.value)}
                    return set()
                return self.labels(it, func, cls)
            if kind == "UNPACK":
                return self.labels(it, func, cls)
        if expr is None or isinstance(expr, ast.Constant):
            return set()
        if isinstance(expr, ast.Name):
            vals = self._assignments(func, expr.id)
            out: Set[str] = set()
            for v in vals:
                out |= self.labels(v, func, cls)
            return out
        if isinstance(expr, ast.Call):
            f = expr.func
            # config.get("key", default) / int(config.get(...))
            if isinstance(f, ast.Attribute) and f.attr in ("get", "setdefault", "pop") and expr.args \
                    and isinstance(expr.args[0], ast.Constant) and isinstance(expr.args[0].value, str):
                return {expr.args[0].value}
            # output_config.get_xxx()
            if isinstance(f, ast.Attribute) and f.attr in self._oc_methods and f.attr.startswith("get_"):
                return self._method_return_labels(self._oc_methods[f.attr])
            out = set()
            for a in expr.args:
                out |= self.labels(a, func, cls)
            for k in expr.keywords:
                if k.arg != "default":
                    out |= self.labels(k.value, func, cls)
            if isinstance(f, ast.Attribute):
                out |= self.labels(f.value, func, cls)
            return out
        if isinstance(expr, ast.Subscript):
            if isinstance(expr.slice, ast.Constant) and isinstance(expr.slice.value, str):
                base = self.labels(expr.value, func, cls)
                return {expr.slice.value}
            return self.labels(expr.value, func, cls) | self.labels(expr.slice, func, cls)
        if isinstance(expr, ast.Attribute):
            ch = attr_chain(expr)
            if ch and ch[0] == "self" and len(ch) == 2 and cls is not None:
                vals = self._self_field_values(cls, ch[1])
                out = set()
                for v, fn, c in vals:
                    out |= self.labels(v, fn, c)
                return out
            # <obj>._field where _field is an HDF5Writer instance field (e.g. self._h5_writer._write_nonadiabatic)
            if expr.attr.startswith("_") and ch and len(ch) >= 3:
                vals = self._self_field_values(self.h5w, expr.attr)
                if vals:
                    out = set()
                    for v, fn, c in vals:
                        out |= self.labels(v, fn, c)
                    return out
            # <anything>.output_config.<field> or output_config.<field> / self.config.<field>
            if expr.attr in self._oc_field_names():
                return self._oc_field_labels(expr.attr)
            return self.labels(expr.value, func, cls)
        if isinstance(expr, (ast.ListComp, ast.GeneratorExp, ast.SetComp)):
            out = set()
            # element labels; comprehension vars resolved through generators
            for g in expr.generators:
                out |= self._comp_labels(g, func, cls)
            return out
        if isinstance(expr, ast.DictComp):
            out = set()
            for g in expr.generators:
                out |= self._comp_labels(g, func, cls)
            return out
        if isinstance(expr, ast.Dict):
            out = set()
            for v in expr.values:
                out |= self.labels(v, func, cls)
            return out
        if isinstance(expr, (ast.BinOp,)):
            return self.labels(expr.left, func, cls) | self.labels(expr.right, func, cls)
        if isinstance(expr, ast.BoolOp):
            out = set()
            for v in expr.values:
                out |= self.labels(v, func, cls)
            return out
        if isinstance(expr, ast.UnaryOp):
            return self.labels(expr.operand, func, cls)
        if isinstance(expr, ast.IfExp):
            return self.labels(expr.body, func, cls) | self.labels(expr.orelse, func, cls) | self.labels(expr.test, func, cls)
        if isinstance(expr, ast.Compare):
            out = self.labels(expr.left, func, cls)
            for c in expr.comparators:
                out |= self.labels(c, func, cls)
            return out
        if isinstance(expr, (ast.Tuple, ast.List, ast.Set)):
            out = set()
            for e in expr.elts:
                out |= self.labels(e, func, cls)
            return out
        return set()

    def _comp_labels(self, g: ast.comprehension, func, cls) -> Set[str]:
        """Labels of the values a comprehension draws: if filtered by `k in <set of literals>` the
        labels are those literals (config keys)."""
        out = set()
        keys = set()
        for cond in g.ifs:
            for n in ast.walk(cond):
                if isinstance(n, ast.Compare) and len(n.ops) == 1 and isinstance(n.ops[0], ast.In):
                    keys |= self._literal_strings(n.comparators[0], func)
        if keys:
            return keys
        return self.labels(g.iter, func, cls)

    def _literal_strings(self, expr, func) -> Set[str]:
        if isinstance(expr, (ast.Set, ast.List, ast.Tuple)):
            return {e.value for e in expr.elts if isinstance(e, ast.Constant) and isinstance(e.value, str)}
        if isinstance(expr, ast.Name):
            out = set()
            for v in self._assignments(func, expr.id):
                if not isinstance(v, tuple):
                    out |= self._literal_strings(v, func)
            return out
        return set()

    def _method_return_labels(self, meth: ast.FunctionDef) -> Set[str]:
        out = set()
        for n in ast.walk(meth):
            if isinstance(n, ast.Return) and n.value is not None:
                out |= self.labels(n.value, meth, self.oc)
        return out

    def _oc_field_names(self) -> Set[str]:
        names = set()
        for st in self.oc.body:
            if isinstance(st, ast.AnnAssign) and isinstance(st.target, ast.Name):
                names.add(st.target.id)
        return names

    def _oc_field_labels(self, field: str) -> Set[str]:
        """Labels of an OutputConfig dataclass field = labels of the keyword passed to cls(...) in from_dict."""
        fd = self._oc_methods.get("from_dict")
        if fd is None:
            raise AnalysisError("OutputConfig.from_dict missing")
        out = set()
        found = False
        for n in ast.walk(fd):
            if isinstance(n, ast.Call) and isinstance(n.func, ast.Name) and n.func.id == "cls":
                for k in n.keywords:
                    if k.arg == field:
                        found = True
                        out |= self.labels(k.value, fd, self.oc)
        if not found:
            return set()
        return out

    # cadence dict: each key maps to the config read of the same key
    def cadence_dict_is_per_key(self) -> List[str]:
        """Check get_h5_cadence returns {k: f(h5_config.get(k))}; returns list of problems."""
        meth = self._oc_methods.get("get_h5_cadence")
        if meth is None:
            raise AnalysisError("OutputConfig.get_h5_cadence missing")
        problems = []
        ok = False
        for n in ast.walk(meth):
            if isinstance(n, ast.Return) and isinstance(n.value, ast.Dict):
                ok = True
                for k, v in zip(n.value.keys, n.value.values):
                    if not (isinstance(k, ast.Constant) and isinstance(k.value, str)):
                        problems.append(f"non-literal key {norm(k)}")
                        continue
                    labs = self.labels(v, meth, self.oc)
                    if labs != {k.value}:
                        problems.append(f"cadence of stream '{k.value}' is read from config key(s) {sorted(labs)}")
            elif isinstance(n, ast.Return) and isinstance(n.value, ast.DictComp):
                ok = True
                dc = n.value
                # {k: int(cfg.get(k, 0)) for k in (...)}
                v_names = {x.id for x in ast.walk(dc.value) if isinstance(x, ast.Name)}
                k_names = {x.id for x in ast.walk(dc.key) if isinstance(x, ast.Name)}
                if not (k_names and k_names <= v_names):
                    problems.append("dict comprehension value does not use its own key")
        if not ok:
            raise AnalysisError("get_h5_cadence: unrecognised return shape")
        return problems
