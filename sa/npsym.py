"""NpSym -- abstract interpreter for the repository's tensor-assembly code over small concrete shapes and symbolic (sympy) entries.

The assembly routines of the package (Fock builders, core Hamiltonian, density contraction of integral derivatives) are straight-line
tensor programs whose control flow depends only on configuration (method name, spin treatment) and on integer index tensors.  NpSym re-reads
such a function from its syntax tree and evaluates it over numpy *object* arrays whose entries are sympy expressions: index tensors are
concrete small integer arrays supplied by the rule, every floating-point literal becomes an exact rational, and every torch operation is
mapped to the numpy operation with the same indexing / broadcasting / aliasing semantics (basic slices are views, advanced indices are
copies, in-place methods write through aliases).  The result is, for every output element, the polynomial in the inputs that the source
text denotes -- for all values of the inputs at once.  Nothing from the repository is imported or executed; torch is not needed.

Calls to other repository functions are interpreted recursively (same module or `from .x import f`); a rule may stub a callee (e.g. the
integral kernels, which have their own oracles) by name.  Anything the interpreter does not understand raises AnalysisError (fail closed).
"""
from __future__ import annotations

import ast
import types
from typing import Any, Callable, Dict, Optional

from .loader import AnalysisError, norm


class _Return(Exception):
    def __init__(self, v):
        self.v = v


class _Break(Exception):
    pass


class _Continue(Exception):
    pass


class Raised(Exception):
    """the interpreted code executed a `raise`"""
    def __init__(self, what):
        super().__init__(what)
        self.what = what


class FuncRef:
    closure = None      # environment of the defining frame for nested functions / lambdas (by reference)

    def __init__(self, mod, node, qual=None):
        self.mod, self.node, self.qual = mod, node, qual or node.name


class ClassRef:
    """a repository class used as a plain record: instantiating it without arguments gives its class-level constants"""
    def __init__(self, mod, node):
        self.mod, self.node = mod, node


class Model:
    """base class of rule-provided stand-ins for foreign objects (an HDF5 file, a text file): attribute reads return the python attribute (callables are called with the frame as
    first argument), subscripts go through np_getitem(frame, key) / np_setitem(frame, key, value), `in` through __contains__"""


class Instance(types.SimpleNamespace):
    """an object of a repository class: attributes set by the interpreted code live in the namespace, methods are resolved through the class and its repository bases"""
    def __init__(self, mod, cls_name, **kw):
        super().__init__(**kw)
        object.__setattr__(self, "_npsym_class", (mod, cls_name))

    def __repr__(self):
        return f"<instance of {self._npsym_class[1]}>"


class _ValuesIndices(tuple):
    """result of tensor.max(dim) / tensor.min(dim): a (values, indices) pair that also answers .values / .indices"""
    values = property(lambda self: self[0])
    indices = property(lambda self: self[1])


class TorchMarker:
    """torch.<something> that carries no value of interest (dtypes, devices)"""
    def __init__(self, name):
        self.name = name

    def __eq__(self, other):
        return isinstance(other, TorchMarker) and other.name == self.name

    def __hash__(self):
        return hash(("TorchMarker", self.name))

    def __repr__(self):
        return f"<{self.name}>"


TORCH = TorchMarker("torch")
INT_DTYPES = {"torch.long", "torch.int64", "torch.int32", "torch.int", "torch.int16", "torch.uint8"}
BOOL_DTYPES = {"torch.bool"}


class NpSym:
    def __init__(self, repo, stubs: Optional[Dict[str, Callable]] = None, max_steps: int = 2_000_000, symbolic_compare: Optional[Callable] = None):
        import numpy as np
        import sympy as sp
        self.np, self.sp = np, sp
        self.repo = repo
        self.stubs = dict(stubs or {})
        self.steps = 0
        self.max_steps = max_steps
        self._glob_cache: Dict[Any, Any] = {}
        self.trace: list = []
        # symbolic_compare(node) -> bool decides a comparison between symbolic entries (e.g. "generic chart: |w| < eps is False"); None: fail closed
        self.symbolic_compare = symbolic_compare

    # ------------------------------------------------------------------ values
    def num(self, v):
        sp = self.sp
        if isinstance(v, bool) or v is None or isinstance(v, str):
            return v
        if isinstance(v, int):
            return v
        if isinstance(v, float):
            if v != v or v in (float("inf"), float("-inf")):
                return sp.oo if v > 0 else (-sp.oo if v < 0 else sp.nan)
            return sp.nsimplify(v, rational=True)
        return v

    def arr(self, data, dtype=None):
        np = self.np
        if dtype == "int":
            return np.array(data, dtype=np.int64)
        if dtype == "bool":
            return np.array(data, dtype=bool)
        a = np.array(data, dtype=object)
        return a

    def is_arr(self, v):
        return isinstance(v, self.np.ndarray)

    def osum(self, x, axis=None, keepdims=False):
        """sum of an array; object arrays are added with one n-ary Add per output element (incremental + is quadratic in sympy)"""
        np, sp = self.np, self.sp
        if not isinstance(x, np.ndarray) or x.dtype != object:
            return np.sum(x, axis=axis, keepdims=keepdims)
        if axis is None:
            axes = tuple(range(x.ndim))
        else:
            axes = tuple(a % x.ndim for a in (axis if isinstance(axis, tuple) else (axis,)))
        keep = [a for a in range(x.ndim) if a not in axes]
        y = np.transpose(x, keep + list(axes)).reshape(tuple(x.shape[a] for a in keep) + (-1,))
        out = np.empty(y.shape[:-1], dtype=object)
        for idx in np.ndindex(*out.shape):
            out[idx] = sp.Add(*[sp.sympify(t) for t in y[idx]])
        if keepdims:
            shape = [1 if a in axes else x.shape[a] for a in range(x.ndim)]
            out = out.reshape(shape)
        elif out.ndim == 0:
            return out[()]
        return out

    def _obj(self, a):
        """numeric view of an array for arithmetic: bool -> int"""
        np = self.np
        if isinstance(a, np.ndarray) and a.dtype == bool:
            return a.astype(np.int64)
        return a

    def _from_literal(self, lit, dtype):
        np, sp = self.np, self.sp
        a = np.array(lit)
        if dtype == "int" or (dtype is None and a.dtype.kind in "iu"):
            return a.astype(np.int64)
        if dtype == "bool" or (dtype is None and a.dtype.kind == "b"):
            return a.astype(bool)
        if a.dtype.kind in "fiu":
            return np.vectorize(lambda x: sp.nsimplify(float(x), rational=True), otypes=[object])(a) if a.size else a.astype(object)
        return np.array(lit, dtype=object)

    # ------------------------------------------------------------------ module globals
    def global_value(self, mod, name):
        key = (mod.rel, name)
        if key in self._glob_cache:
            return self._glob_cache[key]
        if name in mod.functions:
            v = FuncRef(mod, mod.functions[name], name)
            self._glob_cache[key] = v
            return v
        if name in mod.classes:
            v = ClassRef(mod, mod.classes[name])
            self._glob_cache[key] = v
            return v
        # module-level assignment (last one wins)
        val = None
        found = False
        for st in mod.tree.body:
            if isinstance(st, ast.Assign):
                for t in st.targets:
                    if isinstance(t, ast.Name) and t.id == name:
                        val, found = st.value, True
                    elif isinstance(t, ast.Tuple):
                        for k, e in enumerate(t.elts):
                            if isinstance(e, ast.Name) and e.id == name:
                                val, found = ast.Subscript(value=st.value, slice=ast.Constant(value=k), ctx=ast.Load()), True
            elif isinstance(st, ast.AnnAssign) and isinstance(st.target, ast.Name) and st.target.id == name and st.value is not None:
                val, found = st.value, True
        if found:
            fr = _Frame(self, mod, {})
            v = fr.ev(val)
            self._glob_cache[key] = v
            return v
        # imports
        for st in mod.tree.body:
            if isinstance(st, ast.ImportFrom):
                for al in st.names:
                    if (al.asname or al.name) == name or al.name == "*":
                        target = self._resolve_import(mod, st)
                        if target is not None:
                            nm = name if al.name == "*" else al.name
                            try:
                                v = self.global_value(target, nm)
                            except AnalysisError:
                                if al.name == "*":
                                    continue
                                raise
                            self._glob_cache[key] = v
                            return v
            elif isinstance(st, ast.Import):
                for al in st.names:
                    if (al.asname or al.name) == name:
                        if al.name == "torch":
                            return TORCH
                        if al.name in ("math", "numpy"):
                            return TorchMarker(al.name)
                        return TorchMarker(al.name)        # any other library module: an opaque marker (its functions fail closed unless the rule provides a stand-in)
        raise AnalysisError(f"npsym: global `{name}` of {mod.rel} not resolved")

    def _resolve_import(self, mod, st):
        base = mod.rel.rsplit("/", 1)[0]
        if st.level:
            parts = base.split("/")
            for _ in range(st.level - 1):
                parts = parts[:-1]
            path = "/".join(parts + (st.module.split(".") if st.module else []))
        else:
            path = (st.module or "").replace(".", "/")
        for cand in (path + ".py", path + "/__init__.py"):
            if self.repo.has(cand):
                return self.repo.mod(cand)
        return None

    # ------------------------------------------------------------------ entry
    def call_function(self, mod, func, args=(), kwargs=None):
        node = func if isinstance(func, ast.AST) else mod.func(func)
        qual = func if isinstance(func, str) else next((q for q, n in mod.functions.items() if n is node), node.name)
        return self._invoke(FuncRef(mod, node, qual), list(args), dict(kwargs or {}))

    def class_attribute(self, mod, cls_name, name, selfobj, default=KeyError):
        """attribute `name` looked up on the class `cls_name` and its repository bases for the instance selfobj: a method bound to selfobj (static / class methods bound
        accordingly, properties evaluated), or a class-level assignment"""
        seen = set()
        todo = [(mod, cls_name)]
        while todo:
            m, c = todo.pop(0)
            if (m.rel, c) in seen or c not in m.classes:
                continue
            seen.add((m.rel, c))
            q = f"{c}.{name}"
            if q in m.functions:
                node = m.functions[q]
                fr = FuncRef(m, node, q)
                decos = {(d.id if isinstance(d, ast.Name) else d.attr if isinstance(d, ast.Attribute) else "") for d in node.decorator_list}
                if "staticmethod" in decos:
                    return fr
                if "classmethod" in decos:
                    cref = ClassRef(m, m.classes[c])
                    return lambda frame, *a, **k: self._invoke(fr, [cref] + list(a), dict(k))
                if "property" in decos:
                    return self._invoke(fr, [selfobj], {})
                return lambda frame, *a, **k: self._invoke(fr, [selfobj] + list(a), dict(k))
            for st_ in m.classes[c].body:
                if isinstance(st_, ast.Assign) and len(st_.targets) == 1 and isinstance(st_.targets[0], ast.Name) and st_.targets[0].id == name:
                    return _Frame(self, m, {}).ev(st_.value)
                if isinstance(st_, ast.AnnAssign) and isinstance(st_.target, ast.Name) and st_.target.id == name and st_.value is not None:
                    return _Frame(self, m, {}).ev(st_.value)
            for b in m.classes[c].bases:
                bn = b.id if isinstance(b, ast.Name) else b.attr if isinstance(b, ast.Attribute) else None
                if bn is None:
                    continue
                if bn in m.classes:
                    todo.append((m, bn))
                else:
                    for st in m.tree.body:
                        if isinstance(st, ast.ImportFrom) and any((al.asname or al.name) == bn for al in st.names):
                            tm = self._resolve_import(m, st)
                            if tm is not None:
                                todo.append((tm, bn))
        if default is KeyError:
            raise AnalysisError(f"npsym: attribute `{name}` of an instance of {cls_name} is neither set nor defined by its repository classes")
        return default

    def construct(self, cref, args, kwargs):
        """an Instance of a repository class: dataclass fields from the arguments / defaults, or the interpreted __init__"""
        node = cref.node
        decos = {(d.id if isinstance(d, ast.Name) else d.attr if isinstance(d, ast.Attribute) else getattr(getattr(d, "func", None), "id", "")) for d in node.decorator_list}
        obj = Instance(cref.mod, node.name)
        is_named_tuple = any((b.id if isinstance(b, ast.Name) else b.attr if isinstance(b, ast.Attribute) else "") == "NamedTuple" for b in node.bases)
        if "dataclass" in decos or is_named_tuple:
            fields = [st for st in node.body if isinstance(st, ast.AnnAssign) and isinstance(st.target, ast.Name)]
            if len(args) > len(fields):
                raise AnalysisError(f"npsym: too many arguments for dataclass {node.name}")
            kwargs = dict(kwargs)
            fr = _Frame(self, cref.mod, {})
            for i, f in enumerate(fields):
                nm = f.target.id
                if i < len(args):
                    setattr(obj, nm, args[i])
                elif nm in kwargs:
                    setattr(obj, nm, kwargs.pop(nm))
                elif f.value is not None:
                    v = f.value
                    if isinstance(v, ast.Call) and (norm(v.func) in ("field", "dataclasses.field")):
                        kw = {k.arg: k.value for k in v.keywords}
                        if "default_factory" in kw:
                            setattr(obj, nm, fr.apply(fr.ev(kw["default_factory"]), []))
                        elif "default" in kw:
                            setattr(obj, nm, fr.ev(kw["default"]))
                        else:
                            raise AnalysisError(f"npsym: dataclass field {node.name}.{nm} without a default")
                    else:
                        setattr(obj, nm, fr.ev(v))
                else:
                    raise AnalysisError(f"npsym: missing dataclass field {node.name}.{nm}")
            if kwargs:
                raise AnalysisError(f"npsym: unexpected fields {sorted(kwargs)} for dataclass {node.name}")
            return obj
        init = self.class_attribute(cref.mod, node.name, "__init__", obj, default=None)
        if init is None:
            if args or kwargs:
                raise AnalysisError(f"npsym: {node.name} takes no arguments")
            return obj
        init(None, *args, **kwargs)
        if getattr(self, "instance_hook", None) is not None:
            self.instance_hook(obj)
        return obj

    def super_method(self, mod, cls_name, method, selfobj):
        """the implementation of `method` that super() of class `cls_name` resolves to (single inheritance chains of repository classes), bound to selfobj"""
        seen = set()
        todo = [(mod, cls_name)]
        first = True
        while todo:
            m, c = todo.pop(0)
            if (m.rel, c) in seen or c not in m.classes:
                continue
            seen.add((m.rel, c))
            if not first:
                q = f"{c}.{method}"
                if q in m.functions:
                    fr = FuncRef(m, m.functions[q], q)
                    return lambda frame, *a, **k: self._invoke(fr, [selfobj] + list(a), k)
            first = False
            for b in m.classes[c].bases:
                bn = b.id if isinstance(b, ast.Name) else b.attr if isinstance(b, ast.Attribute) else None
                if bn is None:
                    continue
                if bn in m.classes:
                    todo.append((m, bn))
                else:
                    for st in m.tree.body:
                        if isinstance(st, ast.ImportFrom) and any((al.asname or al.name) == bn for al in st.names):
                            tm = self._resolve_import(m, st)
                            if tm is not None:
                                todo.append((tm, bn))
        if method == "__init__":
            return lambda frame, *a, **k: None          # torch.nn.Module / object constructor
        raise AnalysisError(f"npsym: super().{method} of {cls_name} not found among the repository classes")

    def _invoke(self, fr: FuncRef, args, kwargs):
        node = fr.node
        a = node.args
        params = [p.arg for p in a.posonlyargs + a.args]
        env: Dict[str, Any] = {}
        if len(args) > len(params) and a.vararg is None:
            raise AnalysisError(f"npsym: too many arguments for {fr.qual}")
        for p, v in zip(params, args):
            env[p] = v
        if a.vararg is not None:
            env[a.vararg.arg] = tuple(args[len(params):])
        defaults = a.defaults
        dstart = len(params) - len(defaults)
        frame = _Frame(self, fr.mod, env)
        frame.closure = fr.closure
        if fr.closure is not None and getattr(fr.closure, "self_name", None) and "." not in (fr.qual or ""):
            # super() / self resolution inside a nested function follows the enclosing method
            pass
        frame.qual = fr.qual
        frame.self_name = params[0] if params else None
        for i, p in enumerate(params):
            if p in env:
                continue
            if p in kwargs:
                env[p] = kwargs.pop(p)
            elif i >= dstart:
                env[p] = frame.ev(defaults[i - dstart])
            else:
                raise AnalysisError(f"npsym: missing argument `{p}` of {fr.qual}")
        for p, d in zip(a.kwonlyargs, a.kw_defaults):
            if p.arg in kwargs:
                env[p.arg] = kwargs.pop(p.arg)
            elif d is not None:
                env[p.arg] = frame.ev(d)
            else:
                raise AnalysisError(f"npsym: missing keyword `{p.arg}` of {fr.qual}")
        if a.kwarg is not None:
            env[a.kwarg.arg] = kwargs
        elif kwargs:
            raise AnalysisError(f"npsym: unexpected keywords {sorted(kwargs)} for {fr.qual}")
        try:
            frame.block(node.body)
        except _Return as r:
            return r.v
        return None


class _Frame:
    def __init__(self, interp: NpSym, mod, env):
        self.I, self.mod, self.env = interp, mod, env
        self.np, self.sp = interp.np, interp.sp

    # ------------------------------------------------------------------ statements
    def block(self, stmts):
        for st in stmts:
            self.stmt(st)

    def stmt(self, st):
        try:
            return self._stmt(st)
        except (AnalysisError, _Return, _Break, _Continue, Raised):
            raise
        except RecursionError:
            raise AnalysisError("npsym: recursion limit")
        except Exception as e:
            raise AnalysisError(f"npsym: {self.mod.rel}:{getattr(st, 'lineno', '?')} `{norm(st)[:90]}`: {type(e).__name__}: {str(e)[:160]}")

    def _stmt(self, st):
        I = self.I
        I.steps += 1
        if I.steps > I.max_steps:
            raise AnalysisError("npsym: step budget exhausted")
        if isinstance(st, ast.Expr):
            if isinstance(st.value, ast.Constant):
                return
            self.ev(st.value)
        elif isinstance(st, ast.Assign):
            v = self.ev(st.value)
            for t in st.targets:
                self.assign(t, v)
        elif isinstance(st, ast.AnnAssign):
            if st.value is not None:
                self.assign(st.target, self.ev(st.value))
        elif isinstance(st, ast.AugAssign):
            self.augassign(st)
        elif isinstance(st, ast.If):
            self.block(st.body if self.truth(self.ev(st.test), st.test) else st.orelse)
        elif isinstance(st, ast.For):
            it = self.ev(st.iter)
            broke = False
            for v in self.iterate(it, st.iter):
                self.assign(st.target, v)
                try:
                    self.block(st.body)
                except _Break:
                    broke = True
                    break
                except _Continue:
                    continue
            if not broke:
                self.block(st.orelse)
        elif isinstance(st, ast.While):
            n = 0
            while self.truth(self.ev(st.test), st.test):
                n += 1
                if n > 10000:
                    raise AnalysisError("npsym: while loop does not terminate on the symbolic instance")
                try:
                    self.block(st.body)
                except _Break:
                    break
                except _Continue:
                    continue
        elif isinstance(st, ast.Return):
            raise _Return(self.ev(st.value) if st.value is not None else None)
        elif isinstance(st, ast.Pass):
            return
        elif isinstance(st, ast.Break):
            raise _Break()
        elif isinstance(st, ast.Continue):
            raise _Continue()
        elif isinstance(st, ast.Delete):
            for t in st.targets:
                if isinstance(t, ast.Name):
                    self.env.pop(t.id, None)
        elif isinstance(st, ast.With):
            for it in st.items:
                if it.optional_vars is not None:
                    self.assign(it.optional_vars, self.ev(it.context_expr))
            self.block(st.body)
            for it in st.items:
                if it.optional_vars is not None and isinstance(it.optional_vars, ast.Name):
                    v = self.env.get(it.optional_vars.id)
                    if isinstance(v, Model) and hasattr(v, "close"):
                        v.close(self)
        elif isinstance(st, ast.Raise):
            raise Raised(norm(st)[:200])
        elif isinstance(st, ast.Assert):
            return
        elif isinstance(st, (ast.Import, ast.ImportFrom)):
            for al in st.names:
                nm = al.asname or al.name
                if isinstance(st, ast.ImportFrom):
                    target = self.I._resolve_import(self.mod, st)
                    if target is not None:
                        self.env[nm] = self.I.global_value(target, al.name)
                    else:
                        self.env[nm] = TorchMarker(f"{st.module}.{al.name}")
                else:
                    self.env[nm] = TORCH if al.name == "torch" else TorchMarker(al.name)
        elif isinstance(st, (ast.FunctionDef,)):
            fr_ = FuncRef(self.mod, st, st.name)
            fr_.closure = self
            self.env[st.name] = fr_
        elif isinstance(st, ast.Try):
            self.block(st.body)
            self.block(st.orelse)
            self.block(st.finalbody)
        else:
            raise AnalysisError(f"npsym: statement {norm(st)[:80]}")

    def iterate(self, it, node):
        np = self.np
        if isinstance(it, (list, tuple, range)):
            return list(it)
        if isinstance(it, dict):
            return list(it.keys())
        if isinstance(it, np.ndarray):
            return [it[i] for i in range(it.shape[0])]
        if hasattr(it, "__iter__") and not isinstance(it, str):
            return list(it)
        raise AnalysisError(f"npsym: iteration over {norm(node)[:60]}")

    def truth(self, v, node=None):
        np, sp = self.np, self.sp
        if isinstance(v, (bool, int, str, type(None), list, tuple, dict)):
            return bool(v)
        if isinstance(v, np.ndarray):
            if v.size == 1:
                return self.truth(v.reshape(-1)[0], node)
            raise AnalysisError(f"npsym: truth value of an array in `{norm(node)[:60] if node is not None else ''}`")
        if isinstance(v, (np.bool_, np.integer)):
            return bool(v)
        if v is sp.true or v is sp.false:
            return bool(v)
        if isinstance(v, sp.Basic):
            if v.is_number:
                return bool(v != 0)
            raise AnalysisError(f"npsym: branch on a symbolic value `{v}` in `{norm(node)[:60] if node is not None else ''}`")
        return bool(v)

    def assign(self, t, v):
        np = self.np
        if isinstance(t, ast.Name):
            self.env[t.id] = v
        elif isinstance(t, (ast.Tuple, ast.List)):
            vs = self.iterate(v, t)
            stars = [i for i, e in enumerate(t.elts) if isinstance(e, ast.Starred)]
            if len(stars) == 1 and len(vs) >= len(t.elts) - 1:
                k = stars[0]
                tail = len(t.elts) - 1 - k
                mid = list(vs[k:len(vs) - tail])
                for e, x in zip(t.elts[:k], vs[:k]):
                    self.assign(e, x)
                self.assign(t.elts[k].value, mid)
                for e, x in zip(t.elts[k + 1:], vs[len(vs) - tail:] if tail else []):
                    self.assign(e, x)
                return
            if stars:
                raise AnalysisError("npsym: starred assignment")
            if len(vs) != len(t.elts):
                raise AnalysisError(f"npsym: cannot unpack {len(vs)} values into {len(t.elts)} targets ({norm(t)[:50]})")
            for e, x in zip(t.elts, vs):
                self.assign(e, x)
        elif isinstance(t, ast.Subscript):
            base = self.ev(t.value)
            if isinstance(base, np.ndarray):
                idx = self.index(t.slice)
                val = self.I._obj(v) if isinstance(v, np.ndarray) else v
                if base.dtype != object and isinstance(val, np.ndarray) and val.dtype == object:
                    raise AnalysisError(f"npsym: symbolic store into an integer tensor `{norm(t)[:50]}`")
                if base.dtype != object and not isinstance(val, np.ndarray) and not isinstance(val, (int, bool, np.integer, np.bool_)):
                    try:
                        val = int(val)
                    except Exception:
                        raise AnalysisError(f"npsym: symbolic store into an integer tensor `{norm(t)[:50]}`")
                base[idx] = val
            elif isinstance(base, (list, dict)):
                base[self.pyindex(t.slice)] = v
            elif isinstance(base, Model):
                base.np_setitem(self, self._model_key(t.slice), v)
            else:
                raise AnalysisError(f"npsym: store into `{norm(t)[:50]}`")
        elif isinstance(t, ast.Attribute):
            obj = self.ev(t.value)
            if isinstance(obj, types.SimpleNamespace):
                setattr(obj, t.attr, v)
            else:
                raise AnalysisError(f"npsym: attribute store `{norm(t)[:50]}`")
        else:
            raise AnalysisError(f"npsym: assignment target `{norm(t)[:50]}`")

    def binop(self, op, a, b, node=None):
        np = self.np
        if isinstance(op, (ast.BitAnd, ast.BitOr, ast.BitXor)):
            try:
                return a & b if isinstance(op, ast.BitAnd) else a | b if isinstance(op, ast.BitOr) else a ^ b
            except Exception as e:
                raise AnalysisError(f"npsym: `{norm(node)[:70] if node is not None else op}`: {type(e).__name__}: {e}")
        isb = lambda v: (isinstance(v, np.ndarray) and v.dtype == bool) or isinstance(v, (bool, np.bool_))
        if isb(a) and isb(b):
            if isinstance(op, ast.Mult):
                return np.logical_and(a, b)          # torch keeps bool * bool boolean
            if isinstance(op, ast.Add):
                return np.logical_or(a, b)
        a, b = self.I._obj(a), self.I._obj(b)
        try:
            if isinstance(op, ast.Add):
                return a + b
            if isinstance(op, ast.Sub):
                return a - b
            if isinstance(op, ast.Mult):
                return a * b
            if isinstance(op, ast.Div):
                if isinstance(a, (int, np.integer)) and isinstance(b, (int, np.integer)):
                    return self.sp.Rational(int(a), int(b))
                if isinstance(a, np.ndarray) and a.dtype != object:
                    a = a.astype(object)
                if isinstance(b, np.ndarray) and b.dtype != object:
                    b = np.vectorize(lambda x: self.sp.Integer(int(x)), otypes=[object])(b)
                if isinstance(b, (int, np.integer)):
                    b = self.sp.Integer(int(b))
                return a / b
            if isinstance(op, ast.FloorDiv):
                return a // b
            if isinstance(op, ast.Mod):
                return a % b
            if isinstance(op, ast.Pow):
                return a ** b
            if isinstance(op, ast.BitAnd):
                return a & b
            if isinstance(op, ast.BitOr):
                return a | b
            if isinstance(op, ast.BitXor):
                return a ^ b
            if isinstance(op, ast.MatMult):
                return np.matmul(a, b)
        except AnalysisError:
            raise
        except Exception as e:
            raise AnalysisError(f"npsym: `{norm(node)[:70] if node is not None else op}`: {type(e).__name__}: {e}")
        raise AnalysisError(f"npsym: operator {type(op).__name__}")

    def augassign(self, st):
        np = self.np
        t = st.target
        v = self.ev(st.value)
        if isinstance(t, ast.Name):
            cur = self.env[t.id] if t.id in self.env else self.ev(t)
            if isinstance(cur, np.ndarray):
                # in place, through aliases (torch semantics)
                new = self.binop(st.op, cur, v, st)
                if isinstance(new, np.ndarray) and new.shape == cur.shape and (cur.dtype == object or new.dtype == cur.dtype):
                    cur[...] = new
                else:
                    raise AnalysisError(f"npsym: in-place `{norm(st)[:60]}` changes shape or dtype")
            elif isinstance(cur, list) and isinstance(st.op, ast.Add):
                cur.extend(v)
            else:
                self.env[t.id] = self.binop(st.op, cur, v, st)
        elif isinstance(t, ast.Subscript):
            base = self.ev(t.value)
            if isinstance(base, np.ndarray):
                idx = self.index(t.slice)
                base[idx] = self.binop(st.op, base[idx], v, st)
            elif isinstance(base, (list, dict)):
                k = self.pyindex(t.slice)
                base[k] = self.binop(st.op, base[k], v, st)
            else:
                raise AnalysisError(f"npsym: augmented store `{norm(t)[:50]}`")
        elif isinstance(t, ast.Attribute):
            obj = self.ev(t.value)
            cur = getattr(obj, t.attr)
            if isinstance(cur, np.ndarray):
                cur[...] = self.binop(st.op, cur, v, st)
            else:
                setattr(obj, t.attr, self.binop(st.op, cur, v, st))
        else:
            raise AnalysisError(f"npsym: augmented target `{norm(t)[:50]}`")

    # ------------------------------------------------------------------ indices
    def pyindex(self, sl):
        v = self.ev(sl)
        if isinstance(v, self.np.ndarray) and v.size == 1:
            return int(v.reshape(-1)[0])
        if isinstance(v, self.sp.Integer):
            return int(v)
        return v

    def index(self, sl):
        np = self.np
        elts = sl.elts if isinstance(sl, ast.Tuple) else [sl]
        out = []
        for e in elts:
            if isinstance(e, ast.Slice):
                lo = self._int(self.ev(e.lower)) if e.lower is not None else None
                up = self._int(self.ev(e.upper)) if e.upper is not None else None
                stp = self._int(self.ev(e.step)) if e.step is not None else None
                out.append(slice(lo, up, stp))
                continue
            if isinstance(e, ast.Starred):
                raise AnalysisError("npsym: starred index")
            v = self.ev(e)
            if v is Ellipsis or v is None or isinstance(v, slice):
                out.append(v)
            elif isinstance(v, np.ndarray):
                if v.dtype == object:
                    raise AnalysisError(f"npsym: symbolic index `{norm(e)[:40]}`")
                out.append(v)
            elif isinstance(v, (list, tuple)):
                out.append(np.array(v, dtype=np.int64) if not (v and isinstance(v[0], bool)) else np.array(v, dtype=bool))
            elif isinstance(v, (bool, np.bool_)):
                out.append(bool(v))
            else:
                out.append(self._int(v))
        return tuple(out) if len(out) != 1 or isinstance(sl, ast.Tuple) else out[0]

    def _model_key(self, sl):
        """subscript of a stand-in object: a string key, or an array index"""
        if isinstance(sl, (ast.Tuple, ast.Slice)):
            return self.index(sl)
        v = self.ev(sl)
        if isinstance(v, str) or v is Ellipsis:
            return v
        return self.index(sl)

    def _int(self, v):
        np = self.np
        if isinstance(v, (int, np.integer)) and not isinstance(v, bool):
            return int(v)
        if isinstance(v, self.sp.Basic) and v.is_Integer:
            return int(v)
        if isinstance(v, np.ndarray) and v.size == 1 and v.dtype != object:
            return int(v.reshape(-1)[0])
        raise AnalysisError(f"npsym: integer expected, got {type(v).__name__} {v!r}"[:120])

    # ------------------------------------------------------------------ expressions
    def ev(self, e):
        np, sp, I = self.np, self.sp, self.I
        if isinstance(e, ast.Constant):
            if e.value is Ellipsis:
                return Ellipsis
            return I.num(e.value)
        if isinstance(e, ast.Name):
            if e.id in self.env:
                return self.env[e.id]
            c_ = getattr(self, "closure", None)
            while c_ is not None:
                if e.id in c_.env:
                    return c_.env[e.id]
                c_ = getattr(c_, "closure", None)
            if e.id in ("True", "False", "None"):
                return {"True": True, "False": False, "None": None}[e.id]
            if e.id in BUILTINS:
                return BUILTINS[e.id]
            if e.id == "torch":
                return TORCH
            if e.id == "__file__":
                return "<file>"
            return I.global_value(self.mod, e.id)
        if isinstance(e, ast.Attribute):
            return self.attribute(e)
        if isinstance(e, ast.Subscript):
            base = self.ev(e.value)
            if isinstance(base, np.ndarray):
                r = base[self.index(e.slice)]
                return r
            if isinstance(base, (list, tuple, str)):
                if isinstance(e.slice, ast.Slice):
                    idx = self.index(e.slice)
                    return base[idx]
                return base[self._int(self.pyindex(e.slice))]
            if isinstance(base, dict):
                k = self.pyindex(e.slice)
                if k not in base:
                    raise AnalysisError(f"npsym: key {k!r} missing in `{norm(e.value)[:40]}`")
                return base[k]
            if isinstance(base, range):
                return base[self._int(self.pyindex(e.slice))]
            if isinstance(base, Model):
                return base.np_getitem(self, self._model_key(e.slice))
            raise AnalysisError(f"npsym: subscript of {type(base).__name__} in `{norm(e)[:60]}`")
        if isinstance(e, ast.UnaryOp):
            v = self.ev(e.operand)
            if isinstance(e.op, ast.USub):
                return -I._obj(v)
            if isinstance(e.op, ast.UAdd):
                return v
            if isinstance(e.op, ast.Not):
                return not self.truth(v, e)
            if isinstance(e.op, ast.Invert):
                if isinstance(v, np.ndarray) and v.dtype == bool:
                    return ~v
                if isinstance(v, (bool, np.bool_)):
                    return not v
                return ~v
        if isinstance(e, ast.BinOp):
            return self.binop(e.op, self.ev(e.left), self.ev(e.right), e)
        if isinstance(e, ast.BoolOp):
            if isinstance(e.op, ast.And):
                v = True
                for x in e.values:
                    v = self.ev(x)
                    if not self.truth(v, x):
                        return v
                return v
            v = False
            for x in e.values:
                v = self.ev(x)
                if self.truth(v, x):
                    return v
            return v
        if isinstance(e, ast.Compare):
            return self.compare(e)
        if isinstance(e, ast.IfExp):
            return self.ev(e.body if self.truth(self.ev(e.test), e.test) else e.orelse)
        if isinstance(e, ast.Tuple):
            return tuple(self._elts(e.elts))
        if isinstance(e, ast.List):
            return list(self._elts(e.elts))
        if isinstance(e, ast.Dict):
            return {self.ev(k): self.ev(v) for k, v in zip(e.keys, e.values)}
        if isinstance(e, ast.Set):
            return set(self._elts(e.elts))
        if isinstance(e, (ast.ListComp, ast.GeneratorExp, ast.SetComp)):
            out = []
            self._comp(e.generators, 0, lambda: out.append(self.ev(e.elt)))
            return set(out) if isinstance(e, ast.SetComp) else out
        if isinstance(e, ast.DictComp):
            out = {}
            self._comp(e.generators, 0, lambda: out.__setitem__(self.ev(e.key), self.ev(e.value)))
            return out
        if isinstance(e, ast.JoinedStr):
            parts = []
            for v in e.values:
                if isinstance(v, ast.Constant):
                    parts.append(str(v.value))
                    continue
                try:
                    x = self.ev(v.value)
                except AnalysisError:
                    return "<f-string>"
                if isinstance(x, sp.Basic) and x.is_Integer:
                    x = int(x)
                if isinstance(x, np.ndarray) and x.size == 1 and x.dtype != object:
                    x = x.reshape(-1)[0].item()
                if isinstance(x, np.ndarray) and x.size == 1:
                    x = x.reshape(-1)[0]
                if isinstance(x, sp.Basic) and x.is_Integer:
                    x = int(x)
                elif isinstance(x, sp.Basic) and x.is_number and x.is_real:
                    x = float(x)
                if isinstance(x, (int, str, bool, float)) and v.conversion == -1:
                    spec = ""
                    if v.format_spec is not None:
                        spec = self.ev(v.format_spec)
                    try:
                        parts.append(format(x, spec))
                    except (ValueError, TypeError):
                        parts.append("<?>")
                else:
                    parts.append("<?>")
            return "".join(parts)
        if isinstance(e, ast.Call):
            return self.call(e)
        if isinstance(e, ast.Slice):
            return self.index(e)
        if isinstance(e, ast.Lambda):
            fn = ast.FunctionDef(name="<lambda>", args=e.args, body=[ast.Return(value=e.body)], decorator_list=[], lineno=e.lineno, col_offset=0)
            fr_ = FuncRef(self.mod, fn, "<lambda>")
            fr_.closure = self
            return fr_
        raise AnalysisError(f"npsym: expression {norm(e)[:80]}")

    def _elts(self, elts):
        out = []
        for x in elts:
            if isinstance(x, ast.Starred):
                out.extend(self.iterate(self.ev(x.value), x))
            else:
                out.append(self.ev(x))
        return out

    def _comp(self, gens, k, emit):
        if k == len(gens):
            emit()
            return
        g = gens[k]
        saved = dict(self.env)
        for v in self.iterate(self.ev(g.iter), g.iter):
            self.assign(g.target, v)
            if all(self.truth(self.ev(c), c) for c in g.ifs):
                self._comp(gens, k + 1, emit)
        # comprehension variables do not leak
        for nm in list(self.env):
            if nm not in saved:
                del self.env[nm]
            else:
                self.env[nm] = saved[nm]

    def compare(self, e):
        np, sp = self.np, self.sp
        left = self.ev(e.left)
        res = True
        for op, rn in zip(e.ops, e.comparators):
            right = self.ev(rn)
            r = self._cmp(op, left, right, e)
            if isinstance(r, np.ndarray):
                if len(e.ops) > 1:
                    raise AnalysisError("npsym: chained array comparison")
                return r
            if not r:
                return False
            left = right
        return res

    def _cmp(self, op, a, b, node):
        np, sp = self.np, self.sp
        if isinstance(op, ast.Is):
            return a is b
        if isinstance(op, ast.IsNot):
            return a is not b
        if isinstance(op, ast.In):
            return a in b
        if isinstance(op, ast.NotIn):
            return a not in b
        f = {ast.Eq: lambda x, y: x == y, ast.NotEq: lambda x, y: x != y, ast.Lt: lambda x, y: x < y, ast.LtE: lambda x, y: x <= y,
             ast.Gt: lambda x, y: x > y, ast.GtE: lambda x, y: x >= y}[type(op)]
        if isinstance(a, np.ndarray) or isinstance(b, np.ndarray):
            a2, b2 = self.I._obj(a), self.I._obj(b)
            if (isinstance(a2, np.ndarray) and a2.dtype == object) or (isinstance(b2, np.ndarray) and b2.dtype == object):
                def g(x, y):
                    r = f(sp.sympify(x), sp.sympify(y))
                    if r in (True, False, sp.true, sp.false):
                        return bool(r)
                    if self.I.symbolic_compare is not None:
                        return bool(self.I.symbolic_compare(node))
                    raise AnalysisError(f"npsym: comparison of symbolic entries in `{norm(node)[:60]}`")
                return np.vectorize(g, otypes=[bool])(a2, b2)
            return f(a2, b2)
        if isinstance(a, (str, type(None), TorchMarker)) or isinstance(b, (str, type(None), TorchMarker)):
            if isinstance(op, (ast.Eq, ast.NotEq)):
                same = (a == b) if not isinstance(a, TorchMarker) and not isinstance(b, TorchMarker) else (getattr(a, "name", a) == getattr(b, "name", b))
                return same if isinstance(op, ast.Eq) else not same
            raise AnalysisError(f"npsym: ordering of non-numbers in `{norm(node)[:60]}`")
        r = f(a, b)
        if r in (True, False) or isinstance(r, (bool, np.bool_)):
            return bool(r)
        if r is sp.true or r is sp.false:
            return bool(r)
        raise AnalysisError(f"npsym: comparison of symbolic values in `{norm(node)[:60]}`")

    def attribute(self, e):
        np = self.np
        # super().method
        if isinstance(e.value, ast.Call) and isinstance(e.value.func, ast.Name) and e.value.func.id == "super" and "super" not in self.I.stubs and "super" not in self.env:
            q = getattr(self, "qual", None) or ""
            if "." not in q or getattr(self, "self_name", None) not in self.env:
                raise AnalysisError("npsym: super() outside a method")
            return self.I.super_method(self.mod, q.rsplit(".", 1)[0], e.attr, self.env[self.self_name])
        # torch.<x>
        base = self.ev(e.value)
        a = e.attr
        if isinstance(base, TorchMarker):
            full = f"{base.name}.{a}"
            if full == "math.e":
                return self.sp.E
            if full == "math.pi":
                return self.sp.pi
            if full == "math.inf" or full == "torch.inf":
                return self.sp.oo
            return TorchMarker(full)
        if isinstance(base, ClassRef):
            q_ = f"{base.node.name}.{a}"
            if q_ in base.mod.functions:
                fn_ = base.mod.functions[q_]
                if any(isinstance(d, ast.Name) and d.id == "classmethod" for d in fn_.decorator_list):
                    fr_ = FuncRef(base.mod, fn_, q_)
                    return lambda frame, *a_, **k_: self.I._invoke(fr_, [base] + list(a_), dict(k_))
                return FuncRef(base.mod, fn_, q_)
            for st_ in base.node.body:
                if isinstance(st_, ast.Assign) and len(st_.targets) == 1 and isinstance(st_.targets[0], ast.Name) and st_.targets[0].id == a:
                    return _Frame(self.I, base.mod, {}).ev(st_.value)
            if a == "apply" and f"{base.node.name}.forward" in base.mod.functions:
                # torch.autograd.Function: apply(*args) evaluates forward(ctx, *args); ctx only records what backward will need
                fr_ = FuncRef(base.mod, base.mod.functions[f"{base.node.name}.forward"], f"{base.node.name}.forward")
                ctx_ = types.SimpleNamespace(save_for_backward=lambda frame, *a_, **k_: None, mark_non_differentiable=lambda frame, *a_, **k_: None,
                                             set_materialize_grads=lambda frame, *a_, **k_: None, needs_input_grad=(False,) * 64)
                return lambda frame, *a_, **k_: self.I._invoke(fr_, [ctx_] + list(a_), dict(k_))
            raise AnalysisError(f"npsym: attribute `{a}` of class {base.node.name}")
        if isinstance(base, np.ndarray):
            if a == "shape":
                return tuple(int(x) for x in base.shape)
            if a in ("dtype",):
                return TorchMarker("torch.long" if base.dtype.kind in "iu" else "torch.bool" if base.dtype == bool else "torch.float64")
            if a == "device":
                return TorchMarker("device")
            if a == "T" or a == "mT":
                return np.swapaxes(base, -1, -2)
            if a == "ndim":
                return base.ndim
            if a in ("data", "real"):
                return base
            if a in ("requires_grad", "is_cuda"):
                return False
            if a == "grad":
                return None
            return _BoundMethod(base, a)
        if isinstance(base, Instance):
            if a in vars(base):
                return getattr(base, a)
            if a == "__class__":
                return types.SimpleNamespace(__name__=base._npsym_class[1])
            return self.I.class_attribute(base._npsym_class[0], base._npsym_class[1], a, base)
        if isinstance(base, Model):
            if hasattr(base, a):
                return getattr(base, a)
            raise AnalysisError(f"npsym: the stand-in {type(base).__name__} has no attribute `{a}` (in `{norm(e)[:50]}`)")
        if isinstance(base, types.SimpleNamespace):
            if hasattr(base, a):
                return getattr(base, a)
            raise AnalysisError(f"npsym: attribute `{a}` of the symbolic object `{norm(e.value)[:30]}` was not provided by the rule")
        if base is BUILTINS.get("dict") and a == "fromkeys":
            return lambda fr, keys, v=None: dict.fromkeys(list(fr.iterate(keys, None)), v)
        if isinstance(base, _ValuesIndices) and a in ("values", "indices"):
            return getattr(base, a)
        if isinstance(base, (list, dict, str, tuple, set)):
            return _BoundMethod(base, a)
        if isinstance(base, self.sp.Basic) or isinstance(base, (int, float)):
            return _BoundMethod(base, a)
        if isinstance(base, (np.integer, np.bool_)):
            return _BoundMethod(int(base), a)
        raise AnalysisError(f"npsym: attribute `{norm(e)[:50]}`")

    # ------------------------------------------------------------------ calls
    def call(self, e):
        I = self.I
        fn = e.func
        # stubs by bare name or dotted text
        fname = norm(fn)
        args = None
        if fname in I.stubs or (isinstance(fn, ast.Name) and fn.id in I.stubs):
            args = self._elts(e.args)
            kwargs = self._kwargs(e)
            return I.stubs.get(fname, I.stubs.get(getattr(fn, "id", None)))(*args, **kwargs)
        f = self.ev(fn)
        args = self._elts(e.args)
        kwargs = self._kwargs(e)
        if isinstance(f, FuncRef):
            if f.qual in I.stubs:
                return I.stubs[f.qual](*args, **kwargs)
            return I._invoke(f, args, kwargs)
        if isinstance(f, ClassRef) and getattr(I, "class_hook", None) is not None:
            return I.class_hook(f, args, kwargs)
        if isinstance(f, ClassRef):
            if args or kwargs or any(isinstance(st, ast.FunctionDef) and st.name == "__init__" for st in f.node.body):
                record = any((b.id if isinstance(b, ast.Name) else b.attr if isinstance(b, ast.Attribute) else "") == "NamedTuple" for b in f.node.bases) or \
                    any((d.id if isinstance(d, ast.Name) else d.attr if isinstance(d, ast.Attribute) else getattr(getattr(d, "func", None), "id", "")) == "dataclass"
                        for d in f.node.decorator_list)
                if getattr(I, "construct_instances", False) or record:
                    return I.construct(f, args, kwargs)
                raise AnalysisError(f"npsym: construction of `{f.node.name}` with arguments / an __init__")
            ns = types.SimpleNamespace()
            fr2 = _Frame(I, f.mod, {})
            for st in f.node.body:
                if isinstance(st, ast.AnnAssign) and isinstance(st.target, ast.Name) and st.value is not None:
                    setattr(ns, st.target.id, fr2.ev(st.value))
                elif isinstance(st, ast.Assign) and len(st.targets) == 1 and isinstance(st.targets[0], ast.Name):
                    setattr(ns, st.targets[0].id, fr2.ev(st.value))
            return ns
        if isinstance(f, TorchMarker):
            return self.torch_call(f.name, args, kwargs, e)
        if isinstance(f, _BoundMethod):
            return self.method_call(f.obj, f.name, args, kwargs, e)
        if callable(f):
            return f(self, *args, **kwargs)
        raise AnalysisError(f"npsym: call of `{fname[:50]}`")

    def apply(self, f, args):
        """call an interpreted value (builtin stand-in, repository function) with already evaluated arguments"""
        if isinstance(f, FuncRef):
            return self.I._invoke(f, list(args), {})
        if callable(f):
            return f(self, *args)
        raise AnalysisError("npsym: call of a non-callable")

    def _kwargs(self, e):
        out = {}
        for k in e.keywords:
            if k.arg is None:
                out.update(self.ev(k.value))
            else:
                out[k.arg] = self.ev(k.value)
        return out

    def _shape(self, args):
        if len(args) == 1 and isinstance(args[0], (tuple, list)):
            args = args[0]
        return tuple(self._int(a) for a in args)

    def _kind(self, kwargs, default=None):
        dt = kwargs.get("dtype")
        if isinstance(dt, TorchMarker):
            if dt.name in INT_DTYPES:
                return "int"
            if dt.name in BOOL_DTYPES:
                return "bool"
            return "obj"
        return default

    def _new(self, shape, fill, kind):
        np, sp = self.np, self.sp
        if kind == "int":
            return np.full(shape, int(fill), dtype=np.int64)
        if kind == "bool":
            return np.full(shape, bool(fill), dtype=bool)
        return np.full(shape, sp.Integer(fill), dtype=object)

    def _axis(self, args, kwargs, pos=0):
        ax = kwargs.get("dim", kwargs.get("axis", args[pos] if len(args) > pos else None))
        if isinstance(ax, list):
            ax = tuple(ax)
        if isinstance(ax, tuple):
            return tuple(self._int(a) for a in ax)
        return None if ax is None else self._int(ax)

    def _elementwise(self, f, x):
        np = self.np
        if isinstance(x, np.ndarray):
            return np.vectorize(lambda t: f(self.sp.sympify(t)), otypes=[object])(x)
        return f(self.sp.sympify(x))

    def torch_call(self, name, args, kwargs, e):
        np, sp, I = self.np, self.sp, self.I
        n = name.split(".", 1)[1] if "." in name else name
        if name.startswith("os.path."):
            return "<path>"          # path arithmetic has no bearing on what is computed
        if name.startswith("math."):
            fn = {"sqrt": sp.sqrt, "exp": sp.exp, "log": sp.log, "cos": sp.cos, "sin": sp.sin, "fabs": sp.Abs}.get(n)
            if fn:
                return fn(sp.sympify(args[0]))
        if n in ("zeros", "empty", "ones"):
            shape = self._shape(args)
            return self._new(shape, 1 if n == "ones" else 0, self._kind(kwargs, "obj"))
        if n in ("zeros_like", "empty_like", "ones_like"):
            x = args[0]
            kind = self._kind(kwargs, "int" if x.dtype.kind in "iu" else "bool" if x.dtype == bool else "obj")
            return self._new(x.shape, 1 if n == "ones_like" else 0, kind)
        if n == "full":
            return np.full(self._shape(args[:1]), args[1], dtype=object)
        if n == "full_like":
            return np.full(args[0].shape, args[1], dtype=object)
        if n in ("tensor", "as_tensor"):
            x = args[0]
            if isinstance(x, np.ndarray):
                return x.copy()
            return I._from_literal(self._plain(x), self._kind(kwargs))
        if n == "arange":
            try:
                vals = [self._int(a) for a in args]
            except AnalysisError:
                # floating-point arange (start, stop, step) with exact rational arguments: start + k*step for k < ceil((stop - start) / step)
                q = [sp.sympify(a) for a in args]
                if len(q) != 3 or not all(t.is_number for t in q) or q[2] == 0:
                    raise
                cnt = max(0, int(sp.ceiling((q[1] - q[0]) / q[2])))
                out_ = np.empty(cnt, dtype=object)
                for k_ in range(cnt):
                    out_[k_] = q[0] + k_ * q[2]
                return out_
            return np.arange(*vals, dtype=np.int64)
        if n == "eye":
            k = self._kind(kwargs, "obj")
            m = np.eye(self._int(args[0]), dtype=np.int64)
            return m.astype(bool) if k == "bool" else m if k == "int" else np.vectorize(sp.Integer, otypes=[object])(m)
        if n in ("tril_indices", "triu_indices"):
            r, c = self._int(args[0]), self._int(args[1])
            off = self._int(kwargs.get("offset", args[2] if len(args) > 2 else 0))
            fn = np.tril_indices if n == "tril_indices" else np.triu_indices
            i0, i1 = fn(r, off, c)
            return np.stack([i0, i1]).astype(np.int64)
        if n in ("stack", "cat", "concatenate", "concat", "hstack", "vstack"):
            seq = [I._obj(x) for x in args[0]]
            ax = self._axis(args, kwargs, 1) or 0
            if any(x.dtype == object for x in seq):
                seq = [x.astype(object) for x in seq]
            return np.stack(seq, axis=ax) if n == "stack" else np.concatenate(seq, axis=ax)
        if n == "sum":
            x = I._obj(args[0])
            ax = self._axis(args, kwargs, 1)
            return I.osum(x, axis=ax, keepdims=bool(kwargs.get("keepdim", False)))
        if n in ("sqrt", "exp", "log", "abs", "square", "cos", "sin", "sign", "rsqrt", "sigmoid", "tanh", "expm1", "log1p"):
            fn = {"sqrt": sp.sqrt, "exp": sp.exp, "log": sp.log, "abs": sp.Abs, "square": lambda t: t ** 2, "cos": sp.cos, "sin": sp.sin, "sign": sp.sign,
                  "rsqrt": lambda t: 1 / sp.sqrt(t), "sigmoid": lambda t: 1 / (1 + sp.exp(-t)), "tanh": sp.tanh, "expm1": lambda t: sp.exp(t) - 1,
                  "log1p": lambda t: sp.log(1 + t)}[n]
            return self._elementwise(fn, args[0])
        if n == "pow":
            return self.binop(ast.Pow(), args[0], args[1], e)
        if n == "where":
            if len(args) == 3:
                c = args[0]
                if not (isinstance(c, np.ndarray) and c.dtype == bool) and not isinstance(c, (bool, np.bool_)):
                    raise AnalysisError("npsym: torch.where on a symbolic condition")
                a, b = I._obj(args[1]), I._obj(args[2])
                a = a if isinstance(a, np.ndarray) else np.array(a, dtype=object)
                b = b if isinstance(b, np.ndarray) else np.array(b, dtype=object)
                return np.where(c, a.astype(object), b.astype(object))
            return tuple(np.nonzero(args[0]))
        if n == "norm" or n == "linalg.norm":
            x = args[0]
            ax = self._axis(args, kwargs, 1)
            r = np.sum(x * x, axis=ax, keepdims=bool(kwargs.get("keepdim", False)))
            return self._elementwise(sp.sqrt, r)
        if n == "einsum":
            ops = [I._obj(x) for x in args[1:]]
            if len(ops) == 1 and isinstance(ops[0], (list, tuple)):
                ops = list(ops[0])
            return np.einsum(args[0], *[o.astype(object) for o in ops])
        if n in ("matmul", "bmm", "mm"):
            return np.matmul(args[0], args[1])
        if n in ("linalg.eigh", "symeig", "linalg.eigvalsh"):
            vals, vecs = self._exact_eigh(I._obj(args[0]), e)
            return vals if n == "linalg.eigvalsh" else _ValuesIndices((vals, vecs))
        if n in ("linalg.vecdot", "vecdot", "dot", "inner"):
            a_, b_ = I._obj(args[0]), I._obj(args[1])
            return I.osum(a_ * b_, axis=kwargs.get("dim", -1))
        if n in ("linalg.cross", "cross"):
            a, b = np.broadcast_arrays(I._obj(args[0]), I._obj(args[1]))
            ax = self._axis(args, kwargs, 2)
            ax = -1 if ax is None else ax
            a, b = np.moveaxis(a, ax, -1), np.moveaxis(b, ax, -1)
            out = np.empty(a.shape, dtype=object)
            out[..., 0] = a[..., 1] * b[..., 2] - a[..., 2] * b[..., 1]
            out[..., 1] = a[..., 2] * b[..., 0] - a[..., 0] * b[..., 2]
            out[..., 2] = a[..., 0] * b[..., 1] - a[..., 1] * b[..., 0]
            return np.moveaxis(out, -1, ax)
        if n in ("linalg.pinv", "linalg.inv", "inverse", "pinverse"):
            x = args[0]
            out = np.empty(x.shape, dtype=object)
            for idx in np.ndindex(*x.shape[:-2]):
                M = sp.Matrix(x[idx].tolist())
                if M.rank() == M.shape[0]:
                    Mi = M.inv()
                elif n.endswith("pinv") or n == "pinverse":
                    Mi = M.pinv()
                else:
                    raise AnalysisError("npsym: inverse of a singular matrix")
                out[idx] = np.array(Mi.tolist(), dtype=object)
            return out
        if n == "linalg.solve":
            A, b = args[0], args[1]
            out = np.empty(np.broadcast_shapes(A.shape[:-2], b.shape[:-2]) + b.shape[-2:], dtype=object) if b.ndim == A.ndim else None
            if out is None:
                raise AnalysisError("npsym: linalg.solve with a vector right-hand side")
            for idx in np.ndindex(*A.shape[:-2]):
                out[idx] = np.array((sp.Matrix(A[idx].tolist()).LUsolve(sp.Matrix(b[idx].tolist()))).tolist(), dtype=object)
            return out
        if n == "is_tensor":
            return isinstance(args[0], np.ndarray)
        if n in ("clone", "detach"):
            return args[0].copy()
        if n in ("triu", "tril"):
            return self.method_call(args[0], n, args[1:], kwargs, e)
        if n in ("transpose", "swapaxes"):
            return np.swapaxes(args[0], self._int(args[1]), self._int(args[2]))
        if n in ("diag_embed",):
            x = args[0]
            out = self._new(x.shape + (x.shape[-1],), 0, "obj")
            for i in range(x.shape[-1]):
                out[..., i, i] = x[..., i]
            return out
        if n == "diagonal":
            return self.method_call(args[0], "diagonal", args[1:], kwargs, e)
        if n in ("any", "all"):
            x = args[0]
            return bool(getattr(np, n)(x))
        if n in ("no_grad", "enable_grad", "set_grad_enabled"):
            return None
        if n in ("mean", "max", "min", "amax", "amin") and args and isinstance(args[0], np.ndarray) and not (len(args) > 1 and isinstance(args[1], np.ndarray)):
            return self.method_call(args[0], n, args[1:], kwargs, e)
        if n in ("clamp", "clamp_min", "clamp_max", "relu", "argmax", "argmin", "sign") and args and isinstance(args[0], np.ndarray):
            return self.method_call(args[0], n, args[1:], kwargs, e)
        if n in ("maximum", "minimum") and len(args) == 2 and all(isinstance(x, np.ndarray) and x.dtype != object for x in args):
            return np.maximum(*args) if n == "maximum" else np.minimum(*args)
        if n in ("maximum", "minimum") and len(args) == 2:
            a, b = np.broadcast_arrays(I._obj(np.asarray(args[0])), I._obj(np.asarray(args[1])))
            return self._numeric_pick(a, b, n == "maximum", e)
        if n in ("maximum", "minimum", "max", "min", "clamp", "amax", "amin"):
            raise AnalysisError(f"npsym: torch.{n} on symbolic data")
        if n == "unique":
            x = args[0]
            if x.dtype == object:
                raise AnalysisError("npsym: torch.unique of symbolic data")
            ax = kwargs.get("dim")
            return np.unique(x, axis=None if ax is None else self._int(ax))
        if n in ("unsqueeze", "squeeze", "reshape", "flatten", "repeat_interleave", "index_select", "gather", "outer", "flip", "roll", "cumsum", "nonzero", "masked_fill"):
            return self.method_call(args[0], n, args[1:], kwargs, e)
        if n == "device":
            return TorchMarker("device")
        if n == "get_default_dtype":
            return TorchMarker("torch.float64")
        raise AnalysisError(f"npsym: torch function `{name}` in `{norm(e)[:60]}`")

    def _exact_eigh(self, A, e=None):
        """exact symmetric eigendecomposition of (batches of) matrices with exact numeric entries: eigenvalues ascending, orthonormal eigenvectors in the columns.
        Rows / columns that are decoupled from the rest (zero off-diagonal) give unit eigenvectors; the coupled block goes through sympy's exact eigenvects.  Only meant
        for the small matrices with rational spectrum that rules design; symbolic entries fail closed."""
        np, sp = self.np, self.sp
        if A.ndim > 2:
            res = [self._exact_eigh(A[k], e) for k in range(A.shape[0])]
            return np.stack([r[0] for r in res]), np.stack([r[1] for r in res])
        n = A.shape[0]
        exact = lambda t: sp.Rational(str(t)) if sp.sympify(t).is_Float else sp.sympify(t)
        M = [[exact(A[i, j]) for j in range(n)] for i in range(n)]
        if any(not x.is_number for row in M for x in row):
            raise AnalysisError(f"npsym: eigh of a symbolic matrix in `{norm(e)[:50] if e is not None else ''}`")
        # torch.linalg.eigh(UPLO=...) reads one triangle only; the repository passes symmetric matrices, use the upper triangle
        for i in range(n):
            for j in range(i):
                M[i][j] = M[j][i]
        iso = [i for i in range(n) if all(M[i][j] == 0 for j in range(n) if j != i)]
        rest = [i for i in range(n) if i not in iso]
        pairs = []
        for i in iso:
            v = [sp.Integer(0)] * n
            v[i] = sp.Integer(1)
            pairs.append((M[i][i], v))
        known_hit = None
        if rest:
            # a rule that designed the matrix from its eigendecomposition may register it (C, eigenvalues, orthogonal Q with C = Q diag Q^T): exact and cheap
            for C_, lam_, Q_ in getattr(self.I, "eigh_known", ()):
                if C_.shape == (len(rest), len(rest)) and all(M[i][j] == C_[a, b] for a, i in enumerate(rest) for b, j in enumerate(rest)):
                    known_hit = (lam_, Q_)
                    break
        if rest and known_hit is not None:
            lam_, Q_ = known_hit
            for k_ in range(len(rest)):
                full = [sp.Integer(0)] * n
                for a, i in enumerate(rest):
                    full[i] = Q_[a, k_]
                pairs.append((sp.sympify(lam_[k_]), full))
        elif rest:
            sub = sp.Matrix([[M[i][j] for j in rest] for i in rest])
            for lam, mult, vs in sub.eigenvects():
                if not lam.is_real:
                    raise AnalysisError("npsym: eigh met a non-real eigenvalue (matrix not symmetric)")
                # orthonormalise inside a degenerate eigenspace
                vs = sp.GramSchmidt([sp.Matrix(v) for v in vs], True) if len(vs) > 1 else [vs[0] / vs[0].norm()]
                for v in vs:
                    full = [sp.Integer(0)] * n
                    for k, i in enumerate(rest):
                        full[i] = sp.sympify(v[k])
                    pairs.append((sp.sympify(lam), full))
        if len(pairs) != n:
            raise AnalysisError("npsym: eigh could not find a complete exact eigenbasis")
        pairs.sort(key=lambda t: (float(t[0]),))
        vals = np.empty(n, dtype=object)
        vecs = np.empty((n, n), dtype=object)
        for k, (lam, v) in enumerate(pairs):
            vals[k] = lam
            for i in range(n):
                vecs[i, k] = v[i]
        return vals, vecs

    def _numeric_pick(self, a, b, larger, e=None):
        """elementwise maximum / minimum of two broadcast object arrays whose entries are numbers (exact); symbolic entries fail closed"""
        np, sp = self.np, self.sp
        out = np.empty(a.shape, dtype=object)
        for idx in np.ndindex(*a.shape):
            u, v = sp.sympify(a[idx]), sp.sympify(b[idx])
            if not (u.is_number and v.is_number):
                raise AnalysisError(f"npsym: maximum / minimum / clamp of symbolic data in `{norm(e)[:60] if e is not None else ''}`")
            out[idx] = (u if u >= v else v) if larger else (u if u <= v else v)
        return out

    def _plain(self, x):
        np, sp = self.np, self.sp
        if isinstance(x, (list, tuple)):
            return [self._plain(t) for t in x]
        if isinstance(x, np.ndarray):
            return x.tolist()
        if isinstance(x, sp.Basic) and x.is_Integer:
            return int(x)
        return x

    def method_call(self, obj, name, args, kwargs, e):
        np, sp, I = self.np, self.sp, self.I
        if isinstance(obj, dict):
            if name == "get":
                return obj.get(args[0], args[1] if len(args) > 1 else None)
            if name in ("items", "keys", "values"):
                return list(getattr(obj, name)())
            if name == "update":
                obj.update(*args, **kwargs)
                return None
            if name == "pop":
                return obj.pop(*args)
            if name == "setdefault":
                return obj.setdefault(*args)
            if name == "copy":
                return dict(obj)
            if name == "clear":
                obj.clear()
                return None
        if isinstance(obj, list):
            if name == "append":
                obj.append(args[0])
                return None
            if name == "extend":
                obj.extend(args[0])
                return None
            if name == "index":
                return obj.index(args[0])
            if name == "copy":
                return list(obj)
        if isinstance(obj, str):
            if name in ("lower", "upper", "strip", "startswith", "endswith", "format", "replace", "split", "rstrip", "lstrip", "title"):
                return getattr(obj, name)(*args)
            if name == "join":
                return obj.join(str(x) for x in self.iterate(args[0], e))
        if isinstance(obj, (list, tuple)) and name == "count":
            return obj.count(args[0])
        if isinstance(obj, sp.Basic) or isinstance(obj, (int, float)):
            if name in ("item", "clone", "detach", "double", "float", "to", "type", "cpu"):
                return obj
            if name == "unsqueeze":
                return np.array([obj], dtype=object)
        if isinstance(obj, (sp.Basic, int, float)) and not isinstance(obj, bool):
            obj = np.array(obj if isinstance(obj, sp.Basic) else I.num(obj), dtype=object)      # a 0-dimensional tensor
        if not isinstance(obj, np.ndarray):
            raise AnalysisError(f"npsym: method `{name}` of {type(obj).__name__} in `{norm(e)[:60]}`")
        x = obj
        if name in ("view", "reshape"):
            shape = self._shape(args)
            if name == "view" and len(args) == 1 and isinstance(args[0], TorchMarker):
                return x
            r = x.reshape(shape)
            return r
        if name == "view_as" or name == "reshape_as":
            return x.reshape(args[0].shape)
        if name in ("transpose", "swapaxes"):
            return np.swapaxes(x, self._int(args[0]), self._int(args[1]))
        if name == "permute":
            return np.transpose(x, self._shape(args))
        if name == "t":
            return x.T
        if name in ("clone", "detach", "contiguous", "cpu", "double", "float", "requires_grad_", "type_as", "cuda", "numpy"):
            return x.copy() if name == "clone" else x
        if name in ("to", "type"):
            k = self._kind(kwargs) or next((("int" if a.name in INT_DTYPES else "bool" if a.name in BOOL_DTYPES else "obj") for a in args if isinstance(a, TorchMarker) and a.name.startswith("torch.") and a.name != "torch.device"), None)
            if k == "int" and x.dtype == object:
                return np.vectorize(lambda t: int(t), otypes=[np.int64])(x)
            if k == "obj" and x.dtype != object:
                return np.vectorize(lambda t: sp.Integer(int(t)), otypes=[object])(x) if x.size else x.astype(object)
            return x
        if name in ("long", "int"):
            return x if x.dtype != object else np.vectorize(lambda t: int(t), otypes=[np.int64])(x)
        if name == "bool":
            return x.astype(bool)
        if name == "unsqueeze":
            return np.expand_dims(x, self._int(args[0]))
        if name == "squeeze":
            return np.squeeze(x, axis=self._int(args[0])) if args else np.squeeze(x)
        if name == "flatten":
            if args or kwargs:
                s = self._int(kwargs.get("start_dim", args[0] if args else 0))
                t = self._int(kwargs.get("end_dim", args[1] if len(args) > 1 else -1))
                t = t % x.ndim
                return x.reshape(x.shape[:s] + (-1,) + x.shape[t + 1:])
            return x.reshape(-1)
        if name == "sum":
            ax = self._axis(args, kwargs, 0)
            return I.osum(I._obj(x), axis=ax, keepdims=bool(kwargs.get("keepdim", False)))
        if name == "mean":
            ax = self._axis(args, kwargs, 0)
            tot = I.osum(I._obj(x), axis=ax, keepdims=bool(kwargs.get("keepdim", False)))
            cnt = x.size if ax is None else int(np.prod([x.shape[a] for a in (ax if isinstance(ax, tuple) else (ax,))]))
            return tot / sp.Integer(cnt)
        if name in ("max", "min", "amax", "amin") and not (args and isinstance(args[0], np.ndarray)):
            ax = self._axis(args, kwargs, 0)
            f_ = sp.Max if name in ("max", "amax") else sp.Min
            if any(not sp.sympify(t).is_number for t in x.reshape(-1)):
                raise AnalysisError(f"npsym: .{name}() of symbolic data")
            if ax is None:
                return f_(*[sp.sympify(t) for t in x.reshape(-1)])
            moved = np.moveaxis(x, ax, -1)
            out = np.empty(moved.shape[:-1], dtype=object)
            for idx in np.ndindex(*out.shape):
                out[idx] = f_(*[sp.sympify(t) for t in moved[idx]])
            if name in ("max", "min"):
                # torch returns (values, indices); indices = first position of the extremum along the axis
                ind = np.empty(out.shape, dtype=np.int64)
                for idx in np.ndindex(*out.shape):
                    ind[idx] = next(k for k, t in enumerate(moved[idx]) if sp.sympify(t) == out[idx])
                if kwargs.get("keepdim", False):
                    out, ind = np.expand_dims(out, ax), np.expand_dims(ind, ax)
                return _ValuesIndices((out, ind))
            if kwargs.get("keepdim", False):
                out = np.expand_dims(out, ax)
            return out
        if name in ("size",):
            return tuple(x.shape) if not args else x.shape[self._int(args[0])]
        if name in ("dim", "ndimension"):
            return x.ndim
        if name == "numel":
            return int(x.size)
        if name == "item":
            if x.size != 1:
                raise AnalysisError("npsym: item() of a non-scalar")
            v = x.reshape(-1)[0]
            return int(v) if x.dtype.kind in "iu" else bool(v) if x.dtype == bool else v
        if name == "tolist":
            return self._plain(x)
        if name == "expand":
            shape = list(self._shape(args))
            full = list(x.shape)
            full = [1] * (len(shape) - len(full)) + full
            shape = [f if s == -1 else s for s, f in zip(shape, full)]
            return np.broadcast_to(x.reshape(full), shape)
        if name == "expand_as":
            return np.broadcast_to(x, args[0].shape)
        if name == "repeat":
            return np.tile(x, self._shape(args))
        if name == "repeat_interleave":
            return np.repeat(x, self._int(args[0]), axis=self._axis(args, kwargs, 1))
        if name in ("triu", "tril"):
            k = self._int(kwargs.get("diagonal", args[0] if args else 0))
            m = getattr(np, name)(np.ones(x.shape[-2:], dtype=bool), k)
            out = x.copy()
            out[..., ~m] = 0 if x.dtype != object else sp.Integer(0)
            return out
        if name == "diagonal":
            off = self._int(kwargs.get("offset", args[0] if args else 0))
            d1 = self._int(kwargs.get("dim1", args[1] if len(args) > 1 else 0))
            d2 = self._int(kwargs.get("dim2", args[2] if len(args) > 2 else 1))
            return np.diagonal(x, off, d1, d2)
        if name == "unbind":
            ax = self._axis(args, kwargs, 0) or 0
            return tuple(np.take(x, i, axis=ax) for i in range(x.shape[ax]))
        if name == "index_add_" or name == "index_add":
            a3 = list(args) + [None] * 3
            dim = self._int(kwargs.get("dim", a3[0]))
            idx = kwargs.get("index", a3[1])
            src = I._obj(kwargs.get("source", kwargs.get("tensor", a3[2])))
            alpha = kwargs.get("alpha", 1)
            tgt = x if name.endswith("_") else x.copy()
            if isinstance(idx, np.ndarray) and idx.dtype == object:
                raise AnalysisError("npsym: symbolic index in index_add_")
            for k in range(len(idx)):
                sel = [slice(None)] * tgt.ndim
                sel[dim] = int(idx[k])
                ssel = [slice(None)] * src.ndim
                ssel[dim] = k
                tgt[tuple(sel)] = tgt[tuple(sel)] + alpha * src[tuple(ssel)]
            return tgt
        if name == "index_select":
            return np.take(x, args[1], axis=self._int(args[0]))
        if name in ("add_", "sub_", "mul_", "div_"):
            op = {"add_": ast.Add(), "sub_": ast.Sub(), "mul_": ast.Mult(), "div_": ast.Div()}[name]
            other = args[0]
            if "alpha" in kwargs:
                other = self.binop(ast.Mult(), kwargs["alpha"], other, e)
            new = self.binop(op, x, other, e)
            if new.shape != x.shape:
                raise AnalysisError(f"npsym: in-place `{norm(e)[:60]}` broadcasts the target")
            x[...] = new
            return x
        if name in ("add", "sub", "mul", "div"):
            op = {"add": ast.Add(), "sub": ast.Sub(), "mul": ast.Mult(), "div": ast.Div()}[name]
            other = args[0]
            if "alpha" in kwargs:
                other = self.binop(ast.Mult(), kwargs["alpha"], other, e)
            return self.binop(op, x, other, e)
        if name == "zero_":
            x[...] = 0 if x.dtype != object else sp.Integer(0)
            return x
        if name == "fill_":
            x[...] = args[0]
            return x
        if name == "copy_":
            x[...] = args[0]
            return x
        if name == "masked_fill_" or name == "masked_fill":
            tgt = x if name.endswith("_") else x.copy()
            tgt[args[0]] = args[1]
            return tgt
        if name in ("any", "all"):
            if x.dtype == object:
                raise AnalysisError(f"npsym: .{name}() of symbolic data")
            return bool(getattr(np, name)(x)) if not (args or kwargs) else getattr(np, name)(x, axis=self._axis(args, kwargs, 0))
        if name in ("sqrt", "exp", "abs", "square", "log"):
            return self.torch_call("torch." + name, [x], {}, e)
        if name == "pow":
            return self.binop(ast.Pow(), x, args[0], e)
        if name == "neg":
            return -x
        if name == "nonzero":
            nz = np.nonzero(x)
            return tuple(nz) if kwargs.get("as_tuple") else np.stack(nz, axis=1)
        if name == "new_zeros":
            return self._new(self._shape(args), 0, "obj" if x.dtype == object else "int")
        if name == "new_tensor":
            return I._from_literal(self._plain(args[0]), None)
        if name == "outer":
            return np.multiply.outer(x, args[0])
        if name == "flip":
            return np.flip(x, axis=self._axis(args, kwargs, 0))
        if name == "cumsum":
            return np.cumsum(x, axis=self._axis(args, kwargs, 0))
        if name in ("clamp", "clamp_min", "clamp_max", "relu", "clamp_"):
            lo = kwargs.get("min", args[0] if (name in ("clamp", "clamp_min", "clamp_") and args) else None)
            hi = kwargs.get("max", args[1] if (name in ("clamp", "clamp_") and len(args) > 1) else (args[0] if (name == "clamp_max" and args) else None))
            if name == "relu":
                lo = 0
            out = I._obj(x)
            if lo is not None:
                out = self._numeric_pick(*np.broadcast_arrays(out, I._obj(np.asarray(lo))), True, e)
            if hi is not None:
                out = self._numeric_pick(*np.broadcast_arrays(out, I._obj(np.asarray(hi))), False, e)
            if name.endswith("_"):
                x[...] = out
                return x
            return out
        if name in ("argmax", "argmin"):
            if x.dtype == object:
                if not all(sp.sympify(t).is_number for t in x.flat):
                    raise AnalysisError(f"npsym: .{name}() of symbolic data")
                x = np.vectorize(lambda t: sp.Rational(t) if sp.sympify(t).is_Rational else float(t), otypes=[object])(x)
            ax = self._axis(args, kwargs, 0)
            return getattr(np, name)(x.astype(np.int64) if x.dtype == bool else x, axis=ax)
        if name == "sign":
            if x.dtype == object and not all(sp.sympify(t).is_number for t in x.flat):
                raise AnalysisError("npsym: .sign() of symbolic data")
            return np.vectorize(lambda t: sp.sign(sp.sympify(t)), otypes=[object])(x)
        if name == "gather":
            return np.take_along_axis(x, args[1], axis=self._int(args[0]))
        if name == "__getitem__":
            return x[args[0]]
        if name in ("matmul", "bmm", "mm") and len(args) == 1:
            return np.matmul(x, args[0])
        if name == "unique" and not args and not kwargs:
            if x.dtype == object and not all(sp.sympify(t).is_number for t in x.flat):
                raise AnalysisError("npsym: .unique() of symbolic data")
            vals = sorted({(int(t) if x.dtype.kind in "iub" else sp.sympify(t)) for t in x.flat})
            return np.array(vals, dtype=x.dtype if x.dtype.kind in "iu" else object)
        raise AnalysisError(f"npsym: tensor method `.{name}` in `{norm(e)[:60]}`")


class _BoundMethod:
    def __init__(self, obj, name):
        self.obj, self.name = obj, name


def _b_range(fr, *a):
    return range(*[fr._int(x) for x in a])


def _b_len(fr, x):
    return len(x)


def _b_enumerate(fr, x, start=0):
    return list(enumerate(fr.iterate(x, None), start))


def _b_zip(fr, *xs):
    return list(zip(*[fr.iterate(x, None) for x in xs]))


def _b_int(fr, x=0):
    if isinstance(x, fr.np.ndarray):
        x = x.reshape(-1)[0] if x.size == 1 else x
    return int(x)


def _b_float(fr, x=0):
    if isinstance(x, fr.np.ndarray) and x.size == 1:
        x = x.reshape(-1)[0]
    return fr.I.num(x) if not isinstance(x, int) else fr.sp.Integer(x)


def _b_isinstance(fr, x, t):
    for tt in (t if isinstance(t, tuple) else (t,)):
        if isinstance(tt, ClassRef) and isinstance(x, Instance):
            if _b_issubclass(fr, ClassRef(x._npsym_class[0], x._npsym_class[0].classes[x._npsym_class[1]]), tt):
                return True
    names = [getattr(tt, "name", str(tt)) for tt in (t if isinstance(t, tuple) else (t,)) if not isinstance(tt, ClassRef)]
    for tt in (t if isinstance(t, tuple) else (t,)):
        for bn in ("int", "float", "bool", "str", "list", "tuple", "dict"):
            if tt is BUILTINS.get(bn):
                names.append(f"<builtin {bn}>")
    if isinstance(x, fr.sp.Basic) and x.is_Integer and "<builtin int>" in names:
        return True
    for nm in names:
        if nm in ("torch.Tensor",) and isinstance(x, fr.np.ndarray):
            return True
        if nm == "<builtin int>" and isinstance(x, int) and not isinstance(x, bool):
            return True
        if nm == "<builtin float>" and isinstance(x, fr.sp.Basic):
            return True
        if nm == "<builtin bool>" and isinstance(x, bool):
            return True
        if nm == "<builtin str>" and isinstance(x, str):
            return True
        if nm in ("<builtin list>", "<builtin tuple>") and isinstance(x, (list, tuple)):
            return True
        if nm == "<builtin dict>" and isinstance(x, dict):
            return True
    return False


def _b_issubclass(fr, c, bases):
    bases = bases if isinstance(bases, tuple) else (bases,)
    if not isinstance(c, ClassRef) or not all(isinstance(b, ClassRef) for b in bases):
        raise AnalysisError("npsym: issubclass of non-repository classes")
    seen, todo = set(), [c]
    while todo:
        x = todo.pop()
        if x.node.name in seen:
            continue
        seen.add(x.node.name)
        for b in x.node.bases:
            bn = b.id if isinstance(b, ast.Name) else None
            if bn and bn in x.mod.classes:
                todo.append(ClassRef(x.mod, x.mod.classes[bn]))
    return any(b.node.name in seen for b in bases)


_MISSING = object()


def _b_getattr(fr, o, n, *d):
    if isinstance(o, Instance):
        if n in vars(o):
            return getattr(o, n)
        v = fr.I.class_attribute(o._npsym_class[0], o._npsym_class[1], n, o, default=_MISSING)
        if v is not _MISSING:
            return v
        if d:
            return d[0]
        raise AnalysisError(f"npsym: getattr of missing attribute `{n}`")
    return getattr(o, n, *d)


BUILTINS: Dict[str, Any] = {
    "issubclass": _b_issubclass,
    "range": _b_range, "len": _b_len, "enumerate": _b_enumerate, "zip": _b_zip, "int": _b_int, "float": _b_float,
    "bool": lambda fr, x=False: fr.truth(x), "tuple": lambda fr, x=(): tuple(fr.iterate(x, None)), "list": lambda fr, x=(): list(fr.iterate(x, None)),
    "dict": lambda fr, *a, **k: dict(*a, **k), "isinstance": _b_isinstance, "print": lambda fr, *a, **k: None,
    "max": lambda fr, *a, **k: max(*a, **k) if len(a) > 1 else max(a[0], **k), "min": lambda fr, *a, **k: min(*a, **k) if len(a) > 1 else min(a[0], **k),
    "abs": lambda fr, x: abs(x), "sorted": lambda fr, x: sorted(x), "sum": lambda fr, x, s=0: sum(x, s), "set": lambda fr, x=(): set(x),
    "str": lambda fr, x="": str(x), "reversed": lambda fr, x: list(reversed(list(x))), "any": lambda fr, x: any(fr.truth(t) for t in x),
    "all": lambda fr, x: all(fr.truth(t) for t in x), "getattr": lambda fr, o, n, *d: _b_getattr(fr, o, n, *d), "hasattr": lambda fr, o, n: _b_getattr(fr, o, n, _MISSING) is not _MISSING,
    "slice": lambda fr, *a: slice(*a), "id": lambda fr, x: id(x), "callable": lambda fr, x: callable(x) or isinstance(x, FuncRef),
    "map": lambda fr, f, *xs: [fr.apply(f, list(t)) for t in zip(*[fr.iterate(x, None) for x in xs])], "repr": lambda fr, x: repr(x), "round": lambda fr, x, n=0: round(x, n),
    "ValueError": TorchMarker("ValueError"), "RuntimeError": TorchMarker("RuntimeError"), "NotImplementedError": TorchMarker("NotImplementedError"), "TypeError": TorchMarker("TypeError"),
}
