"""Obligation bookkeeping, findings, known-findings matching, evidence and replay files."""
from __future__ import annotations

import json
import os
import time
from typing import Any, Dict, List, Optional

from .loader import AnalysisError, Repo, norm

VERIF = os.path.dirname(os.path.dirname(os.path.abspath(__file__)))


class Finding:
    def __init__(self, prop, rule, file, line, function, construct, message, extra=None):
        self.prop, self.rule, self.file, self.line = prop, rule, file, line
        self.function, self.construct, self.message = function, construct, message
        self.extra = extra or {}

    @property
    def key(self) -> str:
        # never keyed by line number: rule + file + function + normalised construct text
        return f"{self.rule}|{self.file}|{self.function}|{self.construct}"

    def to_json(self) -> Dict[str, Any]:
        d = dict(property=self.prop, rule=self.rule, file=self.file, line=self.line, function=self.function,
                 construct=self.construct, message=self.message, key=self.key)
        d.update(self.extra)
        return d


class Ctx:
    """Per-run context handed to a property's rule module."""

    def __init__(self, prop: str, tier: str, repo: Repo, seed: int = 0):
        self.prop, self.tier, self.repo, self.seed = prop, tier, repo, seed
        self.findings: List[Finding] = []
        self.obligations: List[Dict[str, Any]] = []
        self.rules: Dict[str, Dict[str, Any]] = {}
        self.notes: List[str] = []
        self.t0 = time.time()
        self.exhaustive = False
        self.observations: List[str] = []
        # demote(rule id, file, function, message) -> reason | None: while set, a finding of a shape-based rule about a construct that a by-value rule of the same property
        # has already decided is recorded as a (trivial) discharged obligation with that reason instead of a violation
        self.demote = None
        self.demoted: List[str] = []

    # ------------------------------------------------------------------
    def rule(self, rid: str, text: str):
        self.rules.setdefault(rid, {"text": text, "instances": 0, "failed": 0, "nontrivial": 0})

    def ok(self, rid: str, site: str, what: str, nontrivial: bool = True, detail: Optional[str] = None):
        r = self.rules[rid]
        r["instances"] += 1
        if nontrivial:
            r["nontrivial"] += 1
        self.obligations.append({"rule": rid, "site": site, "what": what, "verdict": "ok",
                                 **({"detail": detail} if detail else {})})

    def fail(self, rid: str, mod, node, function: str, construct, message: str, **extra):
        r = self.rules[rid]
        r["instances"] += 1
        r["failed"] += 1
        r["nontrivial"] += 1
        rel = mod.rel if hasattr(mod, "rel") else str(mod)
        line = getattr(node, "lineno", 0) if node is not None else 0
        if self.demote is not None:
            why = self.demote(rid, rel, function, message)
            if why:
                r["failed"] -= 1
                r["nontrivial"] -= 1
                self.demoted.append(f"{self.prop}-{rid} {rel}:{line} {function}: {message[:160]}")
                self.obligations.append({"rule": rid, "site": f"{rel}:{line} {function}", "verdict": "ok",
                                         "what": f"{why}; the shape-based rule does not recognise this spelling (it would report: {message[:160]})"})
                return None
        f = Finding(self.prop, f"{self.prop}-{rid}", rel, line, function, norm(construct)[:300], message, extra)
        self.findings.append(f)
        self.obligations.append({"rule": rid, "site": f"{rel}:{line} {function}", "what": message,
                                 "verdict": "VIOLATED", "construct": f.construct})
        return f

    def check(self, cond: bool, rid: str, mod, node, function: str, construct, what: str, fail_msg: str = None,
              nontrivial=True):
        """Record one rule instance: ok when cond, finding otherwise."""
        if cond:
            rel = mod.rel if hasattr(mod, "rel") else str(mod)
            self.ok(rid, f"{rel}:{getattr(node, 'lineno', 0)} {function}", what, nontrivial)
        else:
            self.fail(rid, mod, node, function, construct, fail_msg or ("violated: " + what))
        return cond

    def floor(self, rid: str, minimum: int):
        n = self.rules[rid]["instances"]
        if n < minimum:
            raise AnalysisError(f"{self.prop}-{rid}: only {n} rule instances found, expected >= {minimum} "
                                f"(anchor drift: the rule would pass vacuously)")

    def note(self, text: str):
        self.notes.append(text)

    def observe(self, text: str):
        self.observations.append(text)


def load_known() -> List[Dict[str, Any]]:
    path = os.path.join(VERIF, "known_findings.json")
    if not os.path.isfile(path):
        return []
    with open(path) as fh:
        return json.load(fh).get("entries", [])


def unlisted_findings(ctx: Ctx) -> int:
    """number of findings that are not recorded known findings (what finish() would report as violations)"""
    known = [k for k in load_known() if k.get("property") == ctx.prop and k.get("status") == "finding"]
    n = 0
    for f in ctx.findings:
        if not any(k.get("rule") == f.rule and k.get("file") == f.file and k.get("function") == f.function and k.get("construct_contains", "") in f.construct for k in known):
            n += 1
    return n


def finish(ctx: Ctx, level: str, explanation: str, assumptions: List[str], trusted: List[str]) -> int:
    """Apply known-findings, write replay + evidence files, print verdict lines. Returns exit code."""
    known = [k for k in load_known() if k.get("property") == ctx.prop and k.get("status") == "finding"]
    unlisted, listed = [], []
    for f in ctx.findings:
        hit = None
        for k in known:
            if k.get("rule") == f.rule and k.get("file") == f.file and k.get("function") == f.function \
                    and k.get("construct_contains", "") in f.construct:
                hit = k
                break
        (listed if hit else unlisted).append((f, hit))

    ev_dir = os.environ.get("VERIF_EVIDENCE_DIR") or os.path.join(VERIF, "evidence")
    rp_dir = os.path.join(ev_dir, "replay")
    os.makedirs(rp_dir, exist_ok=True)
    # clear stale replay files of this property
    for fn in os.listdir(rp_dir):
        if fn.startswith(ctx.prop + "-"):
            try:
                os.remove(os.path.join(rp_dir, fn))
            except OSError:
                pass

    seen_known = set()
    for f, k in listed:
        if id(k) in seen_known:
            continue
        seen_known.add(id(k))
        print(f"KNOWN-FINDING: property={ctx.prop} {k.get('what', f.message)} [{f.rule} {f.file}:{f.line} {f.function}]")

    for i, (f, _) in enumerate(unlisted):
        rp = os.path.join(rp_dir, f"{ctx.prop}-{i}.json")
        with open(rp, "w") as fh:
            json.dump(f.to_json(), fh, indent=1)
        print(f"  {f.rule} {f.file}:{f.line} in {f.function}: {f.message}\n    construct: {f.construct[:200]}")
        print(f"VIOLATION property={ctx.prop} replay={rp}")

    n_obl = len(ctx.obligations)
    n_ok = sum(1 for o in ctx.obligations if o["verdict"] == "ok")
    distinct = len({(o["rule"], o["site"], o["what"]) for o in ctx.obligations})
    nontrivial = sum(r["nontrivial"] for r in ctx.rules.values())
    samples = []
    per_rule_seen: Dict[str, int] = {}
    for o in ctx.obligations:
        c = per_rule_seen.get(o["rule"], 0)
        if c < 4 or o["verdict"] != "ok":
            samples.append(o)
        per_rule_seen[o["rule"]] = c + 1
    evidence = {
        "property_id": ctx.prop,
        "tier": ctx.tier,
        "seed": ctx.seed,
        "level": level,
        "coverage": {
            "explanation": explanation,
            "obligations": n_obl,
            "discharged": n_ok,
            "evaluations": n_obl,
            "distinct_nontrivial": min(distinct, nontrivial),
            "rule": "one evaluation = one rule instance (a call site, CFG path set, table row or algebraic identity) "
                    "located in /repo's current source; non-trivial = the verdict needed the analysis (not a mere "
                    "presence check); distinct = distinct (rule, site, obligation text)",
            "samples": samples[:60],
            "rules": {rid: r for rid, r in ctx.rules.items()},
            "checker_cmd": f"./check {ctx.prop} --tier {ctx.tier}",
            "trusted_base": trusted,
            "exhaustive": bool(ctx.exhaustive),
            "known_findings_matched": [k.get("what") for _, k in listed],
            "selftest": getattr(ctx, "selftest", None),
            "observations": ctx.observations,
            "notes": ctx.notes,
            "source_digest": ctx.repo.consulted_digest(),
            "files_consulted": sorted(ctx.repo._mods),
        },
        "assumptions": assumptions,
        "wall_s": round(time.time() - ctx.t0, 3),
        "violations": len(unlisted),
    }
    with open(os.path.join(ev_dir, f"{ctx.prop}.json"), "w") as fh:
        json.dump(evidence, fh, indent=1, default=str)

    print(f"[{ctx.prop}] tier={ctx.tier} rules={len(ctx.rules)} instances={n_obl} ok={n_ok} "
          f"violations={len(unlisted)} known={len(seen_known)} wall={evidence['wall_s']}s")
    for rid, r in ctx.rules.items():
        print(f"   {rid}: {r['instances']} instances, {r['failed']} failed -- {r['text'][:110]}")
    return 1 if unlisted else 0
