"""CLI: python -m sa.cli <ID> --tier quick|thorough [--replay file]

Exit 0: all obligations discharged (after known findings). Exit 1: VIOLATION line(s).
Exit 2: ANALYSIS-ERROR (anchor vanished, parse failure, instance floor, internal error).
"""
from __future__ import annotations

import argparse
import importlib
import json
import os
import sys
import traceback

from .loader import AnalysisError, Repo
from .report import Ctx, finish

TRUSTED_COMMON = [
    "CPython ast parser",
    "sa.cfg statement CFG builder and sa.loader name/MRO resolver (validated by seeded variants)",
]


def run_property(prop: str, tier: str, repo_root: str = None) -> int:
    repo = Repo(repo_root) if repo_root else Repo()
    mod = importlib.import_module(f"sa.rules.{prop.lower()}")
    ctx = Ctx(prop, tier, repo, seed=int(os.environ.get("VERIF_SEED", "0") or 0))
    mod.run(ctx)
    st_ok, st_lines = True, []
    if tier == "thorough" and not os.environ.get("VERIF_NO_SELFTEST"):
        from . import selftest
        st_ok, st_lines, ctx.selftest = selftest.run(prop, repo.root)
    rc = finish(
        ctx,
        getattr(mod, "LEVEL", "other"),
        mod.EXPLANATION,
        getattr(mod, "ASSUMPTIONS", []),
        TRUSTED_COMMON + getattr(mod, "TRUSTED", []),
    )
    for l in st_lines:
        print(l)
    if not st_ok:
        print(f"ANALYSIS-ERROR property={prop} selftest: the checker missed a confirmed seeded change or flagged a benign twin (see lines above); its verdict on the tree is not trusted")
        return rc or 2
    return rc


def main(argv=None) -> int:
    ap = argparse.ArgumentParser()
    ap.add_argument("prop")
    ap.add_argument("--tier", default=os.environ.get("VERIF_TIER", "quick"), choices=["quick", "thorough"])
    ap.add_argument("--replay", default=None)
    ap.add_argument("--repo", default=None)
    a = ap.parse_args(argv)
    prop = a.prop.upper()
    if a.replay:
        with open(a.replay) as fh:
            rp = json.load(fh)
        print(f"replaying {rp.get('rule')} at {rp.get('file')}:{rp.get('line')} ({rp.get('function')})")
    try:
        return run_property(prop, a.tier, a.repo)
    except AnalysisError as e:
        print(f"ANALYSIS-ERROR property={prop} {e}")
        return 2
    except Exception as e:  # internal error: never a VIOLATION, never a silent pass
        traceback.print_exc()
        print(f"ANALYSIS-ERROR property={prop} internal: {type(e).__name__}: {e}")
        return 2


if __name__ == "__main__":
    sys.exit(main())
