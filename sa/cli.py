"""CLI: python -m sa.cli <ID> --tier quick|thorough [--replay file]

Exit 0: all obligations discharged (after known findings). Exit 1: VIOLATION line(s).
Exit 2: ANALYSIS-ERROR (anchor vanished, parse failure, instance floor, internal error).
"""
from __future__ import annotations

import argparse
import importlib
import json
import os
import sys
import traceback

from .loader import AnalysisError, Repo
from .report import Ctx, finish

TRUSTED_COMMON = [
    "CPython ast parser",
    "sa.cfg statement CFG builder and sa.loader name/MRO resolver (validated by seeded variants)",
]


# The tree as written ("0") is deliberately not among the forms: where it differs from form "1" the tree contains new helpers, and most rules do not look into helpers they do
# not know -- on that form they would pass *because* the code moved out of their sight, which would hide a violation found on the other forms.
NORMAL_FORMS = (("2", "new helpers inlined, new temporaries substituted"), ("1", "new helpers inlined"))


def _attempt(prop, tier, repo_root, mod, level):
    """run the rules of one property on one normal form of the tree: (ctx, analysis error or None)"""
    os.environ["VERIF_NORM_LEVEL"] = level
    repo = Repo(repo_root) if repo_root else Repo()
    ctx = Ctx(prop, tier, repo, seed=int(os.environ.get("VERIF_SEED", "0") or 0))
    try:
        mod.run(ctx)
        return ctx, None
    except AnalysisError as e:
        return ctx, e
    except Exception as e:      # an internal error on one normal form must not hide a verdict on another
        if level == NORMAL_FORMS[-1][0]:
            raise
        return ctx, AnalysisError(f"internal: {type(e).__name__}: {e}")


def run_property(prop: str, tier: str, repo_root: str = None) -> int:
    from .report import unlisted_findings
    mod = importlib.import_module(f"sa.rules.{prop.lower()}")
    # The rules are applied to inventory-anchored normal forms of the tree (sa/normalize.py).  Every normal form is a semantics-preserving rewrite of the same program, so a
    # property that the rules establish on one of them holds for the program; the forms differ only when the tree contains functions / locals that the reference inventory
    # does not know (on the reference tree all three coincide and the rules run once).  The most normalised form is tried first; a less normalised one is consulted only when
    # the rules do not succeed, and the verdict of the first form is reported when none succeeds.
    first = None
    chosen = None
    for level, what in NORMAL_FORMS:
        ctx, err = _attempt(prop, tier, repo_root, mod, level)
        changed = any(getattr(m, "normalized", False) for m in ctx.repo._mods.values())
        if first is None:
            first = (ctx, err, level, what)
        if err is None and unlisted_findings(ctx) == 0:
            chosen = (ctx, err, level, what)
            break
        if level == "2" and not changed:
            break               # nothing to normalise: all forms coincide
        if level == "1" and not changed:
            break
    ctx, err, level, what = chosen or first
    if chosen is not None and chosen[2] != first[2]:
        ctx.note(f"decided on the normal form `{what}` of the tree (the rules did not succeed on `{first[3]}`: "
                 f"{'analysis error: ' + str(first[1])[:120] if first[1] is not None else str(unlisted_findings(first[0])) + ' findings'})")
    if err is not None:
        if unlisted_findings(ctx) == 0:
            raise err
        # violations were established before the analysis stopped: they are reported (exit 1); the analysis error is shown as well
        print(f"ANALYSIS-NOTE property={prop} the analysis stopped early ({str(err)[:160]}); the violations found before that point are reported")
    repo = ctx.repo
    st_ok, st_lines = True, []
    if tier == "thorough" and not os.environ.get("VERIF_NO_SELFTEST"):
        from . import selftest
        st_ok, st_lines, ctx.selftest = selftest.run(prop, repo.root)
    rc = finish(
        ctx,
        getattr(mod, "LEVEL", "other"),
        mod.EXPLANATION,
        getattr(mod, "ASSUMPTIONS", []),
        TRUSTED_COMMON + getattr(mod, "TRUSTED", []),
    )
    for l in st_lines:
        print(l)
    if not st_ok:
        print(f"ANALYSIS-ERROR property={prop} selftest: the checker missed a confirmed seeded change or flagged a benign twin (see lines above); its verdict on the tree is not trusted")
        return rc or 2
    return rc


def main(argv=None) -> int:
    ap = argparse.ArgumentParser()
    ap.add_argument("prop")
    ap.add_argument("--tier", default=os.environ.get("VERIF_TIER", "quick"), choices=["quick", "thorough"])
    ap.add_argument("--replay", default=None)
    ap.add_argument("--repo", default=None)
    a = ap.parse_args(argv)
    prop = a.prop.upper()
    if a.replay:
        with open(a.replay) as fh:
            rp = json.load(fh)
        print(f"replaying {rp.get('rule')} at {rp.get('file')}:{rp.get('line')} ({rp.get('function')})")
    try:
        return run_property(prop, a.tier, a.repo)
    except AnalysisError as e:
        print(f"ANALYSIS-ERROR property={prop} {e}")
        return 2
    except Exception as e:  # internal error: never a VIOLATION, never a silent pass
        traceback.print_exc()
        print(f"ANALYSIS-ERROR property={prop} internal: {type(e).__name__}: {e}")
        return 2


if __name__ == "__main__":
    sys.exit(main())
