"""Loop-carried state of the MD step functions: which attributes of `self` / `molecule` carry a value from one iteration of the
step loop into the next (read in an iteration before that iteration has definitely written them, and written somewhere in an
iteration).  Interprocedural over `self.<method>(...)` calls inside the MD modules, flow-sensitive inside each function
(forward must-write dataflow over the statement CFG; reads of a statement are taken before its writes)."""
from __future__ import annotations

import ast
from typing import Dict, Set, Tuple

from .cfg import build_cfg
from .loader import calls_in, norm

OBJ = ("self", "molecule", "mol")
INPLACE_WRITE = {"copy_", "zero_", "fill_"}                     # overwrite the content without reading it
INPLACE_RW = {"add_", "sub_", "mul_", "div_", "append", "extend", "update", "pop", "clear", "index_add_", "masked_fill_", "clamp_", "neg_"}


def _attr_key(x):
    if isinstance(x, ast.Attribute) and isinstance(x.value, ast.Name) and x.value.id in OBJ:
        return ("molecule" if x.value.id in ("molecule", "mol") else "self") + "." + x.attr
    return None


def accesses(stmt_or_expr, parents) -> Tuple[Set[str], Set[str]]:
    """(reads, writes) of attribute keys in one CFG node payload"""
    reads, writes = set(), set()
    for x in ast.walk(stmt_or_expr):
        if isinstance(x, ast.Call) and isinstance(x.func, ast.Name) and x.func.id in ("getattr", "hasattr") and len(x.args) >= 2 and isinstance(x.args[0], ast.Name) \
                and x.args[0].id in OBJ and isinstance(x.args[1], ast.Constant):
            reads.add(("molecule" if x.args[0].id in ("molecule", "mol") else "self") + "." + str(x.args[1].value))
        if isinstance(x, ast.Call) and isinstance(x.func, ast.Name) and x.func.id == "setattr" and len(x.args) >= 2 and isinstance(x.args[0], ast.Name) \
                and x.args[0].id in OBJ and isinstance(x.args[1], ast.Constant):
            writes.add(("molecule" if x.args[0].id in ("molecule", "mol") else "self") + "." + str(x.args[1].value))
        k = _attr_key(x)
        if k is None:
            continue
        par = parents.get(x)
        if isinstance(x.ctx, ast.Store):
            writes.add(k)
            continue
        if isinstance(x.ctx, ast.Del):
            continue
        # self.X[...] = v  : partial overwrite -> read-modify-write unless the whole tensor is addressed; treat as write + read
        if isinstance(par, ast.Subscript) and isinstance(par.ctx, ast.Store) and par.value is x:
            writes.add(k)
            reads.add(k)
            continue
        if isinstance(par, ast.Attribute) and par.value is x and isinstance(parents.get(par), ast.Call) and parents.get(par).func is par:
            if par.attr in INPLACE_WRITE:
                writes.add(k)
                continue
            if par.attr in INPLACE_RW:
                writes.add(k)
                reads.add(k)
                continue
        if isinstance(par, ast.AugAssign) and par.target is x:
            writes.add(k)
            reads.add(k)
            continue
        reads.add(k)
    return reads, writes


class LoopState:
    def __init__(self, repo, modules):
        self.repo = repo
        self.mods = [repo.mod(r) for r in modules]
        self.by_name: Dict[str, list] = {}
        for m in self.mods:
            for q, f in m.functions.items():
                if "<locals>" in q:
                    continue
                self.by_name.setdefault(q.split(".")[-1], []).append((m, q, f))
        self.memo: Dict[str, Tuple[Set[str], Set[str], Set[str]]] = {}
        self.stack: Set[str] = set()

    def resolve(self, ctx, name):
        """methods called as self.<name>: the definition visible from the concrete class being analysed (its MRO)"""
        cmod, ccls = ctx
        hit = self.repo.find_method(cmod, ccls, name)
        if hit:
            m, c, f = hit
            return [(m, f"{c.name}.{f.name}", f)]
        return []

    def external(self, call):
        """(reads, may-writes) of calls that leave the MD modules: the electronic-structure driver publishes results on the molecule"""
        if isinstance(call.func, ast.Attribute) and call.func.attr == "esdriver" and norm(call.func.value) == "self":
            if not hasattr(self, "_es_writes"):
                w = set()
                for rel, quals in (("seqm/ElectronicStructure.py", ["Electronic_Structure.forward"]), ("seqm/basics.py", ["Energy.forward", "Force.forward", "Energy._prepare_molecule_inputs"]),
                                   ("seqm/dynamics/xlbomd.py", ["EnergyXL.forward", "ForceXL.forward"])):
                    if not self.repo.has(rel):
                        continue
                    m_ = self.repo.mod(rel)
                    for q_ in quals:
                        if not m_.has_func(q_):
                            continue
                        for x in ast.walk(m_.func(q_)):
                            if isinstance(x, ast.Attribute) and isinstance(x.ctx, ast.Store) and isinstance(x.value, ast.Name) and x.value.id == "molecule":
                                w.add("molecule." + x.attr)
                self._es_writes = w
            return set(), set(self._es_writes)
        return set(), set()

    def summary(self, mod, q, f, ctx):
        """(read-first, must-write, may-write) of function q analysed for the concrete class ctx"""
        key0 = (q, ctx[1].name)
        if key0 in self.memo:
            return self.memo[key0]
        if key0 in self.stack:
            return set(), set(), set()
        self.stack.add(key0)
        g = build_cfg(f)
        # forward must-write dataflow
        IN: Dict[int, Set[str]] = {}
        rf: Set[str] = set()
        maywrite: Set[str] = set()
        order = list(range(len(g.nodes)))
        ALL = None
        IN[g.entry] = set()
        changed = True
        node_rw = {}
        extw: Dict[int, Set[str]] = {}
        for n in g.nodes:
            pay = n.payload() if n.kind != "with" else None
            if n.kind == "with":
                pay = ast.Tuple(elts=[it.context_expr for it in n.stmt.items], ctx=ast.Load())
            if pay is None:
                node_rw[n.id] = (set(), set(), [])
                continue
            # for compound statements the payload of the CFG node is only the header expression
            target = n.expr if n.kind in ("if", "while", "for") and n.expr is not None else pay
            r, w = accesses(target, mod.parents)
            calls = []
            for c in calls_in(target):
                is_super = isinstance(c.func, ast.Attribute) and isinstance(c.func.value, ast.Call) and norm(c.func.value.func) == "super"
                if is_super:
                    # the next definition after the class that defines the current function
                    defining = q.split(".")[0]
                    seen_def = False
                    for m_, c_ in self.repo.mro(ctx[0], ctx[1]):
                        if seen_def:
                            hit_ = [st_ for st_ in c_.body if isinstance(st_, ast.FunctionDef) and st_.name == c.func.attr]
                            if hit_:
                                calls.append((m_, f"{c_.name}.{c.func.attr}", hit_[0]))
                                break
                        if c_.name == defining:
                            seen_def = True
                    continue
                if isinstance(c.func, ast.Attribute) and isinstance(c.func.value, ast.Name) and c.func.value.id == "self":
                    res = self.resolve(ctx, c.func.attr)
                    if res:
                        calls.append(res[0])
                    else:
                        er, ew = self.external(c)
                        r |= er
                        extw.setdefault(n.id, set()).update(ew)
            node_rw[n.id] = (r, w, calls)
        OUT: Dict[int, Set[str]] = {}
        it = 0
        while changed and it < 60:
            changed = False
            it += 1
            for n in g.nodes:
                if n.id == g.entry:
                    cur = set()
                else:
                    cur = None
                    for p, _lab in g.pred[n.id]:
                        if p in OUT:
                            cur = set(OUT[p]) if cur is None else (cur & OUT[p])
                    if cur is None:
                        continue          # not reached yet
                r, w, calls = node_rw[n.id]
                st = set(cur)
                rf |= (r - st)
                maywrite |= extw.get(n.id, set())
                if calls:
                    sums = [self.summary(m2, q2, f2, ctx) for m2, q2, f2 in calls]
                    for rf2, mw2, may2 in sums:
                        rf |= (rf2 - st)
                        maywrite |= may2
                    st |= set.intersection(*[s_[1] for s_ in sums])
                st |= w
                maywrite |= w
                if OUT.get(n.id) != st:
                    OUT[n.id] = st
                    changed = True
        mw = OUT.get(g.exit_return, set())
        self.stack.discard(key0)
        self.memo[key0] = (rf, set(mw), maywrite)
        return self.memo[key0]

    def loop_carried(self, cmod, cls_name, entry="_do_integrator_step"):
        ctx = (cmod, cmod.classes[cls_name])
        res = self.resolve(ctx, entry)
        if not res:
            return None
        m, q, f = res[0]
        rf, mw, may = self.summary(m, q, f, ctx)
        return sorted(rf & may), rf, mw, may


    # ------------------------------------------------------------------ checkpoint coverage helpers
    def chain(self, ctx, entry_names):
        """functions reachable from the named methods of the concrete class through self.<m>() / Class.<m>() calls inside the MD modules"""
        out = []
        seen = set()
        todo = list(entry_names)
        while todo:
            nm = todo.pop()
            if nm in seen:
                continue
            seen.add(nm)
            # every definition of the name along the MRO (so that super().<name>() chains are covered)
            res = []
            for m_, c_ in self.repo.mro(ctx[0], ctx[1]):
                for st_ in c_.body:
                    if isinstance(st_, ast.FunctionDef) and st_.name == nm:
                        res.append((m_, f"{c_.name}.{st_.name}", st_))
            for m, q, f in res:
                out.append((m, q, f))
                for c in calls_in(f):
                    if isinstance(c.func, ast.Attribute) and isinstance(c.func.value, ast.Name) and (c.func.value.id in ("self", "cls") or c.func.value.id[:1].isupper()):
                        todo.append(c.func.attr)
                    elif isinstance(c.func, ast.Attribute) and isinstance(c.func.value, ast.Call) and norm(c.func.value.func) == "super":
                        todo.append(c.func.attr)
        return out

    @staticmethod
    def constructor_attrs(funcs):
        """attributes re-established by constructing a fresh Molecule from checkpointed data"""
        out = set()
        for m, q, f in funcs:
            for c in calls_in(f):
                if norm(c.func).split(".")[-1] == "Molecule":
                    out |= {"coordinates", "species"}
        return out

    @staticmethod
    def source_attrs(funcs):
        """attribute names read from self / molecule (incl. getattr(obj, "name", ...)) in the given functions"""
        out = set()
        for m, q, f in funcs:
            for x in ast.walk(f):
                if isinstance(x, ast.Attribute) and isinstance(x.value, ast.Name) and x.value.id in OBJ and isinstance(x.ctx, ast.Load):
                    out.add(x.attr)
                if isinstance(x, ast.Call) and isinstance(x.func, ast.Name) and x.func.id == "getattr" and len(x.args) >= 2 and isinstance(x.args[1], ast.Constant):
                    out.add(str(x.args[1].value))
        return out

    @staticmethod
    def stored_attrs(funcs):
        """attribute names assigned on any object (obj.X = ..., setattr(obj, "X", ...)) in the given functions"""
        out = set()
        for m, q, f in funcs:
            for x in ast.walk(f):
                if isinstance(x, ast.Attribute) and isinstance(x.ctx, ast.Store):
                    out.add(x.attr)
                if isinstance(x, ast.Call) and isinstance(x.func, ast.Name) and x.func.id == "setattr" and len(x.args) >= 2 and isinstance(x.args[1], ast.Constant):
                    out.add(str(x.args[1].value))
                if isinstance(x, ast.Call) and isinstance(x.func, ast.Name) and x.func.id == "setattr" and len(x.args) >= 2 and isinstance(x.args[1], ast.Name):
                    # setattr(obj, name, ...) inside `for name in ("a", "b")`
                    cur = m.parents.get(x)
                    while cur is not None and cur is not f:
                        if isinstance(cur, ast.For) and isinstance(cur.target, ast.Name) and cur.target.id == x.args[1].id and isinstance(cur.iter, (ast.Tuple, ast.List)):
                            out |= {str(e.value) for e in cur.iter.elts if isinstance(e, ast.Constant)}
                        cur = m.parents.get(cur)
        return out

    @staticmethod
    def derived_attrs(funcs):
        """attribute names assigned from an expression that (through local definitions) depends on the molecule's state:
        these are *recomputed* on initialize(), as opposed to being reset to a default"""
        out = set()
        for m, q, f in funcs:
            defs = {}
            for st in ast.walk(f):
                if isinstance(st, ast.Assign) and len(st.targets) == 1 and isinstance(st.targets[0], ast.Name):
                    defs.setdefault(st.targets[0].id, []).append(st.value)

            STATIC = {"nmol", "molsize", "species", "const", "mass", "mass_inverse", "num_atoms", "device", "dtype", "shape", "Z", "nocc", "norb", "nHeavy", "nHydro"}
            parents = m.parents

            def dep(e, depth=0, seen=None):
                seen = set() if seen is None else seen
                for x in ast.walk(e):
                    if isinstance(x, ast.Name):
                        if x.id in ("molecule", "mol"):
                            par = parents.get(x)
                            if isinstance(par, ast.Attribute) and par.value is x:
                                if par.attr in STATIC:
                                    continue
                                pp = parents.get(par)
                                if isinstance(pp, ast.Attribute) and pp.attr in ("device", "dtype", "shape", "ndim"):
                                    continue
                            else:
                                continue      # the molecule object passed along is not a value dependence
                            return True
                        if x.id in defs and x.id not in seen and depth < 6:
                            seen.add(x.id)
                            if any(dep(v, depth + 1, seen) for v in defs[x.id]):
                                return True
                return False
            for st in ast.walk(f):
                if isinstance(st, ast.Assign):
                    for t in st.targets:
                        base = t
                        while isinstance(base, ast.Subscript):
                            base = base.value
                        if isinstance(base, ast.Attribute) and dep(st.value):
                            out.add(base.attr)
        return out
