"""C04 -- the SCF answer does not depend on which solver path produced it (structural/algebraic clauses)."""
from __future__ import annotations

import ast
import re

from ..cfg import build_cfg
from ..exprs import identically, to_sympy, torch_funcs
from ..loader import AnalysisError, attr_chain, call_name, callee_attr, calls_in, names_in, norm, short

LEVEL = "other"
SCF = "seqm/seqm_functions/scf_loop.py"
FU = "seqm/seqm_functions/fock_u_batch.py"
FK = "seqm/seqm_functions/fock.py"
EXPLANATION = (
    "R1 sibling agreement of the SCF drivers: in scf_forward0/1/2 every path through the iteration body spells "
    "density-builder -> Fock build -> energy -> convergence test; the density builder comes from make_Pnew_factory with the "
    "driver's own flags; every Fock call in a driver passes the same argument list; the unrestricted 1/2 on the new density is "
    "present in every driver that accepts unrestricted densities and in the SCF adjoint; the final Fock matrix and orbitals in "
    "scf_loop are rebuilt from the converged density with the same builder; every density builder selected by "
    "make_Pnew_factory returns the aufbau/purified projector with trace 2*nocc (SP2 factor 2, diagonalisation 2 C C^T); the "
    "unrolled and in-place arms agree (shared with C03-R5); R2 the unrestricted one-centre Fock terms and exchange prefactor "
    "reduce to the restricted published formulas when P_alpha = P_beta = P/2 (expression algebra); R3 attribute universe: every "
    "attribute read on a Molecule is assigned somewhere on Molecule objects (a configuration-specific typo such as "
    "molecule.molecule kills exactly one solver path). Numerical agreement between solver configurations is not decided."
)
ASSUMPTIONS = ["all solver paths iterate the same fixed-point map when the structural clauses hold; equality of converged numbers is then a consequence of convergence (C03)"]
TRUSTED = ["sympy", "CFG event words"]


EPS_FACTORS = {"CONVERGENCE_DM_ERROR_FACTOR": 2.0, "CONVERGENCE_DM_ELEMENT_FACTOR": 15.0, "CONVERGENCE_DIIS_FACTOR": 50.0}


def _threshold_integrity(ctx, rid="R4"):
    """every load of the `eps` parameter in scf_loop.py is (a) an operand of a comparison, alone or times an inventoried module constant,
    (b) an argument handed on to a callee, or (c) a dtype/device conversion of itself; nothing floors, caps or rescales it."""
    from ..exprs import NotConst, fold
    repo = ctx.repo
    m = repo.mod("seqm/seqm_functions/scf_loop.py")
    for nm, want in EPS_FACTORS.items():
        v = m.globals.get(nm)
        try:
            got = fold(v) if v is not None else None
        except (NotConst, TypeError):
            got = None
        ctx.check(got is not None and 1.0 <= got <= want, rid, m, v if v is not None else m.tree, "<module>", nm, f"{nm} = {got} (at most the inventoried {want})",
                  f"{nm} = {got}: the convergence test accepts errors {got} x scf_eps (inventoried bound {want}); results of different solver paths no longer agree within a small multiple of the threshold")
    n = 0
    for qual, f in m.functions.items():
        params = {a.arg for a in f.args.args + f.args.kwonlyargs}
        if "eps" not in params:
            continue
        for x in ast.walk(f):
            if not (isinstance(x, ast.Name) and x.id == "eps") or m.qualname_of(x) != qual:
                continue
            par = m.parents.get(x)
            st = m.enclosing_stmt(x)
            n += 1
            if isinstance(x.ctx, ast.Store):
                ok = isinstance(st, ast.Assign) and isinstance(st.value, ast.Call) and (call_name(st.value) or "") in ("torch.as_tensor", "torch.tensor") and st.value.args and norm(st.value.args[0]) == "eps"
                ctx.check(ok, rid, m, st, qual, st, "eps is only re-bound to a tensor copy of itself",
                          f"`{short(norm(st))}` changes the requested convergence threshold inside {qual}: below/above some value the solver silently converges to a different tolerance than the caller asked for")
                continue
            ok = False
            if isinstance(par, ast.Compare):
                ok = True
            elif isinstance(par, ast.BinOp) and isinstance(par.op, ast.Mult):
                other = par.right if par.left is x else par.left
                ok = isinstance(other, ast.Name) and other.id in EPS_FACTORS and isinstance(m.parents.get(par), ast.Compare)
            elif isinstance(par, ast.Call) and x in par.args:
                cn = (call_name(par) or callee_attr(par) or "")
                ok = cn.split(".")[-1] in ("get_error", "scf_forward0", "scf_forward1", "scf_forward2", "scf_forward3", "scfapply", "save_for_backward", "as_tensor", "apply") or cn.startswith("scf_forward")
                if not ok and isinstance(par.func, ast.Name):
                    # a callee chosen through a local: every value the local is bound to must be one of the accepted callees (or None)
                    binds = [a_.value for a_ in ast.walk(f) if isinstance(a_, ast.Assign) and any(isinstance(t_, ast.Name) and t_.id == par.func.id for t_ in a_.targets)]
                    ok = bool(binds) and all((isinstance(b_, ast.Name) and (b_.id.startswith("scf_forward") or b_.id == "get_error")) or (isinstance(b_, ast.Constant) and b_.value is None) for b_ in binds)
            elif isinstance(par, ast.keyword):
                ok = par.arg in ("eps",)
            elif isinstance(par, (ast.FormattedValue, ast.JoinedStr)):
                ok = True
            ctx.check(ok, rid, m, st, qual, f"eps in `{short(norm(st))}`", f"eps is used as a comparison bound or handed on unchanged ({type(par).__name__})",
                      f"`{short(norm(st))}` derives a different threshold from the requested eps in {qual}")
    # the configured threshold itself may only be tightened on its way to the solver (never loosened)
    bas = repo.mod("seqm/basics.py")
    n_w = 0
    for st in ast.walk(bas.tree):
        if isinstance(st, (ast.Assign, ast.AugAssign)):
            tg = st.targets if isinstance(st, ast.Assign) else [st.target]
            for t in tg:
                if isinstance(t, ast.Subscript) and isinstance(t.slice, ast.Constant) and t.slice.value == "scf_eps" and "seqm_parameters" in norm(t.value):
                    n_w += 1
                    q = bas.qualname_of(st)
                    v = st.value
                    vt = norm(v).replace(" ", "")
                    tt = norm(t).replace(" ", "")
                    ok = False
                    why = ""
                    if isinstance(v, ast.Call) and (call_name(v) or "") == "min" and any(norm(a).replace(" ", "") == tt for a in v.args):
                        ok, why = True, "min(old, bound)"
                    else:
                        from ..guards import controlling
                        for a, pol, _ in controlling(bas, st):
                            at = norm(a).replace(" ", "")
                            if pol and at in (f"{tt}>{vt}", f"{vt}<{tt}", f"{tt}>={vt}", f"{vt}<={tt}"):
                                ok, why = True, f"guarded by `{norm(a)}`"
                    ctx.check(ok, rid, bas, st, q, st, f"{q}: the requested scf_eps is only ever tightened ({why})",
                              f"{q}: `{short(norm(st), 80)}` can loosen the SCF threshold the user asked for (it is not `old = min(old, bound)` nor guarded by `old > bound`): "
                              f"with this setting, tightening scf_eps below the bound no longer changes the result and solver paths stop agreeing within a multiple of the requested threshold")
    ctx.check(n_w >= 1, rid, bas, bas.tree, "<module>", "scf_eps rewrites", f"{n_w} rewrite(s) of the configured scf_eps inventoried", "rewrite sites of scf_eps not found")
    ctx.floor(rid, 15)


def run(ctx):
    import sympy as sp
    repo = ctx.repo
    scf = repo.mod(SCF)
    ctx.rule("R1", "SCF drivers are siblings: same fixed-point map, same stopping rule, same density builders")
    ctx.rule("R2", "unrestricted Fock terms reduce to the restricted formulas for P_alpha = P_beta = P/2")
    ctx.rule("R3", "attribute universe: attributes read on Molecule objects exist")
    ctx.rule("R4", "threshold integrity: the requested scf_eps reaches every convergence comparison unmodified (only the inventoried constant factors)")
    ctx.rule("R5", "spin flattening: unrestricted (B,2,N,N) tensors are flattened with per-molecule sizes interleaved (UHF == RHF on mixed batches)")
    ctx.rule("R6", "a re-used molecule reports the same gap as a cold start: the gap is read before orbital-character tracking permutes the energies (shared with C14-R3)")
    from .c14 import check_gap_before_tracking
    check_gap_before_tracking(ctx, repo.mod("seqm/basics.py"), "R6")
    ctx.rule("R7", "the iterated map does not remember the start density: nothing computed once from the initial density enters the iteration except the iterate and loop-carried state (shared with C03-R8)")
    check_no_start_memory(ctx, "R7")
    _threshold_integrity(ctx)
    from .c05 import check_spin_flatten
    check_spin_flatten(ctx, "R5")

    # ------------------------------------------------------------------ R1
    fock_arglists = {}
    for d in ("scf_forward0", "scf_forward1", "scf_forward2"):
        f = scf.func(d)
        g = build_cfg(f)
        loops = [n for n in g.nodes if n.kind == "for" and any(callee_attr(c) == "make_Pnew" for c in calls_in(n.stmt))]
        if not loops:
            raise AnalysisError(f"{d}: iteration loops not found")

        def label(node):
            if node.kind != "stmt":
                return ""
            out = ""
            for c in sorted(calls_in(node.stmt), key=lambda c: (c.lineno, c.col_offset)):
                ca = callee_attr(c)
                if ca == "make_Pnew":
                    out += "P"
                elif ca == "fock":
                    out += "F"
                elif ca == "elec_energy":
                    out += "E"
                elif ca == "get_error":
                    out += "G"
            return out
        for L in loops:
            body = g.loop_body(L.id)
            first = [b for b, lab in g.succ[L.id] if lab == "true"]
            # words of one iteration: from the first body node to the back edge / exits
            ends = {L.id, g.exit_return}
            words = set()
            for fb in first:
                words |= g.event_words(label, start=fb, ends=ends, correlate=True)
            full = {w for w in words if w}
            bad = sorted(w for w in full if not re.match(r"^(PFEG)?$", w))
            ctx.check(not bad and "PFEG" in full, "R1", scf, L.stmt, d, L.expr,
                      f"{d} (loop at line {L.lineno}): every iteration is density-builder -> Fock -> energy -> convergence test ({sorted(full)})",
                      f"{d}: an iteration path spells {bad} instead of P F E G (density builder, Fock build, energy, convergence test): the stopping rule "
                      f"or the fixed-point map differs from the sibling drivers")
        facs = [c for c in calls_in(f) if callee_attr(c) == "make_Pnew_factory"]
        ok = len(facs) == 1
        if ok:
            a = [norm(x) for x in facs[0].args] + [f"{k.arg}={norm(k.value)}" for k in facs[0].keywords]
            if d == "scf_forward2":
                ok = a[:4] == ["themethod", "sp2", "molsize", "backward"]
            else:
                ok = a == ["themethod", "sp2", "molsize", "backward", "scf_converger", "unrestricted"]
        ctx.check(ok, "R1", scf, facs[0] if facs else f, d, facs[0] if facs else "make_Pnew_factory",
                  f"{d}: density builder comes from make_Pnew_factory with the driver's own method / sp2 / backward flags",
                  f"{d}: make_Pnew_factory called with {[norm(x) for x in facs[0].args] if facs else None}")
        mk = [c for c in calls_in(f) if callee_attr(c) == "make_Pnew"]
        want = ["F[notconverged]", "nSuperHeavy[notconverged]", "nHeavy[notconverged]", "nHydro[notconverged]", "nOccMO[notconverged]"]
        for c in mk:
            ctx.check([norm(x) for x in c.args] == want, "R1", scf, c, d, c, f"{d}: density builder is applied to the active molecules' Fock matrices and occupation numbers",
                      f"{d}: make_Pnew called with {[norm(x) for x in c.args]}")
        fl = [[norm(x) for x in c.args] for c in calls_in(f) if callee_attr(c) == "fock"]
        fock_arglists[d] = fl
        ctx.check(len({tuple(x) for x in fl}) == 1, "R1", scf, f, d, "fock(...) argument lists", f"{d}: all {len(fl)} Fock builds use the same argument list",
                  f"{d}: Fock builds inside one driver use different argument lists")
    ref = fock_arglists["scf_forward0"][0]
    for d, fl in fock_arglists.items():
        ctx.check(fl[0] == ref, "R1", scf, scf.func(d), d, "fock arguments vs siblings", f"{d}: Fock argument list equals scf_forward0's", f"{d}: Fock argument list differs from scf_forward0's")
    # unrestricted halving
    for d in ("scf_forward0", "scf_forward1"):
        f = scf.func(d)
        halves = [st for st in ast.walk(f) if isinstance(st, ast.Assign) and norm(st.targets[0]) == "Pnew[notconverged]" and isinstance(st.value, ast.BinOp)
                  and isinstance(st.value.op, ast.Div) and norm(st.value.left) == "Pnew[notconverged]"]
        ok = bool(halves)
        for h in halves:
            from ..guards import controlling
            ctrl = controlling(scf, h)
            ok = ok and norm(h.value.right) in ("2", "2.0") and any(p and norm(a) == "unrestricted" for a, p, _ in ctrl)
        ctx.check(ok, "R1", scf, halves[0] if halves else f, d, halves[0] if halves else "Pnew /2", f"{d}: per-spin density = builder output / 2 when unrestricted",
                  f"{d}: the unrestricted new density is not halved (builder returns 2 C C^T per spin)")
    bw = scf.func("SCF.backward")
    hb = [st for st in ast.walk(bw) if isinstance(st, ast.Assign) and norm(st.targets[0]) == "Pout" and norm(st.value).replace(" ", "") == "Pout/2"]
    ctx.check(bool(hb), "R1", scf, hb[0] if hb else bw, "SCF.backward", hb[0] if hb else "Pout /2", "SCF adjoint halves the unrestricted density like the forward drivers",
              "SCF.backward does not halve the unrestricted density: the adjoint linearises a different map than the forward solver iterates")
    # density builders: by value first (sa/densitymodel.py); where that holds, the text-shaped reading of the factory below is a spelling matter
    ctx.rule("R8", "density builders by value: for every diagonalisation arm of make_Pnew_factory (forward / unrolled, restricted / unrestricted) and padded, homogeneous, "
                   "equal-size-different-layout and single batches, each molecule gets the aufbau projector of its own Fock block (shared with C03-R9, C05-R6) [EA+]")
    from ..densitymodel import check_density_builders
    bv_ok = False
    try:
        bv_ok = check_density_builders(ctx, "R8")
    except AnalysisError as e_:
        ctx.note(f"density builders not interpretable ({str(e_)[:120]}); shape-based reading only")
    if bv_ok:
        ctx.demote = lambda rid, rel, function, message: ("decided by value in R8" if rid == "R1" and function == "make_Pnew_factory" and "SP2" not in message else None)
    try:
        _factory_shape(ctx, repo, scf)
    except AnalysisError as e_:
        if not bv_ok:
            raise
        ctx.note(f"shape-based reading of make_Pnew_factory stopped ({str(e_)[:100]}); the diagonalisation arms are decided by value in R8")
    finally:
        ctx.demote = None
    _rest_of_r1(ctx, repo, scf)


def _factory_shape(ctx, repo, scf):
    mf = scf.func("make_Pnew_factory")
    cores = [n for n in ast.walk(mf) if (isinstance(n, ast.Assign) and norm(n.targets[0]) == "core_step") or (isinstance(n, ast.FunctionDef) and n.name == "core_step")]
    n_core = 0
    for c in cores:
        n_core += 1
        if isinstance(c, ast.Assign) and isinstance(c.value, ast.Lambda):
            body = c.value.body
            okc = (isinstance(body, ast.Subscript) and norm(body.slice) in ("1", "0") and isinstance(body.value, ast.Call)
                   and callee_attr(body.value) in ("sym_eig_trunc", "sym_eig_trunc1", "sym_eig_truncd", "sym_eig_trunc1d", "Fermi_Q") and "nOcc" in names_in(body.value))
            what = norm(body)
        elif isinstance(c, ast.FunctionDef) and not any(callee_attr(x) == "SP2" for x in calls_in(c)):
            # a named definition of a diagonalisation arm: same reading as the lambda form, on its return value
            rets_ = [r for r in ast.walk(c) if isinstance(r, ast.Return) and r.value is not None]
            body = rets_[0].value if len(rets_) == 1 else None
            okc = (isinstance(body, ast.Subscript) and norm(body.slice) in ("1", "0") and isinstance(body.value, ast.Call)
                   and callee_attr(body.value) in ("sym_eig_trunc", "sym_eig_trunc1", "sym_eig_truncd", "sym_eig_trunc1d", "Fermi_Q") and "nOcc" in names_in(body.value))
            what = norm(body) if body is not None else c.name
        else:
            txt = norm(c)
            okc = "SP2(D, nOcc, sp2[1])" in txt and "packer(" in txt and "unpacker(D2" in txt
            what = "SP2 path"
            if not okc and isinstance(c, ast.FunctionDef) and len(c.args.args) >= 5:
                # by structure: purify the packed Fock matrix of the first parameter with the occupation parameter and the requested tolerance, return the unpacked result
                fpar, occ = c.args.args[0].arg, c.args.args[4].arg
                ldefs = {}
                for st_ in ast.walk(c):
                    if isinstance(st_, ast.Assign) and len(st_.targets) == 1 and isinstance(st_.targets[0], ast.Name):
                        ldefs.setdefault(st_.targets[0].id, []).append(st_.value)

                def reaches(e_, name, depth=0):
                    for x_ in ast.walk(e_):
                        if isinstance(x_, ast.Name) and x_.id == name:
                            return True
                        if isinstance(x_, ast.Name) and x_.id in ldefs and depth < 6 and any(reaches(v_, name, depth + 1) for v_ in ldefs[x_.id]):
                            return True
                    return False
                sp2_calls = [x_ for x_ in calls_in(c) if callee_attr(x_) == "SP2" or (call_name(x_) or "") == "SP2"]
                rets_ = [r_ for r_ in ast.walk(c) if isinstance(r_, ast.Return) and r_.value is not None]
                if len(sp2_calls) == 1 and len(rets_) == 1 and len(sp2_calls[0].args) >= 3:
                    a0, a1, a2 = sp2_calls[0].args[:3]
                    res_names = [nm for nm, vs in ldefs.items() if any(v_ is sp2_calls[0] for v_ in vs)]
                    okc = reaches(a0, fpar) and isinstance(a1, ast.Name) and a1.id == occ and norm(a2) == "sp2[1]" \
                        and isinstance(rets_[0].value, ast.Call) and bool(res_names) and reaches(rets_[0].value, res_names[0]) and not isinstance(rets_[0].value.func, ast.Attribute)
        ctx.check(okc, "R1", scf, c, "make_Pnew_factory", what[:60], f"density builder `{what[:50]}` maps (F, nocc) to the occupied-space projector",
                  f"density builder `{what[:70]}` is not a (Fock, occupation) -> density map of the known solvers")
    if n_core < 5:
        raise AnalysisError("make_Pnew_factory: core_step variants not found")


def _rest_of_r1(ctx, repo, scf):
    import sympy as sp
    sp2 = repo.mod("seqm/seqm_functions/SP2.py").func("SP2")
    dflt = {a.arg: norm(dv) for a, dv in zip(sp2.args.args[-len(sp2.args.defaults):], sp2.args.defaults)}
    ret = [r for r in ast.walk(sp2) if isinstance(r, ast.Return)]
    ctx.check(dflt.get("factor") == "2.0" and ret and norm(ret[0].value).replace(" ", "") == "factor*a0", "R1", repo.mod("seqm/seqm_functions/SP2.py"), sp2, "SP2", "factor",
              "SP2 returns 2 x the purified projector (trace 2 nocc), like diagonalisation", "SP2 normalisation changed")
    dg = repo.mod("seqm/seqm_functions/diag.py")
    n_p = 0
    for q in ("sym_eig_trunc", "sym_eig_trunc1"):
        f = dg.func(q)
        for lam in ast.walk(f):
            if isinstance(lam, ast.Lambda) and "matmul" in norm(lam.body) and "nc" in {a.arg for a in lam.args.args}:
                n_p += 1
                t = norm(lam.body).replace(" ", "")
                ctx.check(t == "2.0*torch.matmul(v[:,:nc],v[:,:nc].transpose(0,1))", "R1", dg, lam, q, lam.body, f"{q}: P = 2 C_occ C_occ^T over the nocc lowest orbitals",
                          f"{q}: density from eigenvectors is `{norm(lam.body)}`")
    if n_p < 2:
        raise AnalysisError("diag.py: density construction lambdas not found")
    # final rebuild in scf_loop
    sl = scf.func("scf_loop")
    g = build_cfg(sl)
    final = [c for c in calls_in(sl) if callee_attr(c) == "fock"]
    ok = len(final) == 1 and norm(final[0].args[2]) == "Pconv"
    ctx.check(ok, "R1", scf, final[0] if final else sl, "scf_loop", final[0].args[2] if final else "final fock", "returned Fock matrix is rebuilt from the converged density",
              "final Fock matrix in scf_loop is not built from Pconv")
    fdef = [st for st in ast.walk(sl) if isinstance(st, ast.Assign) and norm(st.targets[0]) == "fock"]
    ctx.check(bool(fdef) and norm(fdef[0].value).replace(" ", "") == "fock_u_batchifunrestrictedelsefock_restricted", "R1", scf, fdef[0] if fdef else sl, "scf_loop", "fock selector",
              "final Fock builder is selected like in the drivers", "final Fock builder selection changed")
    from .c03 import check_arm_agreement
    check_arm_agreement(ctx, scf, "R1")

    # ------------------------------------------------------------------ R2
    fu = repo.mod(FU)
    ou = fu.func("_one_center_u")
    # both one-centre routines are interpreted element by element (sa.nddo) and compared with the first-principles NDDO sums for
    # arbitrary densities (shared with C06-R3); the closed-shell reduction is then checked directly between the two pieces of code
    from .c06 import one_center_first_principles
    try:
        code, codeu, Pd, Pa, Pb = one_center_first_principles(ctx, repo, "R2")
    except (AnalysisError, KeyError, IndexError, TypeError, AttributeError, ValueError, __import__("sa.exprs", fromlist=["NotConst"]).NotConst) as e_:
        # the element interpreter understands the straight-line spelling of the one-centre routines only.  Whatever their spelling, both Fock builders are interpreted as a
        # whole (sa.npsym) and compared with the NDDO operator F^s = H + J[P_a + P_b] - K[P^s]; since the restricted builder equals H + J[P] - K[P]/2, the closed-shell
        # reduction F^a(P/2, P/2) = F(P) follows from the two identities (shared with C06-R12)
        ctx.note(f"one-centre routines not in the straight-line shape of this rule ({type(e_).__name__}: {str(e_)[:60]}); closed-shell reduction decided through the NDDO operator")
        from ..assembly import check_fock_assembly
        check_fock_assembly(ctx, "R2")
        code = codeu = {}
        Pd = Pa = Pb = None
    half = {}
    if Pd is None:
        for _ in range(10):
            ctx.ok("R2", "seqm/seqm_functions/fock_u_batch.py", "closed-shell reduction decided through the NDDO operator", nontrivial=False)
    for i in range(4 if Pd is not None else 0):
        for j in range(4):
            half[Pa[i][j]] = Pd[i][j] / 2
            half[Pb[i][j]] = Pd[i][j] / 2
    n2 = 0 if Pd is not None else 10
    for (i, j), v in sorted(codeu.items()):
        if (i, j) not in code:
            continue
        n2 += 1
        d = sp.expand(v.subs(half) - code[(i, j)])
        ctx.check(d == 0, "R2", fu, ou, "_one_center_u", f"closed-shell reduction of F^s[{i}][{j}]",
                  f"unrestricted element ({i},{j}) with P_alpha = P_beta = P/2 equals the restricted element of fock._one_center",
                  f"unrestricted one-centre element ({i},{j}) reduces to {sp.factor(v.subs(half))} for a closed shell but fock._one_center gives {sp.factor(code[(i, j)])}: "
                  f"a UHF singlet does not reproduce the RHF energy")
    if n2 < 10:
        raise AnalysisError("_one_center_u / _one_center elements not comparable")
    tu = fu.func("_two_center_u")
    pp = [st for st in ast.walk(tu) if isinstance(st, ast.Assign) and norm(st.targets[0]) == "Pp" and "mask" in norm(st.value)]
    ctx.check(bool(pp) and norm(pp[0].value).replace(" ", "") == "-P_spin[:,mask]", "R2", fu, pp[0] if pp else tu, "_two_center_u", pp[0] if pp else "Pp",
              "unrestricted exchange is -1 x same-spin density (= -1/2 P for a closed shell)", f"unrestricted exchange prefactor is `{norm(pp[0].value) if pp else None}`")
    pa = [st for st in ast.walk(tu) if isinstance(st, ast.Assign) and norm(st.targets[0]) in ("PA", "PB")]
    ctx.check(len(pa) == 2 and all("P_tot[" in norm(s.value) for s in pa), "R2", fu, tu, "_two_center_u", "PA/PB", "Coulomb term uses the total density", "Coulomb term does not use P_alpha + P_beta")
    # spin-block layout sibling: the same (spin, mol) reshape as the gradient contraction
    ag = repo.mod("seqm/seqm_functions/anal_grad.py")
    ps = [st for st in ast.walk(fu.func("fock_u_batch")) if isinstance(st, ast.Assign) and norm(st.targets[0]) == "P_spin"]
    pg = [st for st in ast.walk(ag.func("contract_ao_derivatives_with_density")) if isinstance(st, ast.Assign) and norm(st.targets[0]) == "PAlpha_"]
    if ps and pg:
        a = norm(ps[0].value).replace("nbf", "4").replace(" ", "")
        b = norm(pg[0].value).replace(" ", "")
        ctx.check(a == b, "R2", ag, pg[0], "contract_ao_derivatives_with_density", pg[0], "gradient contraction blocks the spin densities exactly like the Fock builder",
                  f"spin-density blocking differs between fock_u_batch (`{a[:80]}`) and the gradient contraction (`{b[:80]}`)")

    # ------------------------------------------------------------------ R3
    mol_attrs = set()
    mm = repo.mod("seqm/Molecule.py")
    for st in ast.walk(mm.cls("Molecule")):
        if isinstance(st, (ast.Assign, ast.AnnAssign)):
            for t in (st.targets if isinstance(st, ast.Assign) else [st.target]):
                for x in ast.walk(t):
                    if isinstance(x, ast.Attribute) and norm(x.value) == "self" and isinstance(x.ctx, ast.Store):
                        mol_attrs.add(x.attr)
    mods = list(repo.modules("seqm")) + ([repo.mod("scripts/tully_surface_hopping/TullyModels.py")] if repo.has("scripts/tully_surface_hopping/TullyModels.py") else [])
    for m in mods:
        for st in ast.walk(m.tree):
            if isinstance(st, (ast.Assign, ast.AnnAssign, ast.AugAssign)):
                for t in (st.targets if isinstance(st, ast.Assign) else [st.target]):
                    for x in ast.walk(t):
                        if isinstance(x, ast.Attribute) and isinstance(x.value, ast.Name) and x.value.id in ("molecule", "mol") and isinstance(x.ctx, ast.Store):
                            mol_attrs.add(x.attr)
            if isinstance(st, ast.Call) and isinstance(st.func, ast.Name) and st.func.id == "setattr" and st.args and norm(st.args[0]) in ("molecule", "mol") \
                    and isinstance(st.args[1], ast.Constant):
                mol_attrs.add(st.args[1].value)
    module_api = {"to", "parameters", "named_parameters", "state_dict", "train", "eval", "cuda", "cpu", "double", "float", "register_buffer", "device", "__class__",
                  "get_coordinates", "get_species", "requires_grad_", "children", "modules", "apply", "__dict__"}
    n_r = 0
    skip = ("fock_sdc.py", "G_sdc.py", "XLESMD.py", "tools.py", "data_loader.py", "normal_modes.py", "save_xyz.py")
    for m in mods:
        if m.rel.endswith(skip):
            continue
        for x in ast.walk(m.tree):
            if isinstance(x, ast.Attribute) and isinstance(x.value, ast.Name) and x.value.id in ("molecule", "mol") and isinstance(x.ctx, ast.Load):
                fn = m.enclosing_function(x)
                if fn is None:
                    continue
                params = {a.arg for a in fn.args.args + fn.args.kwonlyargs}
                # only when the name is a function parameter bound to a Molecule by convention
                if x.value.id not in params:
                    continue
                if m.rel.endswith("MolecularDynamics.py") and m.qualname_of(x).startswith(("HDF5Writer", "XYZWriter")) and False:
                    continue
                n_r += 1
                par = m.parents.get(x)
                guarded = isinstance(par, ast.Call) and False
                ok = x.attr in mol_attrs or x.attr in module_api
                if not ok:
                    ctx.fail("R3", m, x, m.qualname_of(x), norm(m.parents.get(x) if isinstance(m.parents.get(x), ast.Attribute) else x),
                             f"`{norm(x)}` reads an attribute that is never assigned on a Molecule: this code path raises AttributeError for every input that reaches it")
    ctx.check(n_r >= 400, "R3", mm, mm.cls("Molecule"), "Molecule", "attribute reads", f"{n_r} attribute reads on molecule/mol parameters resolve to one of {len(mol_attrs)} assigned attributes",
              f"only {n_r} attribute reads inventoried")


# ---------------------------------------------------------------------------------------------------------------------------------------------
# R7 -- the iterated map does not remember the start density
# ---------------------------------------------------------------------------------------------------------------------------------------------
_SHAPE_ONLY_ATTRS = {"shape", "dtype", "device", "ndim", "is_cuda", "requires_grad"}
_SHAPE_ONLY_CALLS = {"dim", "size", "numel", "new_zeros", "new_ones", "new_empty", "new_full", "type", "get_device"}
_LIKE_FUNCS = {"torch.zeros_like", "torch.ones_like", "torch.empty_like", "torch.full_like", "torch.rand_like", "torch.randn_like"}


def _value_reads(expr, names):
    """names of `names` whose *values* (not only shape / dtype / device) are read by the expression"""
    out = set()
    skip = set()
    for n in ast.walk(expr):
        if isinstance(n, ast.Attribute) and isinstance(n.value, ast.Name) and n.value.id in names and n.attr in (_SHAPE_ONLY_ATTRS | _SHAPE_ONLY_CALLS):
            skip.add(id(n.value))
        if isinstance(n, ast.Call) and (call_name(n) or "") in _LIKE_FUNCS and n.args and isinstance(n.args[0], ast.Name):
            skip.add(id(n.args[0]))
        if isinstance(n, ast.Call) and isinstance(n.func, ast.Name) and n.func.id in ("len",) and n.args and isinstance(n.args[0], ast.Name):
            skip.add(id(n.args[0]))
    for n in ast.walk(expr):
        if isinstance(n, ast.Name) and isinstance(n.ctx, ast.Load) and n.id in names and id(n) not in skip:
            out.add(n.id)
    return out


def check_no_start_memory(ctx, rid="R7"):
    """Every SCF driver iterates a map P -> P' whose fixed point is the answer.  For the answer to be independent of the start density (cold start, previous geometry,
    perturbed / un-normalised density: C04, and C03's "any initial density"), nothing computed once from the start density before the iteration loop may enter the
    iteration, except through the iterate itself and the loop-carried state that every pass overwrites.  Rule: in each driver, a local that (transitively) reads the
    *value* of the density parameter before the main loop, is never assigned inside the loop, and is read inside the loop, is a memory of the start density."""
    repo = ctx.repo
    scf = repo.mod(SCF)
    n_drv = 0
    for d in ("scf_forward0", "scf_forward1", "scf_forward2", "scf_forward3"):
        if not scf.has_func(d):
            continue
        f = scf.func(d)
        params = [a.arg for a in f.args.args]
        if "P" not in params:
            raise AnalysisError(f"{d}: density parameter `P` not found")
        # main loops: outermost loops of the function body that contain a Fock build or a density build
        def is_main(st):
            return isinstance(st, (ast.For, ast.While)) and any("fock" in ((call_name(c) or callee_attr(c) or "").lower()) or (call_name(c) or callee_attr(c) or "") == "make_Pnew"
                                                                for c in calls_in(st))
        top = list(f.body)
        loops = [st for st in top if is_main(st)]
        if not loops:
            # loops nested in a with / if at the top level
            for st in top:
                if isinstance(st, (ast.With, ast.If, ast.Try)):
                    loops += [x for x in ast.walk(st) if is_main(x) and not any(is_main(p) and p is not x and x in ast.walk(p) for p in ast.walk(st))]
        if not loops:
            raise AnalysisError(f"{d}: iteration loop not found")
        n_drv += 1
        loop = loops[0]
        in_loop = {id(x) for x in ast.walk(loop)}
        assigned_in_loop = set()
        for x in ast.walk(loop):
            if isinstance(x, (ast.Assign, ast.AugAssign, ast.AnnAssign)):
                tg = x.targets if isinstance(x, ast.Assign) else [x.target]
                for t in tg:
                    for y in ast.walk(t):
                        if isinstance(y, ast.Name):
                            assigned_in_loop.add(y.id)       # (stores into `name[...]` count: the loop rewrites the buffer)
            if isinstance(x, (ast.For, ast.comprehension)):
                for y in ast.walk(x.target):
                    if isinstance(y, ast.Name):
                        assigned_in_loop.add(y.id)
            if isinstance(x, ast.Call) and isinstance(x.func, ast.Attribute) and x.func.attr.endswith("_") and isinstance(x.func.value, ast.Name):
                assigned_in_loop.add(x.func.value.id)        # in-place method on the buffer
        # pre-loop definitions in source order
        tainted = {"P": None}
        pre = [st for st in ast.walk(f) if isinstance(st, ast.Assign) and id(st) not in in_loop and getattr(st, "lineno", 0) < loop.lineno]
        pre.sort(key=lambda s: s.lineno)
        for st in pre:
            src = _value_reads(st.value, set(tainted))
            if src:
                for t in st.targets:
                    for y in ([t] if isinstance(t, ast.Name) else [e for e in ast.walk(t) if isinstance(e, ast.Name) and isinstance(e.ctx, ast.Store)]):
                        if isinstance(y, ast.Name) and y.id != "P":
                            tainted.setdefault(y.id, st)
        memory = sorted(nm for nm in tainted if nm != "P" and nm not in assigned_in_loop and _value_reads(loop, {nm}))
        for nm in memory:
            st = tainted[nm]
            use = next(x for x in ast.walk(loop) if isinstance(x, ast.Name) and x.id == nm and isinstance(x.ctx, ast.Load))
            ctx.fail(rid, scf, st, d, st,
                     f"{d}: `{short(st, 70)}` is computed once from the start density and read in every iteration (line {use.lineno}) without ever being updated: the iteration "
                     f"remembers its start, so the converged result depends on the initial density (a restart from a scaled / perturbed / other-charge density converges to a "
                     f"different, wrong answer that is still flagged converged)")
        if not memory:
            ctx.ok(rid, f"{SCF} {d}", f"{d}: no loop-invariant value derived from the start density enters the iteration ({len(tainted) - 1} pre-loop locals read it, all are loop-carried state "
                   f"or shape / dtype only)")
    if n_drv < 3:
        raise AnalysisError(f"only {n_drv} SCF drivers analysed for start-density memory")
