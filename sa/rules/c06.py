"""C06 -- energies equal the published NDDO model evaluated on the shipped parameters (algebraic clauses)."""
from __future__ import annotations

import ast

from ..exprs import NotConst, fold, identically, to_sympy, torch_funcs
from ..linearity import A, H, Linearity
from ..loader import AnalysisError, attr_chain, call_name, callee_attr, calls_in, names_in, norm, short

LEVEL = "other"
FK = "seqm/seqm_functions/fock.py"
FU = "seqm/seqm_functions/fock_u_batch.py"
GX = "seqm/seqm_functions/G_XL_LR.py"
EN = "seqm/seqm_functions/energy.py"
EXPLANATION = (
    "R1 linearity of the two-electron operator by abstract interpretation over the lattice {zero, constant, homogeneous-linear, "
    "affine, other}: fock and fock_u_batch are affine in the density, the response operator G is homogeneous linear; R2 every "
    "literal packing table in the package (pair-index tables, Coulomb weights, triangular index lists, scale matrix) is folded and "
    "compared with its defining formula (ind[i][j] = tri(max)+min; weight 1 on diagonal pairs else 2) - the permutational symmetry "
    "(mu nu|la si) = (nu mu|la si) = (mu nu|si la) of the packed integrals; R3 the one-centre two-electron terms extracted "
    "symbolically from fock._one_center and both arms of G equal the published NDDO formulas (Dewar-Thiel / MOPAC fock1), an "
    "oracle independent of the repository; R4 core-core special-case predicates of the PM6-family branch and the number of Gaussian "
    "terms per method equal the specification table; R5 the isolated-atom energy is the inner product of the seven parameters with "
    "the seven matching coefficient tables; R6 name/position agreement at every call site of the long positional interfaces and "
    "identical signatures of the interchangeable Fock builders. Slater overlaps, multipole two-centre integrals and the CSV "
    "parameter contents need a numerical oracle and are not decided."
)
ASSUMPTIONS = ["published one-centre formulas as embedded (MOPAC fock1)", "packed order of atomic-orbital pairs is lower-triangular row-major"]
TRUSTED = ["sympy", "sa.linearity lattice"]

ALIAS = {"g_ss": "gss", "g_pp": "gpp", "g_sp": "gsp", "g_p2": "gp2", "h_sp": "hsp", "zeta_s": "zetas", "zeta_p": "zetap", "zeta_d": "zetad",
         "U_ss": "uss", "U_pp": "upp"}


def tri(n):
    return n * (n + 1) // 2


def run(ctx):
    import sympy as sp
    repo = ctx.repo
    fk, fu, gx, en = repo.mod(FK), repo.mod(FU), repo.mod(GX), repo.mod(EN)
    ctx.rule("R1", "two-electron operator is affine (Fock builders) / homogeneous linear (response operator G) in the density")
    ctx.rule("R2", "literal packing tables equal their defining formulas (Coulomb permutational symmetry)")
    ctx.rule("R3", "one-centre two-electron terms equal the published NDDO formulas")
    ctx.rule("R4", "core-core special-case predicates (PM6 family) and Gaussian term counts equal the specification")
    ctx.rule("R5", "isolated-atom energy pairs each parameter with its own coefficient table")
    ctx.rule("R6", "name/position agreement on long positional interfaces; interchangeable Fock builders have identical signatures")
    ctx.rule("R7", "block reshapes keep axis meaning: every reshape/transpose chain between (mol[,spin],N,N) matrices and (pair,orb,orb) blocks is order-consistent")
    ctx.rule("R8", "integral pipeline hygiene: no pure tensor result is discarded; the h_pp floor of 0.1 eV feeds rho_2")
    ctx.rule("R9", "local-frame two-centre integrals equal the Dewar-Thiel point-charge multipole model (first-principles oracle, all 22 + 4 + 1 elements); core-electron elements select the right integrals")
    ctx.rule("R10", "core-core repulsion has the published functional form for MNDO / AM1 / PM3 (X-H exception for N-H and O-H, Gaussian corrections divided by R)")
    ctx.rule("R11", "molecular-frame two-electron integrals are the tensor transform of the local-frame ones (shared with C02-R6)")
    ctx.rule("R12", "Fock builders (RHF and UHF, sp and spd basis) equal the NDDO Fock operator on a padded symbolic batch (abstract interpretation of the source, sa/npsym.py)")
    ctx.rule("R13", "core Hamiltonian assembly: U on the diagonal, partners' core-electron attraction on diagonal blocks, 1/2 (beta_A + beta_B) S on pair blocks")
    from ..assembly import check_fock_assembly, check_hcore_assembly
    check_fock_assembly(ctx, "R12")
    check_hcore_assembly(ctx, "R13")
    from .c02 import check_integral_rotation
    check_integral_rotation(ctx, "R11")
    check_local_frame_integrals(ctx, "R9")
    check_block_reshapes(ctx, "R7")
    check_pipeline_hygiene(ctx, "R8")

    # ------------------------------------------------------------------ R1
    c_f = Linearity(fk).func(fk.func("fock"), {"P0": H})
    c_u = Linearity(fu, extra_modules=[fk]).func(fu.func("fock_u_batch"), {"P0": H})
    c_g = Linearity(gx).func(gx.func("G"), {"P0": H})
    ctx.check(c_f == A, "R1", fk, fk.func("fock"), "fock", "F(P)", "fock(P) = Hcore + G(P): affine in the density", f"fock is classified `{c_f}` in the density (expected affine): a non-linear or P-independent term entered the Fock build")
    ctx.check(c_u == A, "R1", fu, fu.func("fock_u_batch"), "fock_u_batch", "F(P)", "fock_u_batch(P) is affine in the spin densities", f"fock_u_batch is classified `{c_u}` in the density")
    ctx.check(c_g == H, "R1", gx, gx.func("G"), "G", "G(dP)", "response operator G(dP) is homogeneous linear (no Hcore / constant term)",
              f"G is classified `{c_g}` in its density argument (expected homogeneous linear): the Krylov / response kernel is not a linear operator")

    # ------------------------------------------------------------------ R2
    n_tab = 0
    for m in repo.modules("seqm"):
        if m.rel.endswith(("fock_sdc.py", "G_sdc.py", "fock_u.py")) and False:
            continue
        for n in ast.walk(m.tree):
            val = None
            if isinstance(n, ast.Call) and (call_name(n) or "") in ("torch.tensor", "torch.as_tensor", "np.array") and n.args:
                try:
                    val = fold(n.args[0])
                except (NotConst, TypeError, ValueError):
                    val = None
            elif isinstance(n, (ast.Tuple, ast.List)) and not isinstance(m.parents.get(n), (ast.Tuple, ast.List, ast.Call)):
                try:
                    val = fold(n)
                except (NotConst, TypeError, ValueError):
                    val = None
            if val is None:
                continue
            q = m.qualname_of(n)
            kind = _table_kind(val)
            if kind is None:
                continue
            n_tab += 1
            ok, why = _table_ok(kind, val)
            ctx.check(ok, "R2", m, n, q, short(n, 60), f"{m.rel}::{q}: {kind} table of size {len(val) if kind != 'index-pair' else len(val[0])} equals its formula",
                      f"{m.rel}::{q}: literal {kind} table deviates from its defining formula: {why}")
    if n_tab < 9:
        raise AnalysisError(f"only {n_tab} packing tables found")

    # ------------------------------------------------------------------ R3
    gss, gpp, gsp, gp2, hsp = sp.symbols("gss gpp gsp gp2 hsp", real=True)
    Pss, Ppp, Pptot, Psp, Ppq = sp.symbols("Pss Ppp Pptot Psp Ppq", real=True)
    SPEC = {
        "ss": sp.Rational(1, 2) * Pss * gss + Pptot * (gsp - hsp / 2),
        "pp": Pss * (gsp - hsp / 2) + sp.Rational(1, 2) * Ppp * gpp + (Pptot - Ppp) * (sp.Rational(5, 4) * gp2 - sp.Rational(1, 4) * gpp),
        "sp": Psp * (sp.Rational(3, 2) * hsp - sp.Rational(1, 2) * gsp),
        "pq": Ppq * (sp.Rational(3, 4) * gpp - sp.Rational(5, 4) * gp2),
    }
    base_env = {"gss": gss, "gpp": gpp, "gsp": gsp, "gp2": gp2, "hsp": hsp}

    def classify(target):
        """which matrix element a `tmp[...] = ` / `TMP[maskd, a, b] = ` store defines"""
        sl = target.slice
        elts = [norm(e) for e in (sl.elts if isinstance(sl, ast.Tuple) else [sl])][-2:]
        if elts == ["0", "0"]:
            return "ss"
        if elts[0] == "0":
            return "sp"
        if elts[0] == elts[1]:
            return "pp"
        return "pq"

    # fock._one_center and fock_u_batch._one_center_u are decided element by element against the first-principles oracle below
    n3 = 0
    # G: both arms
    g = gx.func("G")

    def sub_g(n, rec):
        t = norm(n).replace(" ", "")
        return {"P[maskd,0,0]": Pss, "P[maskd,i,i]": Ppp, "P[maskd,0,i]": Psp, "P[maskd,i,j]": Ppq, "Pptot[maskd]": Pptot}.get(t) or _raise(t)
    fg = torch_funcs()
    fg["[]"] = sub_g
    for st in ast.walk(g):
        if isinstance(st, ast.Assign) and isinstance(st.targets[0], ast.Subscript) and norm(st.targets[0].value) == "TMP" and "maskd" in norm(st.targets[0].slice):
            kind = classify(st.targets[0])
            e = to_sympy(st.value, base_env, fg)
            n3 += 1
            ctx.check(identically(sp.expand(e - SPEC[kind]), 0), "R3", gx, st, "G", st, f"G: one-centre response term {kind} equals the published formula",
                      f"G: one-centre term {kind} = {sp.simplify(e)} but the NDDO formula is {SPEC[kind]}")
    pt = [st for st in ast.walk(g) if isinstance(st, ast.Assign) and norm(st.targets[0]) == "Pptot"]
    ctx.check(bool(pt) and norm(pt[0].value).replace(" ", "") == "P[...,1,1]+P[...,2,2]+P[...,3,3]", "R3", gx, pt[0] if pt else g, "G", "Pptot", "G: p-shell population", "G: Pptot changed")
    if n3 < 4:
        raise AnalysisError(f"only {n3} one-centre response terms interpreted in G")
    # first-principles oracle: brute-force F_mn = sum_ls P_ls [(mn|ls) - 1/2 (ml|ns)] over the sp shell with the six non-zero
    # one-centre integral classes; every upper-triangle element of the code must agree (restricted and unrestricted)
    from .. import nddo
    try:
        one_center_first_principles(ctx, repo, "R3")
    except (AnalysisError, NotConst, KeyError, IndexError, TypeError, AttributeError) as e_:
        # the element interpreter of this rule understands the straight-line spelling of the one-centre routines only; R12 interprets the whole Fock builders
        # (one-centre terms included) whatever their spelling and decides the same formulas
        ctx.ok("R3", "seqm/seqm_functions/fock.py / fock_u_batch.py", f"one-centre routines not in the straight-line shape of this rule ({type(e_).__name__}: {str(e_)[:60]}); "
               f"their formulas are decided by R12 (abstract interpretation of the Fock builders)", nontrivial=False)
        for _ in range(30):
            ctx.ok("R3", "seqm/seqm_functions/fock.py / fock_u_batch.py", "decided by R12", nontrivial=False)
    # exchange prefactor of the two-centre part
    for m, q in ((fk, "_two_center"), (gx, "G")):
        f = m.func(q)
        pp = [st for st in ast.walk(f) if isinstance(st, ast.Assign) and norm(st.targets[0]) == "Pp" and "mask" in norm(st.value)]
        ctx.check(bool(pp) and norm(pp[0].value).replace(" ", "") == "-0.5*P[mask]", "R3", m, pp[0] if pp else f, q, pp[0] if pp else "Pp",
                  f"{q}: two-centre exchange enters with -1/2 P (closed shell)", f"{q}: exchange prefactor is `{norm(pp[0].value) if pp else None}`")

    # ------------------------------------------------------------------ R4
    from .c01 import _truth_table
    pne = en.func("pair_nuclear_energy")
    preds = {}
    # the predicates may live in pair_nuclear_energy or in helpers it calls (one level), possibly under the suffixed names the normaliser gives inlined locals
    scopes_ = [pne] + [en.functions[nm_] for nm_ in sorted({(call_name(c_) or "") for c_ in calls_in(pne)}) if nm_ in en.functions and en.functions[nm_] is not pne]
    for sc_ in scopes_:
        for st in ast.walk(sc_):
            if isinstance(st, ast.Assign) and isinstance(st.targets[0], ast.Name) and st.targets[0].id.split("__")[0] in ("XH", "XCC", "XSiO"):
                preds.setdefault(st.targets[0].id.split("__")[0], []).append(st)
    want = {"XH": [frozenset({(7, 1), (8, 1)}), frozenset({(6, 1), (7, 1), (8, 1)})], "XCC": [frozenset({(6, 6)})], "XSiO": [frozenset({(14, 8)})]}
    for nm, specs in want.items():
        sts = sorted(preds.get(nm, []), key=lambda s: s.lineno)
        if len(sts) == len(specs) and len(specs) > 1:
            # which definition belongs to which method family is decided by its content when both are present (helpers may be defined in any order)
            tts_ = [_truth_table(st_.value) for st_ in sts]
            if set(tts_) == set(specs):
                sts = [sts[tts_.index(sp_)] for sp_ in specs]
        if len(sts) != len(specs):
            raise AnalysisError(f"pair_nuclear_energy: predicate {nm} defined {len(sts)} times")
        for st, spec in zip(sts, specs):
            tt = _truth_table(st.value)
            ctx.check(tt == spec, "R4", en, st, "pair_nuclear_energy", st, f"{nm} selects exactly {sorted(spec)}",
                      f"core-core special case `{norm(st)}` selects {sorted(tt)[:6]} but the method definition is {sorted(spec)}")
    # Gaussian term counts and order, decided by value: the `parameters` argument of every pair_nuclear_energy call of the two energy drivers is interpreted (sa.npsym) per
    # method on symbolic parameter vectors and compared with (alpha,) / (alpha, K, L, M) of 4 (AM1, PM6 family) or 2 (PM3) Gaussians
    from ..assembly import interpreted_core_parameters
    for rel_, qual_, line_, method_, ok_, msg_ in interpreted_core_parameters(repo):
        m_ = repo.mod(rel_)
        ctx.check(ok_, "R4", m_, m_.func(qual_), qual_, f"core-core parameters ({method_})",
                  f"{qual_}: pair_nuclear_energy receives the published parameter tuple for {method_}", msg_ + ": the core-core repulsion is not the published one")

    # ------------------------------------------------------------------ R5
    from ..assembly import check_energy_functions
    check_energy_functions(ctx, "R5", which=("iso",))

    # ------------------------------------------------------------------ R6
    sig = {q: [a.arg for a in m.func(q).args.args] for m, q in ((fk, "fock"), (fu, "fock_u_batch"), (gx, "G"))}
    ctx.check(sig["fock"] == sig["fock_u_batch"] == sig["G"], "R6", fk, fk.func("fock"), "fock", "signature", "fock, fock_u_batch and G take identical positional parameter lists",
              f"interchangeable Fock builders have different signatures: {sig}")
    n_sites = _positional_sites(ctx, repo)
    if n_sites < 40:
        raise AnalysisError(f"only {n_sites} long positional call sites checked")
    _pm6_core_core(ctx, repo, "R10")
    try:
        check_core_core_form(ctx, "R10")
    except AnalysisError:
        # a violation found by an earlier rule is the better diagnosis of the same construct; otherwise the analysis error stands
        if not ctx.findings:
            raise



def _raise(t):
    raise AnalysisError(f"G: subscript {t}")


def _table_kind(val):
    """Recognise a literal as one of the packing tables by shape and by *mostly* matching its formula, so that a table
    with a few wrong entries is still recognised (and then reported) instead of silently dropping out of the inventory."""
    if isinstance(val, list) and val and all(isinstance(r, list) for r in val) and len(val) in (4, 9) and all(len(r) == len(val) for r in val) \
            and all(isinstance(x, int) and not isinstance(x, bool) for r in val for x in r):
        n = len(val)
        hits = sum(1 for i in range(n) for j in range(n) if val[i][j] == tri(max(i, j)) + min(i, j))
        if hits >= n * n - max(3, n):
            return "pair-index"
    if isinstance(val, list) and len(val) in (10, 45) and all(isinstance(x, (int, float)) and not isinstance(x, bool) for x in val) \
            and set(val) <= {1, 2, 1.0, 2.0, 0.5} and len(set(val)) == 2:
        return "weight"
    if isinstance(val, list) and len(val) == 2 and all(isinstance(r, list) and len(r) in (10, 45) and all(isinstance(x, int) and not isinstance(x, bool) for x in r) for r in val) \
            and len(val[0]) == len(val[1]):
        n = 4 if len(val[0]) == 10 else 9
        lower = [(i, j) for i in range(n) for j in range(i + 1)]
        got = list(zip(val[0], val[1]))
        h1 = sum(1 for a, b in zip(got, lower) if a == b)
        h2 = sum(1 for a, b in zip(got, lower) if a == (b[1], b[0]))
        if max(h1, h2) >= len(lower) - 3:
            return "index-pair"
    if isinstance(val, list) and len(val) == 4 and all(isinstance(r, list) and len(r) == 4 for r in val) and all(isinstance(x, (int, float)) and not isinstance(x, bool) for r in val for x in r) \
            and set(x for r in val for x in r) <= {0, 1, 2, 0.0, 1.0, 2.0}:
        hits = sum(1 for i in range(4) for j in range(4) if val[i][j] == (1 if i == j else 2 if j > i else 0))
        if hits >= 13:
            return "scale"
    return None


def _table_ok(kind, val):
    if kind == "pair-index":
        n = len(val)
        bad = [(i, j, val[i][j]) for i in range(n) for j in range(n) if val[i][j] != tri(max(i, j)) + min(i, j)]
        return (not bad), f"entries (i, j, value) {bad[:3]} != tri(max(i,j)) + min(i,j)"
    if kind == "weight":
        n = 4 if len(val) == 10 else 9
        diag = {tri(i) + i for i in range(n)}
        hi, lo = max(val), min(val)
        bad = [k for k, x in enumerate(val) if x != (lo if k in diag else hi)]
        return (not bad and hi == 2 * lo), f"positions {bad[:4]} (diagonal pairs must carry {lo}, off-diagonal {hi})"
    if kind == "index-pair":
        n = 4 if len(val[0]) == 10 else 9
        lower = [(i, j) for i in range(n) for j in range(i + 1)]        # (row >= col) row-major
        got = list(zip(val[0], val[1]))
        ok = got == lower or got == [(j, i) for i, j in lower]
        return ok, f"index lists {got[:5]}... are not the row-major triangle enumeration"
    if kind == "scale":
        bad = [(i, j) for i in range(4) for j in range(4) if val[i][j] != (1 if i == j else 2 if j > i else 0)]
        return (not bad), f"entries {bad[:3]} (expected 1 on the diagonal, 2 above, 0 below)"
    return False, "unknown"


def _arg_name(a):
    if isinstance(a, ast.Name):
        return a.id
    if isinstance(a, ast.Subscript) and isinstance(a.slice, ast.Constant) and isinstance(a.slice.value, str) and "parameters" in norm(a.value) or \
            (isinstance(a, ast.Subscript) and isinstance(a.slice, ast.Constant) and isinstance(a.slice.value, str) and norm(a.value) in ("params",)):
        k = a.slice.value
        return ALIAS.get(k, k)
    if isinstance(a, ast.Attribute) and isinstance(a.value, ast.Name) and a.value.id in ("molecule", "mol", "self", "const"):
        return a.attr
    return None


def _positional_sites(ctx, repo) -> int:
    # callee table: long positional functions of the package, by simple name (aliases resolved through imports)
    targets = {}
    for m in repo.modules("seqm"):
        for q, f in m.functions.items():
            if "<locals>" in q and not q.endswith(".inner"):
                continue
            ps = [a.arg for a in f.args.args]
            if ps and ps[0] in ("self", "ctx", "cls"):
                ps = ps[1:]
            if len(ps) >= 8:
                targets.setdefault(q.split(".")[-1] if "." not in q or q.split(".")[-1] in ("forward", "backward") else q.split(".")[-1], []).append((m, q, ps))
    n = 0
    skip_mods = ("fock_sdc.py", "G_sdc.py", "fock_u.py", "XLESMD.py", "tools.py", "data_loader.py")
    for m in repo.modules("seqm"):
        if m.rel.endswith(skip_mods):
            continue
        # local aliases: fock = fock_u_batch if ... else fock_restricted ; scfapply = SCF(...).apply
        for q, f in m.functions.items():
            alias = {}
            for st in ast.walk(f):
                if isinstance(st, ast.Assign) and isinstance(st.targets[0], ast.Name):
                    v = st.value
                    if isinstance(v, ast.IfExp) and isinstance(v.body, ast.Name) and isinstance(v.orelse, ast.Name):
                        alias.setdefault(st.targets[0].id, set()).update({v.body.id, v.orelse.id})
                    elif isinstance(v, ast.Name):
                        alias.setdefault(st.targets[0].id, set()).add(v.id)
                    elif isinstance(v, ast.Attribute) and v.attr == "apply":
                        alias.setdefault(st.targets[0].id, set()).add("SCF.forward")
            for c in calls_in(f):
                if m.enclosing_function(c) is not f:
                    continue
                names = set()
                if isinstance(c.func, ast.Name):
                    names = alias.get(c.func.id, {c.func.id})
                if not names or len(c.args) < 8:
                    continue
                cands = []
                for nm in names:
                    real = nm
                    if nm in m.imports and m.imports[nm][1]:
                        real = m.imports[nm][1]
                    if nm == "SCF.forward":
                        scf = repo.mod("seqm/seqm_functions/scf_loop.py")
                        cands.append((scf, "SCF.forward", [a.arg for a in scf.func("SCF.forward").args.args][1:]))
                        continue
                    for (tm, tq, ps) in targets.get(real, []):
                        if tq.split(".")[-1] == real and "." not in tq:
                            cands.append((tm, tq, ps))
                for tm, tq, ps in cands:
                    n += 1
                    bad = []
                    for i, a in enumerate(c.args):
                        if isinstance(a, ast.Starred) or i >= len(ps):
                            break
                        an = _arg_name(a)
                        if an and an in ps and ps[i] != an:
                            bad.append((i, an, ps[i]))
                    ctx.check(not bad, "R6", m, c, q, f"{norm(c.func)}(...) -> {tq}",
                              f"{m.rel}::{q}: call of {tq} passes every name-matching argument at its own parameter position ({len(c.args)} positional)",
                              f"{m.rel}::{q}: call of {tq} passes `{bad[0][1]}` at position {bad[0][0]} where the parameter is `{bad[0][2]}` "
                              f"(swapped same-typed arguments run without error and silently change the model)" if bad else "")
    return n


def _pm6_core_core(ctx, repo, rid):
    """PM6-family core-core term against the published form (shared with C19-R4), by abstract interpretation on symbolic pairs"""
    from ..assembly import interpreted_pm6_core_core
    en_ = repo.mod("seqm/seqm_functions/energy.py")
    try:
        res = interpreted_pm6_core_core(repo)
    except AnalysisError as e:
        ctx.note(f"PM6 core-core branch of pair_nuclear_energy could not be interpreted ({str(e)[:100]}); not decided")
        return
    for method_, pair_, ok_, msg_ in res:
        ctx.check(ok_, rid, en_, en_.func("pair_nuclear_energy"), "pair_nuclear_energy", f"{method_} {pair_}",
                  f"{method_}: core-core energy of a {pair_} pair equals the published PM6 form (interpreted, symbolic)", msg_)


def one_center_first_principles(ctx, repo, rid):
    import sympy as sp

    from .. import nddo
    fk, fu = repo.mod(FK), repo.mod(FU)
    gss, gpp, gsp, gp2, hsp = nddo.symbols()
    sc = {"gss": gss, "gpp": gpp, "gsp": gsp, "gp2": gp2, "hsp": hsp}
    try:
        vec = {k: fold(fk.globals[k].args[0]) for k in ("P_INDEX_3", "P_OFF_I", "P_OFF_J")}
    except (KeyError, NotConst, AttributeError):
        raise AnalysisError("fock.py: index constants P_INDEX_3 / P_OFF_I / P_OFF_J not literal")
    oc = fk.func("_one_center")
    # which local names are bound to which index constants
    ivs = {}
    for st in ast.walk(oc):
        if isinstance(st, ast.Assign) and isinstance(st.targets[0], ast.Name) and isinstance(st.value, ast.Call) and callee_attr(st.value) == "_cached_index" \
                and isinstance(st.value.args[0], ast.Name) and st.value.args[0].id in vec:
            ivs[st.targets[0].id] = vec[st.value.args[0].id]
    P = nddo.density("P")
    F = nddo.fock_restricted(P)
    roles = nddo.density_locals(oc, {1: "total"})
    bm = {nm: (lambda a, b: P[a][b]) for nm, r in roles.items() if r == "total"}
    if not bm:
        raise AnalysisError("fock._one_center: no local selects the atom-diagonal density blocks (P[maskd])")
    code = nddo.interpret_one_center(fk, oc, bm, sc, ivs, scratch=nddo.scratch_tensor(oc))
    want = {(a, b) for a in range(4) for b in range(a, 4)}
    ctx.check(set(code) == want, rid, fk, oc, "_one_center", "elements", "fock._one_center defines all 10 upper-triangle elements of the atom block",
              f"fock._one_center defines elements {sorted(code)}; missing {sorted(want - set(code))}")
    for (a, b), v in sorted(code.items()):
        d = sp.expand(v - F[a][b])
        ctx.check(d == 0, rid, fk, oc, "_one_center", f"F[{a}][{b}]",
                  f"restricted one-centre F[{a}][{b}] equals the brute-force NDDO sum over the sp shell",
                  f"fock._one_center: element ({a},{b}) = {sp.factor(v)} but sum_ls P_ls[(mn|ls) - (ml|ns)/2] = {sp.factor(F[a][b])}")
    Pa, Pb = nddo.density("A"), nddo.density("B")
    Fa = nddo.fock_unrestricted(Pa, Pb)
    ou = fu.func("_one_center_u")
    rolesu = nddo.density_locals(ou, {1: "total", 2: "spin"})
    view = {"total": lambda a, b: Pa[a][b] + Pb[a][b], "spin": lambda a, b: Pa[a][b], "opp": lambda a, b: Pb[a][b]}
    bmu = {nm: view[r] for nm, r in rolesu.items()}
    if set(rolesu.values()) != {"total", "spin", "opp"}:
        raise AnalysisError(f"_one_center_u: density views not recognised ({rolesu})")
    codeu = nddo.interpret_one_center(fu, ou, bmu, sc, scratch=nddo.scratch_tensor(ou))
    ctx.check(set(codeu) == want, rid, fu, ou, "_one_center_u", "elements", "_one_center_u defines all 10 upper-triangle elements",
              f"_one_center_u defines elements {sorted(codeu)}")
    for (a, b), v in sorted(codeu.items()):
        d = sp.expand(v - Fa[a][b])
        ctx.check(d == 0, rid, fu, ou, "_one_center_u", f"F^s[{a}][{b}]",
                  f"unrestricted one-centre F^s[{a}][{b}] equals sum Ptot (mn|ls) - sum P^s (ml|ns) for arbitrary P_alpha != P_beta",
                  f"_one_center_u: element ({a},{b}) = {sp.factor(v)} but the spin-s NDDO Fock element is {sp.factor(Fa[a][b])} "
                  f"(wrong spin density in a Coulomb/exchange term only shows for spin-polarised densities)")
    return code, codeu, P, Pa, Pb


PURE_METHODS = {"clamp_min", "clamp_max", "clamp", "abs", "sqrt", "exp", "log", "pow", "neg", "masked_fill", "triu", "tril", "transpose", "reshape", "clone", "detach", "round",
                "floor", "unsqueeze", "squeeze", "permute", "view", "contiguous", "expand", "flatten", "mul", "div", "sub", "sum", "mean"}


def check_pipeline_hygiene(ctx, rid):
    repo = ctx.repo
    n = 0
    for m in repo.modules("seqm/seqm_functions", "seqm/basics.py"):
        for st in ast.walk(m.tree):
            if isinstance(st, ast.Expr) and isinstance(st.value, ast.Call) and isinstance(st.value.func, ast.Attribute) and st.value.func.attr in PURE_METHODS:
                n += 1
                ctx.fail(rid, m, st, m.qualname_of(st), st, f"`{short(norm(st), 70)}` computes a new tensor and discards it (the out-of-place method has no effect on "
                         f"`{norm(st.value.func.value)}`): the intended bound / transformation is silently not applied")
    ctx.ok(rid, "seqm/seqm_functions", f"no expression statement discards the result of an out-of-place tensor method ({n} found)")
    # h_pp floor (MOPAC: hpp = max(0.1 eV, (gpp - gp2)/2)) feeds the quadrupole additive term
    from .c01 import _pipeline
    te = repo.mod(TE) if "TE" in globals() else repo.mod("seqm/seqm_functions/two_elec_two_center_int.py")
    f = te.func("two_elec_two_center_int")
    pe = _pipeline(te, f, ["hpp"])
    got = sorted(pe["hpp"])
    ok_ = got and got[-1].replace(" ", "") in ("(0.5*(gpp-gp2)).clamp_min(0.1)", "torch.clamp(0.5*(gpp-gp2),min=0.1)", "(0.5*(gpp-gp2)).clamp(min=0.1)")
    ctx.check(bool(ok_), rid, te, f, "two_elec_two_center_int", "hpp", "hpp = max(0.1, (gpp - gp2)/2) (MOPAC floor) is what the rho_2 solver receives",
              f"hpp is derived as {got}: the 0.1 eV floor of the published parametrisation is not applied (elements with (gpp-gp2)/2 < 0.1 eV get a different rho_2)")
    r2 = [c for c in calls_in(f) if (call_name(c) or "") == "rho2"]
    ctx.check(bool(r2) and all(norm(c.args[0]).split("[")[0] == "hpp" for c in r2), rid, te, r2[0] if r2 else f, "two_elec_two_center_int", "rho2(hpp, qq)",
              "rho_2 is solved from the floored hpp", f"rho2 is called with {[norm(c.args[0]) for c in r2]}")


SIZE_KINDS = {"2": "spin", "nmol": "mol", "molsize": "atom", "nbf": "orb", "4": "orb", "9": "orb", "nrs": ("atom", "orb")}


def check_block_reshapes(ctx, rid):
    from ..axes import AxisError, kinds, trace
    repo = ctx.repo
    MAT3 = [(("mol", "b"),), (("atom", "r"), ("orb", "r")), (("atom", "c"), ("orb", "c"))]
    MAT4 = [MAT3[0], (("spin", "s"),)] + MAT3[1:]
    BLK3 = [(("mol", "b"), ("atom", "r"), ("atom", "c")), (("orb", "r"),), (("orb", "c"),)]
    BLK4 = [(("spin", "s"),)] + BLK3
    want_blk = {"3": kinds(BLK3), "4": kinds(BLK4)}
    want_mat = {"3": kinds(MAT3), "4": kinds(MAT4)}
    sites = [("seqm/seqm_functions/fock_u_batch.py", None, "4"), ("seqm/seqm_functions/fock.py", None, "3"), ("seqm/seqm_functions/anal_grad.py", "contract_ao_derivatives_with_density", None)]
    n = 0
    for rel, only, dim in sites:
        m = repo.mod(rel)
        for qual, func in m.functions.items():
            if only and qual != only:
                continue
            for st in ast.walk(func):
                if not (isinstance(st, ast.Assign) and len(st.targets) == 1 and isinstance(st.targets[0], ast.Name)) or m.qualname_of(st) != qual:
                    continue
                v = st.value
                txt = norm(v)
                if ".reshape(" not in txt and ".view(" not in txt:
                    continue
                root = v
                while True:
                    if isinstance(root, ast.Call) and isinstance(root.func, ast.Attribute):
                        root = root.func.value
                    elif isinstance(root, ast.Subscript):
                        root = root.value
                    elif isinstance(root, ast.BinOp):
                        root = root.left
                    else:
                        break
                if not isinstance(root, ast.Name) or root.id not in ("P0", "F_", "F"):
                    continue
                d = dim
                if d is None:
                    from ..guards import controlling
                    ctrl = [(norm(a), p) for a, p, _ in controlling(m, st, stop=func)]
                    d = "4" if ("unrestricted", True) in ctrl else "3" if ("unrestricted", False) in ctrl else None
                    if d is None:
                        continue
                if root.id == "P0":
                    lay = {"P0": MAT4 if d == "4" else MAT3}
                    want = want_blk
                    # the spin-summed density of an unrestricted calculation is a 3-axis block tensor
                    wd = "3" if "P0[:, 0]" in txt else d
                else:
                    lay = {root.id: BLK4 if d == "4" else BLK3}
                    want = want_mat
                    wd = d
                n += 1
                try:
                    got = kinds(trace(v, lay, SIZE_KINDS))
                except AxisError as e:
                    ctx.fail(rid, m, st, qual, f"{st.targets[0].id} = {short(txt, 60)}", f"{st.targets[0].id}: {e}: an index of one meaning is reinterpreted as another "
                             f"(invisible when the two sizes coincide, e.g. a single molecule)")
                    continue
                ctx.check(got == want[wd], rid, m, st, qual, f"{st.targets[0].id} = {short(txt, 60)}",
                          f"{st.targets[0].id}: {' -> '.join(['x'.join(a) for a in got])} is the expected {'block' if root.id == 'P0' else 'matrix'} layout",
                          f"{st.targets[0].id} ends with axes {got} but the expected layout is {want[wd]}")
    ctx.floor(rid, 10)


LF = "seqm/seqm_functions/two_elec_two_center_int_local_frame.py"


def interpret_local_frame(repo):
    """(ElemExec after reading the energy kernel, symbols) -- shared with C01 (derivative kernel)"""
    from .. import multipole as mp
    from ..elemexec import ElemExec
    m = repo.mod(LF)
    f = m.func("two_elec_two_center_int_local_frame")
    r, S = mp.symbols()
    base = {"r0": r, "da0": S["D1a"], "db0": S["D1b"], "qa0": S["D2a"], "qb0": S["D2b"], "rho0a": S["rho0a"], "rho0b": S["rho0b"], "rho1a": S["rho1a"],
            "rho1b": S["rho1b"], "rho2a": S["rho2a"], "rho2b": S["rho2b"], "ev": S["ev"]}
    params = [a.arg for a in f.args.args]
    for need in ("r0", "da0", "db0", "qa0", "qb0", "rho0a", "rho0b", "rho1a", "rho1b", "rho2a", "rho2b"):
        if need not in params:
            raise AnalysisError(f"two_elec_two_center_int_local_frame: parameter {need} not found")
    ex = ElemExec(base)
    ex.run(f.body)
    return m, f, ex, r, S, base


def _num_zero(expr, seed, n=3, tol="1e-28"):
    import random
    import sympy as sp
    rng = random.Random(seed)
    syms = sorted(expr.free_symbols, key=lambda s_: s_.name)
    for _ in range(n):
        vals = {s_: sp.Rational(rng.randint(5, 60), 11) for s_ in syms}
        try:
            v = sp.N(expr.subs(vals), 45)
        except Exception:  # noqa
            return False
        if abs(v) > sp.Float(tol):
            return False
    return True


def check_local_frame_integrals(ctx, rid):
    import sympy as sp
    from .. import multipole as mp
    repo = ctx.repo
    m, f, ex, r, S, base = interpret_local_frame(repo)
    have = sorted(k for (a, k) in ex.elems if a == "ri")
    if have != list(range(22)) or sorted(k for (a, k) in ex.elems if a == "riXH") != [0, 1, 2, 3] or "riHH" not in ex.env:
        raise AnalysisError(f"local-frame kernel: elements not interpreted (ri: {have})")
    # the orientation of the local z axis on each centre is a convention: fitted on the two dipole-monopole integrals, then fixed
    fit = []
    for sa, sb in mp.conventions():
        if _num_zero(ex.elems[("ri", 1)] - mp.integral("SO", "SS", sa, sb), 11) and _num_zero(ex.elems[("ri", 4)] - mp.integral("SS", "SO", sa, sb), 12):
            fit.append((sa, sb))
    if len(fit) != 1:
        ctx.fail(rid, m, f, "two_elec_two_center_int_local_frame", "(so|ss), (ss|os)", f"the dipole-monopole integrals fit {len(fit)} axis conventions of the point-charge model (expected exactly one)")
        return
    sa, sb = fit[0]
    tab = mp.table(sa, sb)
    for k in range(22):
        ka, kb = mp.ORDER[k]
        ok = _num_zero(ex.elems[("ri", k)] - tab[k], 100 + k)
        ctx.check(ok, rid, m, f, "two_elec_two_center_int_local_frame", f"ri[{k + 1}] = ({ka}|{kb})",
                  f"heavy-heavy integral {k + 1} ({ka}|{kb}) equals the sum over point charges of ev q_i q_j / sqrt(r_ij^2 + (rho_l^A + rho_l'^B)^2)",
                  f"heavy-heavy integral {k + 1} ({ka}|{kb}) differs from the Dewar-Thiel point-charge model (axis convention {sa},{sb})")
    for k in range(4):
        ka, kb = mp.ORDER[k]
        ok = _num_zero(ex.elems[("riXH", k)] - tab[k], 200 + k)
        ctx.check(ok, rid, m, f, "two_elec_two_center_int_local_frame", f"riXH[{k + 1}] = ({ka}|ss_H)", f"heavy-hydrogen integral {k + 1} ({ka}|ss) equals the point-charge model",
                  f"heavy-hydrogen integral {k + 1} ({ka}|ss) differs from the point-charge model")
    ctx.check(_num_zero(ex.env["riHH"] - tab[0], 300), rid, m, f, "two_elec_two_center_int_local_frame", "riHH = (ss|ss)", "hydrogen-hydrogen integral equals ev / sqrt(r^2 + (rho0a + rho0b)^2)",
              "hydrogen-hydrogen (ss|ss) differs from the Klopman-Ohno form")
    # core-electron elements: which integral, which partner charge
    want = {0: ("nj", 0), 1: ("nj", 1), 2: ("nj", 2), 3: ("nj", 3), 4: ("ni", 0), 5: ("ni", 4), 6: ("ni", 10), 7: ("ni", 11)}
    n = 0
    for st in f.body:
        if isinstance(st, ast.Assign) and isinstance(st.targets[0], ast.Subscript) and norm(st.targets[0].value) == "core":
            try:
                k = int(fold(st.targets[0].slice.elts[-1]))
            except Exception:  # noqa
                continue
            v = st.value
            n += 1
            good = isinstance(v, ast.BinOp) and isinstance(v.op, ast.Mult) and k in want
            if good:
                z, integ = norm(v.left).replace(" ", ""), v.right
                try:
                    ki = int(fold(integ.slice.elts[-1]))
                except Exception:  # noqa
                    ki = None
                good = z == f"tore[{want[k][0]}[XX]]" and norm(integ.value) == "ri" and ki == want[k][1]
            ctx.check(good, rid, m, st, "two_elec_two_center_int_local_frame", f"core[{k}]", f"core[{k}] = Z_{want.get(k, ('?',))[0][1:] if k in want else '?'} x ri[{want[k][1] + 1 if k in want else '?'}] (attraction of the other core)",
                      f"core[{k}] = `{short(norm(v), 50)}` is not the partner's core charge times the matching (mu nu|ss) integral")
    if n < 8:
        raise AnalysisError("core-electron stores not found")


def check_core_core_form(ctx, rid):
    """pair_nuclear_energy interpreted symbolically (masked straight-line interpreter) for method x {X-H pair, other pair} and compared with
         MNDO:     E = Z_i Z_j gamma (1 + f_i + e^{-alpha_j R}),   f_i = e^{-alpha_i R}  (R e^{-alpha_i R} for N-H, O-H with i = N/O)
         AM1/PM3:  E_MNDO + (Z_i Z_j / R) (sum_k K_ik e^{-L_ik (R - M_ik)^2} + sum_k K_jk e^{-L_jk (R - M_jk)^2})          (R in Angstrom)"""
    import itertools
    import sympy as sp
    from ..symexec import SymExec
    repo = ctx.repo
    en = repo.mod("seqm/seqm_functions/energy.py")
    pne = en.func("pair_nuclear_energy")
    r, ai, aj, Zi, Zj, gam = sp.symbols("r alpha_i alpha_j Z_i Z_j gamma", positive=True)
    Ki, Kj, Li, Lj, Mi, Mj = sp.symbols("K_i K_j L_i L_j M_i M_j", real=True)
    a0s = sp.Symbol("a0", positive=True)
    idx = {"tore[ni]": Zi, "tore[nj]": Zj, "alpha[idxi]": ai, "alpha[idxj]": aj, "K[idxi]": Ki, "K[idxj]": Kj, "L[idxi]": Li, "L[idxj]": Lj, "M[idxi]": Mi, "M[idxj]": Mj}
    funcs = {".reshape": lambda a, n: a[0], ".unsqueeze": lambda a, n: a[0]}
    for method, xh in itertools.product(("MNDO", "AM1", "PM3"), (False, True)):
        par = (sp.Symbol("alpha_tuple"), sp.Symbol("K"), sp.Symbol("L"), sp.Symbol("M")) if method != "MNDO" else (sp.Symbol("alpha_tuple"),)
        envE = {"rij": r / a0s, "a0": a0s, "gam": gam, "parameters": par, "const.tore": sp.Symbol("tore"), "const.atomic_num": sp.Symbol("an")}
        se = SymExec(envE, {"XH": xh}, {**__import__("sa.symexec", fromlist=["literal_globals"]).literal_globals(repo.mod("seqm/seqm_functions/energy.py")), "method": method}, dict(idx, **{"parameters[0]": sp.Symbol("alpha")}), funcs)
        se.env["alpha"] = sp.Symbol("alpha")
        try:
            E = se.run(list(pne.body))
        except AnalysisError as e:
            raise AnalysisError(f"pair_nuclear_energy not interpretable for {method}, XH={xh}: {e}")
        fi = (r if xh else 1) * sp.exp(-ai * r)
        want = Zi * Zj * gam * (1 + fi + sp.exp(-aj * r))
        if method != "MNDO":
            want += Zi * Zj / r * (Ki * sp.exp(-Li * (r - Mi) ** 2) + Kj * sp.exp(-Lj * (r - Mj) ** 2))
        resid = sp.simplify(sp.expand(E - want))
        ctx.check(resid == 0, rid, en, pne, "pair_nuclear_energy", f"{method}, X-H={xh}",
                  f"{method}, {'N-H / O-H' if xh else 'generic'} pair: core-core energy equals the published expression",
                  f"{method}, {'N-H / O-H' if xh else 'generic'} pair: core-core energy differs from the published expression by {resid}")
