"""C03 -- a converged SCF result is self-consistent; failure is flagged; calls terminate (structural clauses)."""
from __future__ import annotations

import ast

from ..cfg import build_cfg
from ..exprs import NotConst, fold
from ..guards import atoms, controlling
from ..loader import AnalysisError, attr_chain, call_name, callee_attr, calls_in, names_in, norm, short
from ..loops import for_suspicious, while_bounded

LEVEL = "other"
SCF = "seqm/seqm_functions/scf_loop.py"
EXPLANATION = (
    "R1 termination: every `while` loop in seqm/ and scripts/ is bounded by the counter rule (a counter stepped by a positive "
    "literal on every cycle and compared with a loop-invariant bound in the loop test or in an exit test passed on every "
    "cycle) or is an end-of-file I/O loop; `for` loops that grow their own iterable are flagged; R2 the convergence flag is "
    "un-laundered: in each SCF driver `notconverged` is only the all-true initialisation or the result of the convergence "
    "test, every return hands it out, and it is passed through SCF.forward -> scf_loop -> Hamiltonian -> Energy -> Force -> "
    "Electronic_Structure.notconverged by unpack/return only; R3 shape of the convergence test: each of the energy, DIIS, "
    "rms-density and max-element criteria is a `>` comparison against eps times a module constant >= 1 and enters the returned "
    "mask through `|` only; the drivers hand their own `eps` parameter to it unchanged; masked per-molecule updates use the flag; "
    "R4 the iteration cap is a positive module literal that bounds every driver's main loop, and nothing after the loop rewrites "
    "the flag. Idempotency / commutator / trace magnitudes of a converged density are not decided."
)
ASSUMPTIONS = ["library calls (torch.linalg.eigh, matmul, ...) terminate", "recursion is not used on the compute path"]
TRUSTED = ["sa.loops counter rule"]

DRIVERS = ["scf_forward0", "scf_forward1", "scf_forward2", "scf_forward3"]


def run(ctx):
    repo = ctx.repo
    scf = repo.mod(SCF)
    ctx.rule("R1", "every loop terminates: bounded `while` loops (counter rule) in all of seqm/ and scripts/")
    ctx.rule("R2", "the convergence flag is the un-laundered result of the convergence test, passed through to the caller")
    ctx.rule("R3", "shape of the convergence test and identity of eps")
    ctx.rule("R4", "the iteration cap is real: positive literal bounding every driver's loop, flag returned after exhaustion")
    ctx.rule("R5", "the unrolled (backward=True) arm of every density update computes the same new density as the in-place arm")
    ctx.rule("R6", "the density builders pack / diagonalise / occupy every molecule with its own sizes (representative-row rule, masked fractional occupations)")
    from .c05 import check_masked_occupations, check_rep_rows
    ctx.rule("R7", "the threshold a result is converged to is the requested one: scf_eps reaches every convergence comparison unmodified and is never loosened on the way "
                   "(shared with C04-R4)")
    from .c04 import _threshold_integrity, check_no_start_memory
    _threshold_integrity(ctx, "R7")
    ctx.rule("R8", "a converged result is the fixed point for *any* initial density: nothing computed once from the start density (its trace, its diagonal) enters the iteration "
                   "except the iterate and loop-carried state (shared with C04-R7)")
    check_no_start_memory(ctx, "R8")
    ctx.rule("R9", "density builders by value: every diagonalisation arm of make_Pnew_factory returns, per molecule and spin channel, 2 x the projector on the lowest nocc "
                   "eigenvectors of the molecule's own Fock block -- symmetric, trace 2 nocc, idempotent, commuting with F, nothing on padding orbitals (shared with C04-R8) [EA+]")
    from ..densitymodel import check_density_builders
    try:
        check_density_builders(ctx, "R9")
    except AnalysisError as e_:
        ctx.note(f"density builders not interpretable ({str(e_)[:120]}); R6 (shape-based) decides alone")
    check_rep_rows(ctx, "R6")
    check_masked_occupations(ctx, "R6")
    check_arm_agreement(ctx, scf, "R5")

    # ------------------------------------------------------------------ R1
    n_while = 0
    for m in repo.modules("seqm", "scripts"):
        for q, f in m.functions.items():
            ws = [w for w in ast.walk(f) if isinstance(w, ast.While) and m.enclosing_function(w) is f]
            fs = [l for l in ast.walk(f) if isinstance(l, ast.For) and m.enclosing_function(l) is f]
            if ws:
                g = build_cfg(f)
                for w in ws:
                    n_while += 1
                    ok, why = while_bounded(m, f, w, g)
                    ctx.check(ok, "R1", m, w, q, f"while {norm(w.test)}", f"{m.rel}::{q}: `while {short(w.test, 40)}` is bounded ({why})",
                              f"`while {short(w.test, 60)}` has no iteration bound ({why}): the call may never return")
            for l in fs:
                s = for_suspicious(l)
                if s:
                    ctx.fail("R1", m, l, q, l.iter, f"`for ... in {short(l.iter, 40)}` {s}: may not terminate")
                else:
                    ctx.ok("R1", f"{m.rel}:{l.lineno} {q}", f"`for ... in {short(l.iter, 40)}` iterates a finite sequence that its body does not extend", nontrivial=False)
        # module-level loops
        for w in [x for x in m.tree.body if isinstance(x, ast.While)]:
            ctx.fail("R1", m, w, "<module>", w.test, "module-level while loop")
    ctx.floor("R1", 35)      # all loops (a `while` rewritten as a bounded `for` stays counted)
    if n_while < 15:
        raise AnalysisError(f"C03-R1: only {n_while} `while` loops found (the SCF drivers, the purification and the Davidson drivers alone have more): anchor drift")

    # ------------------------------------------------------------------ R2
    get_error = scf.func("get_error")
    for d in DRIVERS:
        f = scf.func(d)
        asg = []
        for st in ast.walk(f):
            if isinstance(st, (ast.Assign, ast.AugAssign)):
                tg = st.targets if isinstance(st, ast.Assign) else [st.target]
                for t in tg:
                    for x in ast.walk(t):
                        if isinstance(x, ast.Name) and x.id == "notconverged" and isinstance(x.ctx, ast.Store):
                            asg.append((st, t))
                        # masked store notconverged[...] = ...
                    if isinstance(t, ast.Subscript) and norm(t.value) == "notconverged":
                        asg.append((st, t))
            if isinstance(st, ast.Call) and isinstance(st.func, ast.Attribute) and norm(st.func.value) == "notconverged" \
                    and st.func.attr.endswith("_") and not st.func.attr.startswith("__"):
                asg.append((st, st))
        kinds = []
        for st, t in asg:
            if isinstance(st, ast.Assign) and isinstance(t, ast.Name) and (call_name(st.value) or "") == "torch.ones" \
                    and "torch.bool" in norm(st.value):
                kinds.append("init")
            elif isinstance(st, ast.Assign) and isinstance(t, ast.Tuple) and isinstance(st.value, ast.Call) and callee_attr(st.value) == "get_error" \
                    and isinstance(t.elts[0], ast.Name) and t.elts[0].id == "notconverged":
                kinds.append("test")
            elif d == "scf_forward3" and isinstance(st, ast.Assign) and isinstance(t, ast.Name) and norm(st.value).replace(" ", "") == "err>eps":
                kinds.append("test")
            else:
                kinds.append("OTHER:" + short(st, 60))
        bad = [k for k in kinds if k.startswith("OTHER")]
        ctx.check(not bad and "init" in kinds and "test" in kinds, "R2", scf, bad and asg[kinds.index(bad[0])][0] or f, d,
                  bad and asg[kinds.index(bad[0])][0] or f"{d}: notconverged",
                  f"{d}: notconverged is only the all-true initialisation or the convergence-test result ({len(asg)} definitions)",
                  f"{d}: the convergence flag is overwritten by `{bad[0][6:] if bad else ''}`: a molecule that failed its test can be reported as converged")
        rets = [r for r in ast.walk(f) if isinstance(r, ast.Return)]
        ok = bool(rets) and all(isinstance(r.value, ast.Tuple) and len(r.value.elts) == 2 and norm(r.value.elts[1]) == "notconverged"
                                and norm(r.value.elts[0]) == "P" for r in rets)
        ctx.check(ok, "R2", scf, rets[0] if rets else f, d, "return P, notconverged", f"{d}: every return hands out (P, notconverged) ({len(rets)} returns)",
                  f"{d}: some return does not hand out (P, notconverged): {[norm(r.value) for r in rets if norm(r.value) != '(P, notconverged)'][:2]}")
    # pass-through hops
    hops = [
        (SCF, "SCF.forward", "scf_forward", 1, "return", 1),
        (SCF, "scf_loop", "scfapply|scf_forward", 1, "return", 10),
        ("seqm/basics.py", "Hamiltonian.forward", "scf_loop", 10, "return", 10),
        ("seqm/basics.py", "Energy.forward", "hamiltonian", 10, "return", -1),
        ("seqm/basics.py", "Force.forward", "energy", 10, "return", 10),
    ]
    for rel, q, callee_pat, pos_in, _, pos_out in hops:
        m = repo.mod(rel)
        f = m.func(q)
        srcs = []
        others = []
        for st in ast.walk(f):
            if isinstance(st, ast.Assign):
                for t in st.targets:
                    if isinstance(t, ast.Tuple) and any(isinstance(e, ast.Name) and e.id == "notconverged" for e in t.elts):
                        idx = [i for i, e in enumerate(t.elts) if isinstance(e, ast.Name) and e.id == "notconverged"][0]
                        val = st.value
                        ca = callee_attr(val) if isinstance(val, ast.Call) else None
                        if isinstance(val, ast.Call) and isinstance(val.func, ast.Name) and not any((ca or "").startswith(p) for p in callee_pat.split("|")):
                            # a callee chosen through a local: every function the local is bound to must match the pattern
                            binds = [a_.value for a_ in ast.walk(f) if isinstance(a_, ast.Assign) and any(isinstance(t_, ast.Name) and t_.id == val.func.id for t_ in a_.targets)]
                            fnames = [b_.id for b_ in binds if isinstance(b_, ast.Name)]
                            if fnames and all(isinstance(b_, ast.Name) or (isinstance(b_, ast.Constant) and b_.value is None) for b_ in binds) \
                                    and all(any(n_.startswith(p) for p in callee_pat.split("|")) for n_ in fnames):
                                ca = fnames[0]
                        if ca and any(ca.startswith(p) for p in callee_pat.split("|")) and idx == pos_in:
                            srcs.append(st)
                        else:
                            others.append(st)
                    elif isinstance(t, ast.Name) and t.id == "notconverged":
                        others.append(st)
                    elif isinstance(t, ast.Subscript) and norm(t.value) == "notconverged":
                        others.append(st)
        ctx.check(bool(srcs) and not others, "R2", m, others[0] if others else f, q, others[0] if others else f"{q}: notconverged",
                  f"{q}: notconverged comes only from position {pos_in} of the callee's result ({len(srcs)} call sites)",
                  f"{q}: the convergence flag is redefined by `{short(others[0], 70) if others else 'nothing from the callee'}`")
        rets = [r for r in ast.walk(f) if isinstance(r, ast.Return) and m.enclosing_function(r) is f and r.value is not None]
        for r in rets:
            elts = r.value.elts if isinstance(r.value, ast.Tuple) else [r.value]
            got = [i for i, e in enumerate(elts) if norm(e) == "notconverged"]
            want = pos_out if pos_out >= 0 else len(elts) - 1
            ctx.check(got == [want], "R2", m, r, q, r, f"{q}: returns the flag unchanged at position {want}",
                      f"{q}: a return does not carry the convergence flag at position {want} (found at {got})")
    es = repo.mod("seqm/ElectronicStructure.py")
    ef = es.func("Electronic_Structure.forward")
    found = False
    for st in ast.walk(ef):
        if isinstance(st, ast.Assign) and isinstance(st.targets[0], ast.Tuple) and isinstance(st.value, ast.Call) and callee_attr(st.value) == "conservative_force":
            names = [norm(e) for e in st.targets[0].elts]
            found = True
            ctx.check(len(names) == 11 and names[10] == "self.notconverged", "R2", es, st, "Electronic_Structure.forward", st.targets[0],
                      "Electronic_Structure.notconverged is position 10 of Force.forward's result", f"Force result unpacked as {names}")
    if not found:
        raise AnalysisError("Electronic_Structure.forward: Force call not found")
    stores = [st for st in ast.walk(es.tree) if isinstance(st, (ast.Assign, ast.AugAssign)) and
              any("self.notconverged" == norm(t) for t in (st.targets if isinstance(st, ast.Assign) else [st.target]))]
    ctx.check(not stores, "R2", es, stores[0] if stores else ef, "Electronic_Structure", stores[0] if stores else "self.notconverged",
              "nothing else assigns Electronic_Structure.notconverged", "Electronic_Structure.notconverged is assigned outside the unpack")

    # ------------------------------------------------------------------ R3
    consts = {}
    for k, v in scf.globals.items():
        try:
            consts[k] = fold(v)
        except NotConst:
            pass
    ge = get_error
    eps_name = "eps"
    if eps_name not in [a.arg for a in ge.args.args]:
        raise AnalysisError("get_error has no eps parameter")
    # SSA-ish walk: mask atoms reaching the returned flag through | only
    masks = {}   # name -> set of criterion names
    crit = {}    # name -> (lhs text, factor)

    def thresh(n):
        """eps * CONST / CONST * eps / eps -> factor"""
        if isinstance(n, ast.Name) and n.id == eps_name:
            return 1.0
        if isinstance(n, ast.BinOp) and isinstance(n.op, ast.Mult):
            for a, b in ((n.left, n.right), (n.right, n.left)):
                if isinstance(a, ast.Name) and a.id == eps_name:
                    try:
                        return float(fold(b, consts))
                    except NotConst:
                        return None
        return None

    def mask_of(e):
        if isinstance(e, ast.Name):
            return masks.get(e.id)
        if isinstance(e, ast.BinOp) and isinstance(e.op, ast.BitOr):
            a, b = mask_of(e.left), mask_of(e.right)
            return None if a is None or b is None else a | b
        if isinstance(e, ast.Compare) and len(e.ops) == 1 and isinstance(e.ops[0], (ast.Gt, ast.Lt)):
            # `X > c*eps` or, mirrored, `c*eps < X`
            lhs, rhs = (e.left, e.comparators[0]) if isinstance(e.ops[0], ast.Gt) else (e.comparators[0], e.left)
            fct = thresh(rhs)
            if fct is not None:
                key = norm(lhs)
                crit[key] = fct
                return {key}
        return None
    ret_mask = None
    order = [st for st in ast.walk(ge) if isinstance(st, (ast.Assign, ast.Return))]
    order.sort(key=lambda s: (s.lineno, s.col_offset))
    for st in order:
        if isinstance(st, ast.Assign) and len(st.targets) == 1 and isinstance(st.targets[0], ast.Name):
            m_ = mask_of(st.value)
            if m_ is not None:
                masks[st.targets[0].id] = m_
            elif st.targets[0].id in masks and st.targets[0].id != "active":
                # redefinition by something that is not an or-combination of criteria
                if not (norm(st.value) == norm(st.targets[0])):
                    masks.pop(st.targets[0].id, None)
        elif isinstance(st, ast.Return) and isinstance(st.value, ast.Tuple):
            ret_mask = mask_of(st.value.elts[0])
    want = {"err.abs()": (1.0, 1.0), "diis_error": (1.0, 100.0), "dm_err": (1.0, 100.0), "dm_element_err": (1.0, 100.0)}
    ctx.check(ret_mask is not None and set(want) <= ret_mask, "R3", scf, ge, "get_error", "returned mask",
              "returned mask = (|dE| > eps) | (DIIS error > c*eps) | (rms dP > c*eps) | (max |dP_ij| > c*eps), combined by `|` only",
              f"convergence mask no longer contains all four criteria through `|`: has {sorted(ret_mask) if ret_mask else None}")
    for key, (lo, hi) in want.items():
        fct = crit.get(key)
        ctx.check(fct is not None and lo <= fct <= hi, "R3", scf, ge, "get_error", f"{key} threshold",
                  f"criterion `{key} > {fct} * eps` uses eps times a module constant in [{lo}, {hi}]",
                  f"criterion on `{key}` has threshold factor {fct} (expected a module constant in [{lo}, {hi}] times eps)")
    # eps not rebound in get_error, drivers pass their own eps
    reb = [st for st in ast.walk(ge) if isinstance(st, (ast.Assign, ast.AugAssign)) and
           any(isinstance(x, ast.Name) and x.id == eps_name and isinstance(x.ctx, ast.Store) for t in (st.targets if isinstance(st, ast.Assign) else [st.target]) for x in ast.walk(t))]
    ctx.check(not reb, "R3", scf, reb[0] if reb else ge, "get_error", reb[0] if reb else "eps", "eps is not rebound inside the convergence test", "eps is modified inside get_error")
    ge_params = [a.arg for a in ge.args.args]
    eps_pos = ge_params.index(eps_name)
    n_calls = 0
    for d in DRIVERS[:3]:
        f = scf.func(d)
        reb = [st for st in ast.walk(f) if isinstance(st, (ast.Assign, ast.AugAssign)) and
               any(isinstance(x, ast.Name) and x.id == "eps" and isinstance(x.ctx, ast.Store) for t in (st.targets if isinstance(st, ast.Assign) else [st.target]) for x in ast.walk(t))]
        ctx.check(not reb, "R3", scf, reb[0] if reb else f, d, reb[0] if reb else "eps", f"{d}: eps parameter is not rebound", f"{d}: eps is modified before the convergence test")
        for c in calls_in(f):
            if callee_attr(c) == "get_error":
                n_calls += 1
                a = c.args[eps_pos] if len(c.args) > eps_pos else {k.arg: k.value for k in c.keywords}.get(eps_name)
                ctx.check(a is not None and norm(a) == "eps", "R3", scf, c, d, c, f"{d}: get_error receives the driver's eps unchanged",
                          f"{d}: convergence test is given `{norm(a)}` instead of the requested threshold eps")
                pa = [norm(x) for x in c.args[:3]]
                # arg0: a local copy of the density made before the update (every definition/store of it is a copy of P); arg1: P; arg2: the mask the driver returns
                prev = c.args[0]
                prev_ok = isinstance(prev, ast.Name) and prev.id != "P"
                if prev_ok:
                    for st in ast.walk(f):
                        if isinstance(st, ast.Assign):
                            for t in st.targets:
                                base = t.value if isinstance(t, ast.Subscript) else t
                                if isinstance(base, ast.Name) and base.id == prev.id:
                                    v = norm(st.value).replace(" ", "")
                                    sl = norm(t.slice) if isinstance(t, ast.Subscript) else None
                                    if not (v in ("P.clone()", "P+0.0", "torch.zeros_like(P)", "P.detach().clone()", "torch.clone(P)") or (sl is not None and v == f"P[{sl}]")):
                                        prev_ok = False
                rets = [r.value.elts[1] for r in ast.walk(f) if isinstance(r, ast.Return) and isinstance(r.value, ast.Tuple) and len(r.value.elts) >= 2 and scf.qualname_of(r) == d]
                mask_names = {norm(x) for x in rets}
                ctx.check(prev_ok and pa[1] == "P" and pa[2] in mask_names, "R3", scf, c, d, c, f"{d}: get_error compares a pre-update copy of the density with the new density of the active molecules",
                          f"{d}: get_error called with {pa} (expected a copy of P taken before the update, P, and the returned convergence mask {sorted(mask_names)})")
        # the energy used in the test is the energy of the density just built
        e_pos = ge_params.index("Eelec_new") if "Eelec_new" in ge_params else 6
        e_names = {norm(c.args[e_pos]) for c in calls_in(f) if callee_attr(c) == "get_error" and len(c.args) > e_pos}
        en = [st for st in ast.walk(f) if isinstance(st, ast.Assign) and isinstance(st.targets[0], ast.Subscript) and norm(st.targets[0].value) in e_names]
        def _e_ok(st):
            mk = norm(st.targets[0].slice)
            return norm(st.value).replace(" ", "") == f"elec_energy(P[{mk}],F[{mk}],Hcore[{mk}])".replace(" ", "")
        ctx.check(bool(en) and all(_e_ok(st) for st in en), "R3", scf,
                  en[0] if en else f, d, en[0] if en else "tested energy", f"{d}: tested energy is E[P_new, F(P_new)]", f"{d}: energy used in the convergence test changed")
    if n_calls < 5:
        raise AnalysisError("get_error call sites not found")
    f3 = scf.func("scf_forward3")
    # KSA: the quantity compared with eps is |E_new - E_old| of the active molecules, E_new being the elec_energy of this iteration
    e_new = {st.targets[0].value.id for st in ast.walk(f3) if isinstance(st, ast.Assign) and isinstance(st.targets[0], ast.Subscript) and isinstance(st.targets[0].value, ast.Name)
             and isinstance(st.value, ast.Call) and (call_name(st.value) or "") == "elec_energy"}
    e3 = []
    for st in ast.walk(f3):
        if isinstance(st, ast.Assign) and isinstance(st.targets[0], ast.Subscript) and isinstance(st.value, ast.Call) and (call_name(st.value) or "") == "torch.abs" and st.value.args \
                and isinstance(st.value.args[0], ast.BinOp) and isinstance(st.value.args[0].op, ast.Sub):
            l, r = st.value.args[0].left, st.value.args[0].right
            mk = norm(st.targets[0].slice)
            if isinstance(l, ast.Subscript) and isinstance(r, ast.Subscript) and norm(l.slice) == mk == norm(r.slice) and norm(l.value) in e_new and norm(r.value) != norm(l.value):
                e3.append(st)
    ctx.check(bool(e3), "R3", scf, e3[0] if e3 else f3,
              "scf_forward3", e3[0] if e3 else "err", "KSA driver tests |dE| of the active molecules against eps", "KSA convergence error changed")
    # SCF.forward hands eps through
    sf = scf.func("SCF.forward")
    for c in calls_in(sf):
        ca = callee_attr(c)
        if ca in DRIVERS:
            target = scf.func(ca)
            ps = [a.arg for a in target.args.args]
            ep = ps.index("eps")
            a = c.args[ep] if len(c.args) > ep else None
            ctx.check(a is not None and norm(a) == "eps", "R3", scf, c, "SCF.forward", f"{ca}(eps)", f"SCF.forward passes eps to {ca} at the eps position",
                      f"SCF.forward passes `{norm(a)}` as eps of {ca}")
    hf = repo.mod("seqm/basics.py").func("Hamiltonian.forward")
    for c in calls_in(hf):
        if callee_attr(c) == "scf_loop":
            kws = {k.arg: norm(k.value) for k in c.keywords}
            ctx.check(kws.get("eps") == "self.eps", "R3", repo.mod("seqm/basics.py"), c, "Hamiltonian.forward", c, "scf_loop receives the configured scf_eps", f"scf_loop eps={kws.get('eps')}")

    # ------------------------------------------------------------------ R4
    mi = consts.get("MAX_ITER")
    ctx.check(isinstance(mi, int) and 1 <= mi <= 100000, "R4", scf, scf.tree, "<module>", "MAX_ITER", f"MAX_ITER is a positive literal ({mi})", f"MAX_ITER = {mi!r}")
    for d in DRIVERS:
        f = scf.func(d)
        g = build_cfg(f)
        # main loop = loop containing the density-builder call
        loops = [n for n in ast.walk(f) if isinstance(n, (ast.For, ast.While)) and
                 any(callee_attr(c) in ("make_Pnew", "Fermi_Q") for c in calls_in(n)) and
                 not any(isinstance(p, (ast.For, ast.While)) and p is not n and any(x is n for x in ast.walk(p)) for p in ast.walk(f))]
        if not loops:
            raise AnalysisError(f"{d}: main loop not found")
        capped = 0
        for L in loops:
            if isinstance(L, ast.For):
                it = L.iter
                ok = isinstance(it, ast.Call) and callee_attr(it) == "range" and ("MAX_ITER" in names_in(it) or all(not (names_in(a) - {"nDirect1", "nAdapt"}) for a in it.args))
            else:
                ok, _ = while_bounded(scf, f, L, g)
                ok = ok and "MAX_ITER" in {x.id for x in ast.walk(L) if isinstance(x, ast.Name)}
            capped += bool(ok)
            ctx.check(ok, "R4", scf, L, d, L.iter if isinstance(L, ast.For) else L.test, f"{d}: SCF loop is capped by MAX_ITER (or a literal pre-iteration count)",
                      f"{d}: SCF iteration loop `{short(L.iter if isinstance(L, ast.For) else L.test, 50)}` is not bounded by MAX_ITER")
        # any assignment to notconverged after the last main loop?  (covered by R2: only init/test definitions exist)
    sl = scf.func("scf_loop")
    warn = [c for c in calls_in(sl) if (call_name(c) or "") == "warnings.warn"]
    wn = [c for c in warn if any(p and "notconverged.any()" in norm(a) for a, p, _ in controlling(scf, scf.enclosing_stmt(c)))]
    ctx.check(bool(wn), "R4", scf, sl, "scf_loop", "warnings.warn", "scf_loop warns when some molecule did not converge", "non-convergence warning removed")


def check_arm_agreement(ctx, scf, rid):
    """For every `if backward: ... else: ...` in the SCF drivers that updates the density, interpret both arms symbolically
    (masked stores on the active molecules = full assignment for an active molecule) and require the same new P and Pold."""
    import sympy as sp

    from ..exprs import identically, to_sympy, torch_funcs
    n = 0
    for d in ("scf_forward0", "scf_forward1", "scf_forward2"):
        f = scf.func(d)
        for iff in ast.walk(f):
            if not (isinstance(iff, ast.If) and norm(iff.test) == "backward" and iff.orelse):
                continue
            if not any(isinstance(s_, ast.Assign) and norm(s_.targets[0]).startswith("P") for s_ in iff.body):
                continue
            n += 1
            syms = {}

            def sym(name):
                return syms.setdefault(name, sp.Symbol(name, real=True))
            funcs = torch_funcs()
            funcs["torch.lerp"] = lambda a, nd: a[0] + a[2] * (a[1] - a[0])
            funcs[".clone"] = lambda a, nd: a[0]

            def interp(block):
                env = {"one_minus_alpha": 1 - sym("alpha"), "fac_register": sym("fac")}
                def key_of(t):
                    # P[notconverged] -> P ; P[notconverged, 0] -> P_0
                    if isinstance(t, ast.Name):
                        return t.id
                    if isinstance(t, ast.Subscript) and isinstance(t.value, ast.Name):
                        sl = t.slice
                        elts = sl.elts if isinstance(sl, ast.Tuple) else [sl]
                        rest = [norm(e) for e in elts if norm(e) != "notconverged"]
                        return t.value.id + ("_" + "_".join(rest) if rest else "")
                    return None

                def sub(nd, rec):
                    k = key_of(nd)
                    if k is None:
                        raise AnalysisError(f"arm: subscript {norm(nd)}")
                    return env.get(k, sym(k))

                def atom(nd):
                    if isinstance(nd, ast.Name):
                        return env.get(nd.id, sym(nd.id))
                    if isinstance(nd, ast.Constant):
                        return None
                    return None
                fl = dict(funcs)
                fl["[]"] = sub
                for st in block:
                    if isinstance(st, ast.Assign) and len(st.targets) == 1:
                        k = key_of(st.targets[0])
                        if k is None:
                            continue
                        v = to_sympy(st.value, env, fl, atom)
                        if isinstance(st.targets[0], ast.Name) and k == "P" and isinstance(st.value, ast.Call) and callee_attr(st.value) == "clone" \
                                and norm(st.value.func.value) == "P":
                            continue  # P = P.clone(): fresh storage, same value
                        env[k] = v
                    elif isinstance(st, ast.If):
                        # nested branch (e.g. cFock < 2): interpret both consistently by test text
                        tkey = norm(st.test)
                        a = interp_nested(st.body, dict(env))
                        b = interp_nested(st.orelse, dict(env))
                        for kk in set(a) | set(b):
                            if kk.startswith("P"):
                                env[kk + "@" + tkey + "=T"] = a.get(kk, env.get(kk, sym(kk)))
                                env[kk + "@" + tkey + "=F"] = b.get(kk, env.get(kk, sym(kk)))
                    elif isinstance(st, ast.Delete):
                        continue
                return env

            def interp_nested(block, env0):
                saved = dict(env0)
                env = interp_block_with(block, saved)
                return env

            def interp_block_with(block, env_in):
                # same as interp but starting from env_in
                out = dict(env_in)
                fl = dict(funcs)

                def key_of(t):
                    if isinstance(t, ast.Name):
                        return t.id
                    if isinstance(t, ast.Subscript) and isinstance(t.value, ast.Name):
                        sl = t.slice
                        elts = sl.elts if isinstance(sl, ast.Tuple) else [sl]
                        rest = [norm(e) for e in elts if norm(e) != "notconverged"]
                        return t.value.id + ("_" + "_".join(rest) if rest else "")
                    return None
                fl["[]"] = lambda nd, rec: out.get(key_of(nd), sym(key_of(nd)))
                for st in block:
                    if isinstance(st, ast.Assign) and len(st.targets) == 1:
                        k = key_of(st.targets[0])
                        if k:
                            out[k] = to_sympy(st.value, out, fl, lambda nd: out.get(nd.id, sym(nd.id)) if isinstance(nd, ast.Name) else None)
                return out
            try:
                ea, eb = interp(iff.body), interp(iff.orelse)
            except AnalysisError as e:
                raise AnalysisError(f"{d}: cannot interpret backward/forward arms at line {iff.lineno}: {e}")
            keys = sorted(k for k in set(ea) | set(eb) if k.startswith("P") and not k.startswith("Pnew") and not k.startswith("Pmix"))
            bad = []
            for k in keys:
                va, vb = ea.get(k, sym(k)), eb.get(k, sym(k))
                if not identically(sp.expand(va - vb), 0):
                    bad.append((k, va, vb))
            ctx.check(not bad, rid, scf, iff, d, iff.test,
                      f"{d} line {iff.lineno}: unrolled and in-place arms give the same new density ({keys})",
                      f"{d}: the backward=True arm computes {bad[0][0]} = {bad[0][1]} but the default arm computes {bad[0][2]}: the unrolled solver follows a "
                      f"different fixed-point iteration (e.g. mixing weights swapped: alpha = 0 never updates the density and is reported converged)" if bad else "")
    if n < 5:
        raise AnalysisError(f"only {n} backward/forward arm pairs found")
