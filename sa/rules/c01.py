"""C01 -- reported forces are the exact negative gradient of the reported energy (structural/algebraic clauses)."""
from __future__ import annotations

import ast
import itertools

from ..exprs import affine, Affine, identically, to_sympy, torch_funcs
from ..loader import AnalysisError, call_name, callee_attr, calls_in, names_in, norm, short
from ..symexec import SymExec

LEVEL = "other"
AG = "seqm/seqm_functions/anal_grad.py"
TE = "seqm/seqm_functions/two_elec_two_center_int.py"
EN = "seqm/seqm_functions/energy.py"
EXPLANATION = (
    "R1 energy-side / derivative-side agreement of the per-atom parameter pipeline that feeds the local-frame two-electron "
    "kernels (hpp, dd, qq, rho_0, rho_1, rho_2): composed def-chains with mask subscripts stripped must be equal in "
    "two_elec_two_center_int and anal_grad.w_der; R2 special-case predicates of the core-core term are compared as truth tables "
    "over atomic numbers 1..20 x 1..20 between pair_nuclear_energy and core_core_der, and the method dispatch sets agree (PM6 "
    "family -> finite differences of pair_nuclear_energy itself); R3 finite-difference stencils in all four semi-numerical "
    "derivative routines are central, use the module constant delta, restore their input (displacements sum to zero) and "
    "divide (first half - second half) by 2*delta with halves in concatenation order; R4 force assembly: force = -(gradient), "
    "gradient buffer zeroed after each read, differentiated scalar = sum Hf; the per-atom gradient is only written by "
    "index_add_ through real-atom indices with opposite signs for the two partners (Newton's third law; padding rows exactly "
    "zero); R5 the analytical core-core derivative is decided by expression algebra: for XH in {true,false} x method in "
    "{MNDO, AM1, PM3}, the pair gradient assembled by core_core_der equals -(1/r) dE/dr * X + dE/dgamma * dgamma/dX of the "
    "energy expression interpreted symbolically from pair_nuclear_energy; R6 the 27 elements of the derivative kernel der_TETCILF are d/dr of the "
    "energy integrals (45-digit identities); R9 dispersion gradient; R10 (sa/rotder.py) the quadruple loop of der_TETCILF is the product-rule "
    "derivation of the polynomial w_withquaternion stores at the same packed index (110 exact polynomial identities), the frame derivative "
    "rot_der assembled from rotate_with_quaternion's gradient branch and the Jacobian of the normalisation is d/du of the energy-side frame "
    "R(u/|u|) (27 identities at random rational bond vectors), and both sides use the same vector; R11 e1b_x / e2a_x are the same linear map of "
    "w_x as e1b / e2a of w. Numerical agreement with finite differences of the whole energy is not decided (runtime quantity)."
)
ASSUMPTIONS = ["finite-difference derivative routines (overlap, PM6 core-core, CIS) are decided for their stencil only (R3); their O(delta^2) truncation error is a runtime quantity",
               "the frame derivative is decided on the generic chart of the quaternion frame; at the antipode (bond along -x) the frame is piecewise constant and its derivative is masked to zero (C02 known finding covers the discontinuity)"]
TRUSTED = ["sympy", "sa.symexec masked straight-line interpreter"]

PIPE = ["hpp", "dd", "qq", "rho_0", "rho_1", "rho_2"]


def _strip_masks(node, masks):
    """Remove `[mask]` subscripts (boolean selections) so that masked and unmasked forms compare equal."""
    class T(ast.NodeTransformer):
        def visit_Subscript(self, n):
            self.generic_visit(n)
            s = n.slice
            if isinstance(s, ast.Name) and s.id in masks:
                return n.value
            if isinstance(s, ast.UnaryOp) and isinstance(s.op, ast.Invert) and isinstance(s.operand, ast.Name) and s.operand.id in masks:
                return n.value
            return n
    import copy
    return T().visit(copy.deepcopy(node))


def _pipeline(mod, func, names):
    """name -> set of normalised composed definitions (init-by-zeros dropped)."""
    masks = {st.targets[0].id for st in ast.walk(func) if isinstance(st, ast.Assign) and isinstance(st.targets[0], ast.Name)
             and isinstance(st.value, (ast.Compare, ast.BinOp)) and (isinstance(st.value, ast.Compare) or isinstance(st.value.op, (ast.BitAnd, ast.BitOr)))}
    aliases = {}
    for st in ast.walk(func):
        if isinstance(st, ast.Assign) and isinstance(st.targets[0], ast.Name) and isinstance(st.value, ast.Attribute) and st.value.attr == "apply":
            aliases[st.targets[0].id] = norm(st.value.value)
    out = {n: [] for n in names}
    stmts = sorted([st for st in ast.walk(func) if isinstance(st, ast.Assign)], key=lambda s: (s.lineno, s.col_offset))
    current = {}
    for st in stmts:
        tg = st.targets[0]
        pairs = []
        if isinstance(tg, ast.Tuple) and isinstance(st.value, ast.Call):
            for i, e in enumerate(tg.elts):
                pairs.append((e, ast.Subscript(value=st.value, slice=ast.Constant(i), ctx=ast.Load())))
        else:
            pairs.append((tg, st.value))
        for t, v in pairs:
            base = t
            masked = False
            while isinstance(base, ast.Subscript):
                base = base.value
                masked = True
            if not (isinstance(base, ast.Name) and base.id in names):
                continue
            nm = base.id
            v2 = _strip_masks(v, masks)
            # compose self-references with the current definition
            class Sub(ast.NodeTransformer):
                def visit_Name(self, n):
                    if n.id == nm and nm in current:
                        return current[nm]
                    if n.id in aliases:
                        return ast.Name(id=aliases[n.id], ctx=ast.Load())
                    return n
            v3 = Sub().visit(v2)
            txt = norm(v3).replace(" ", "")
            if "zeros_like" in txt or txt.startswith("torch.zeros"):
                continue
            if not masked:
                current[nm] = v3
                out[nm] = [txt]
            else:
                out[nm].append(txt)
    return {k: sorted(set(v)) for k, v in out.items()}


def _truth_table(expr, rng=range(1, 21)):
    def ev(n, ni, nj):
        if isinstance(n, ast.BinOp) and isinstance(n.op, ast.BitAnd):
            return ev(n.left, ni, nj) and ev(n.right, ni, nj)
        if isinstance(n, ast.BinOp) and isinstance(n.op, ast.BitOr):
            return ev(n.left, ni, nj) or ev(n.right, ni, nj)
        if isinstance(n, ast.UnaryOp) and isinstance(n.op, ast.Invert):
            return not ev(n.operand, ni, nj)
        if isinstance(n, ast.Compare) and len(n.ops) == 1 and isinstance(n.left, ast.Name) and isinstance(n.comparators[0], ast.Constant):
            a = {"ni": ni, "nj": nj}.get(n.left.id)
            if a is None:
                raise AnalysisError(f"predicate over {n.left.id}")
            b = n.comparators[0].value
            op = n.ops[0]
            return {ast.Eq: a == b, ast.NotEq: a != b, ast.Lt: a < b, ast.LtE: a <= b, ast.Gt: a > b, ast.GtE: a >= b}[type(op)]
        raise AnalysisError(f"predicate form {norm(n)}")
    return frozenset((i, j) for i in rng for j in rng if ev(expr, i, j))


def run(ctx):
    import sympy as sp
    repo = ctx.repo
    ag, te, en = repo.mod(AG), repo.mod(TE), repo.mod(EN)
    ctx.rule("R1", "energy-side and derivative-side parameter pipelines of the two-electron integrals agree")
    ctx.rule("R2", "core-core special-case predicates and method dispatch agree between energy and derivative")
    ctx.rule("R3", "finite-difference stencils are central, restoring and correctly differenced")
    ctx.rule("R4", "force assembly: sign, gradient-buffer hygiene, Newton's third law scatter, padding rows untouched")
    ctx.rule("R5", "analytical core-core derivative equals the symbolic derivative of the core-core energy (6 cases)")
    ctx.rule("R6", "every element of the analytical local-frame derivative kernel is d/dr of the corresponding energy integral (27 identities)")
    ctx.rule("R7", "back-propagated forces see the response of the density: unrolled SCF drivers write no solver state under no_grad (shared with C07-R5)")
    ctx.rule("R8", "every molecule's gradient is built from its own state and sizes (representative-row rule, shared with C05-R1)")
    ctx.rule("R9", "analytical dispersion gradient is the derivative of the dispersion pair energy (AM1-FS1, expression algebra)")
    ctx.rule("R10", "derivative of the rotated two-electron integrals: product rule over (local integrals, frame) and d(frame)/dX of the quaternion frame (110 + 27 identities)")
    ctx.rule("R11", "core-electron attraction derivatives e1b_x / e2a_x are the same linear map of w_x as e1b / e2a of w (charge atom, packed index, pair class)")
    ctx.rule("R12", "density contraction of the integral derivatives is the derivative of the package's own energy functional at fixed density (RHF and UHF, exact identity on a padded symbolic batch)")
    from ..assembly import check_gradient_contraction
    check_gradient_contraction(ctx, "R12")
    ctx.rule("R13", "the excitation energy differentiated for reverse-mode excited-state forces is the CIS / RPA energy of the reported amplitudes (shared with C16-R9)")
    from ..assembly import check_cis_energy
    check_cis_energy(ctx, "R13")
    _r9_dispersion(ctx, repo)
    _r10_rotation_derivative(ctx, repo)
    _r11_core_electron(ctx, repo)
    from .c07 import check_unrolled_graph
    check_unrolled_graph(ctx, repo.mod("seqm/seqm_functions/scf_loop.py"), "R7")
    from .c05 import check_rep_rows
    check_rep_rows(ctx, "R8")
    _r6_derivative_kernel(ctx, repo)

    # ------------------------------------------------------------------ R1
    pe = _pipeline(te, te.func("two_elec_two_center_int"), PIPE)
    pd = _pipeline(ag, ag.func("w_der"), PIPE)
    for nm in PIPE:
        if not pe[nm] or not pd[nm]:
            raise AnalysisError(f"pipeline name {nm} not found on both sides ({pe[nm]} / {pd[nm]})")
        ctx.check(pe[nm] == pd[nm], "R1", ag, ag.func("w_der"), "w_der", f"{nm} def-chain",
                  f"`{nm}` is derived identically for the energy integrals and for their derivatives ({pe[nm]})",
                  f"`{nm}` differs between the energy side {pe[nm]} (two_elec_two_center_int) and the derivative side {pd[nm]} (anal_grad.w_der): "
                  f"the analytical gradient differentiates a different function than the energy evaluates")
    # both feed the kernels with the same argument structure
    wd = ag.func("w_der")
    dcall = [c for c in calls_in(wd) if callee_attr(c) == "der_TETCILF"]
    if not dcall:
        raise AnalysisError("w_der: der_TETCILF call not found")
    args = [norm(a) for a in dcall[0].args]
    want = ["dd[idxi]", "dd[idxj]", "qq[idxi]", "qq[idxj]", "rho_0[idxi]", "rho_0[idxj]", "rho_1[idxi]", "rho_1[idxj]", "rho_2[idxi]", "rho_2[idxj]"]
    ctx.check(args[6:16] == want, "R1", ag, dcall[0], "w_der", dcall[0], "derivative kernel receives (dd, qq, rho_0, rho_1, rho_2) for atoms i, j in order",
              f"der_TETCILF receives {args[6:16]}")

    # ------------------------------------------------------------------ R2
    pne = en.func("pair_nuclear_energy")
    ccd = ag.func("core_core_der")
    def pred(func, name, which=0):
        ds = [st for st in ast.walk(func) if isinstance(st, ast.Assign) and norm(st.targets[0]) == name]
        ds.sort(key=lambda s: s.lineno)
        if len(ds) <= which:
            raise AnalysisError(f"{func.name}: predicate {name} not found")
        return ds[which]
    e_xh, d_xh = pred(pne, "XH", 0), pred(ccd, "XH", 0)
    te_, td_ = _truth_table(e_xh.value), _truth_table(d_xh.value)
    ctx.check(te_ == td_, "R2", ag, d_xh, "core_core_der", d_xh,
              f"X-H special-case predicate selects the same {len(te_)} element pairs (of 400) in energy and derivative",
              f"core_core_der treats `{norm(d_xh.value)}` as X-H pairs but pair_nuclear_energy uses `{norm(e_xh.value)}`: they differ on "
              f"{len(te_ ^ td_)} element pairs, e.g. (ni,nj) = {sorted(te_ ^ td_)[:3]}")
    spec = frozenset((i, 1) for i in (7, 8))
    ctx.check(te_ == spec, "R2", en, e_xh, "pair_nuclear_energy", e_xh, "MNDO-type X-H exception applies to N-H and O-H only",
              f"X-H exception of the energy selects {sorted(te_)[:6]}...")
    # masked stores use complementary masks in both
    for func, mod in ((pne, en), (ccd, ag)):
        ms = [norm(st.targets[0].slice) for st in ast.walk(func) if isinstance(st, ast.Assign) and isinstance(st.targets[0], ast.Subscript) and norm(st.targets[0].value) == "t2"]
        ctx.check(sorted(ms) == ["XH", "~XH"], "R2", mod, func, func.name, "t2 masked stores", f"{func.name}: t2 is filled on XH and on ~XH (complementary)",
                  f"{func.name}: t2 masked stores use {ms}")
    # dispatch, by value: the methods whose core-core *energy* uses the diatomic (PM6-type) parameters -- found by interpreting pair_nuclear_energy on one symbolic O-O pair per
    # method and looking for the diatomic x parameter in the result -- must be exactly the methods that core_core_der hands to the finite-difference derivative (three-valued
    # exploration of its flow graph with the method bound to a value)
    from .c18 import reach_under
    from ..cfg import build_cfg as _bcfg
    import numpy as _np
    import types as _types
    from ..npsym import NpSym as _NpSym, Raised as _Raised
    methods_ = ("MNDO", "AM1", "PM3", "PM6", "PM6_SP", "PM6_SP_STAR")
    g_ccd = _bcfg(ccd)
    fd_methods = set()
    for mth in methods_:
        seen_, _ = reach_under(g_ccd, {"@values": {"method": mth}})
        if any(n_.kind == "stmt" and any(callee_attr(c) == "core_core_der_fd" for c in calls_in(n_.stmt)) for n_ in (g_ccd.nodes[i] for i in seen_)):
            fd_methods.add(mth)
    e_pm6 = set()
    sym_ = lambda t, n: _np.array([sp.Symbol(f"{t}{k}", positive=True) for k in range(n)], dtype=object)
    chi_ = _np.array([[sp.Symbol(f"x_{a_}_{b_}") for b_ in range(10)] for a_ in range(10)], dtype=object)
    alp_ = _np.array([[sp.Symbol(f"al_{a_}_{b_}") for b_ in range(10)] for a_ in range(10)], dtype=object)
    KLM_ = tuple(_np.array([[sp.Symbol(f"{t}{a_}_{g_}") for g_ in range(4)] for a_ in range(2)], dtype=object) for t in "KLM")
    for mth in methods_:
        const_ = _types.SimpleNamespace(atomic_num=_np.array([sp.Integer(z) for z in range(10)], dtype=object), tore=sym_("Z", 10))
        pars_ = (sym_("alpha", 2),) if mth == "MNDO" else (sym_("alpha", 2),) + tuple(k_[:, :(2 if mth == "PM3" else 4)] for k_ in KLM_)
        try:
            E_ = _NpSym(repo).call_function(en, pne, [None, const_, 1, _np.array([8]), _np.array([8]), _np.array([0]), _np.array([1]), sym_("r", 1), sym_("ra", 1), sym_("rb", 1), alp_, chi_],
                                            {"gam": sym_("gam", 1), "method": mth, "parameters": pars_})
        except _Raised:
            continue
        if chi_[8, 8] in sp.sympify(_np.asarray(E_).reshape(-1)[0]).free_symbols:
            e_pm6.add(mth)
    ctx.check(bool(fd_methods) and fd_methods == e_pm6, "R2", ag, ccd, "core_core_der", "method dispatch",
              f"methods {sorted(fd_methods)} (those whose core-core energy uses the diatomic parameters) are differentiated by finite differences of pair_nuclear_energy",
              f"core_core_der delegates {sorted(fd_methods)} to finite differences but the core-core energy uses the diatomic (PM6-type) form for {sorted(e_pm6)}: for the other "
              f"methods the analytical derivative differentiates another function than the energy evaluates")
    fd = ag.func("core_core_der_fd")
    ctx.check(any(callee_attr(c) == "pair_nuclear_energy" for c in calls_in(fd)), "R2", ag, fd, "core_core_der_fd", fd.name,
              "finite-difference core-core derivative differences pair_nuclear_energy itself", "core_core_der_fd no longer calls pair_nuclear_energy")
    # which methods return an analytical derivative: decided by exploring the routine's flow graph with the method name bound (any spelling of the dispatch)
    from ..cfg import build_cfg
    from .c18 import reach_under
    gcc = build_cfg(ccd)

    def exits(x):
        seen_, _ = reach_under(gcc, {"@values": {"method": x}})
        rets_ = [gcc.nodes[n_].stmt for n_ in seen_ if gcc.nodes[n_].kind == "stmt" and isinstance(gcc.nodes[n_].stmt, ast.Return)]
        raises_ = [gcc.nodes[n_].stmt for n_ in seen_ if gcc.nodes[n_].kind == "stmt" and isinstance(gcc.nodes[n_].stmt, ast.Raise)]
        fd_ = [r_ for r_ in rets_ if any(callee_attr(c) == "core_core_der_fd" or call_name(c) == "core_core_der_fd" for c in calls_in(r_))]
        return [r_ for r_ in rets_ if r_ not in fd_], fd_, raises_
    for x in ("MNDO", "AM1", "PM3"):
        an, fd_r, rs = exits(x)
        ctx.check(bool(an) and not fd_r and not rs, "R2", ag, ccd, "core_core_der", f"method {x}", f"{x}: the analytical core-core derivative is returned (no finite-difference delegate, no rejection reachable)",
                  f"{x}: core_core_der reaches analytical returns={len(an)}, finite-difference returns={len(fd_r)}, raises={len(rs)}")
    for x in sorted(fd_methods):
        an, fd_r, rs = exits(x)
        ctx.check(bool(fd_r) and not an, "R2", ag, ccd, "core_core_der", f"method {x}", f"{x}: only the finite-difference delegate returns", f"{x}: an analytical return is reachable for a PM6-family method")
    an, fd_r, rs = exits("no-such-method")
    ctx.check(not an and not fd_r and bool(rs), "R2", ag, ccd, "core_core_der", "unknown method", "an unknown method name is rejected", "an unknown method name reaches a return of core_core_der")

    # ------------------------------------------------------------------ R3
    stencils = [(AG, "w_derivative_numerical"), (AG, "overlap_der_finiteDiff"), (AG, "core_core_der_fd")]
    n_st = 0
    steps_seen = set()
    for rel, q in stencils:
        m = repo.mod(rel)
        f = m.func(q)
        loops = [l for l in ast.walk(f) if isinstance(l, ast.For) and norm(l.iter) == "range(3)"]
        if len(loops) != 1:
            raise AnalysisError(f"{q}: coordinate loop not found")
        L = loops[0]
        cv = L.target.id
        n_st += 1
        disp = []
        order = []
        for i, st in enumerate(L.body):
            if isinstance(st, ast.AugAssign) and isinstance(st.target, ast.Subscript) and isinstance(st.target.value, ast.Name) and cv in names_in(st.target.slice) \
                    and isinstance(st.op, (ast.Add, ast.Sub)):
                a = affine(st.value)
                a = a.scale(-1) if isinstance(st.op, ast.Sub) else a
                disp.append(a)
                order.append(("D", i))
            elif isinstance(st, ast.Assign):
                order.append(("A", i, st))
        # the step is whatever single symbol the displacements are multiples of; it must be a module-level constant
        syms = sorted({k for a in disp for k in a.coef}) if disp else []
        STEP = syms[0] if len(syms) == 1 else "delta"
        d = Affine({STEP: 1}, 0)
        ok = len(disp) == 3 and disp[0] == d.scale(-1) and disp[1] == d.scale(2) and disp[2] == d.scale(-1)
        ctx.check(ok, "R3", m, L, q, L, f"{q}: Xij[:, {cv}] is displaced by -delta, +2*delta, -delta (central stencil, input restored)",
                  f"{q}: displacements of Xij are {disp}: not a central stencil that restores its input (later coordinates/derivatives are evaluated at a shifted geometry)")
        # halves: first concatenated operand computed between D1 and D2, second between D2 and D3
        dpos = [i for k, i, *_ in order if k == "D"]
        cats = [st for st in L.body if isinstance(st, ast.Assign) and isinstance(st.value, ast.Call) and call_name(st.value) == "torch.cat"]
        good = bool(cats) and len(dpos) == 3
        for c in cats:
            elts = c.value.args[0].elts if isinstance(c.value.args[0], (ast.List, ast.Tuple)) else []
            if len(elts) != 2:
                good = False
                continue
            def def_pos(nm):
                ps = [i for i, st in enumerate(L.body) if isinstance(st, ast.Assign) and norm(st.targets[0]) == nm]
                return ps
            p0, p1 = def_pos(norm(elts[0])), def_pos(norm(elts[1]))
            good = good and bool(p0) and bool(p1) and all(dpos[0] < p < dpos[1] for p in p0) and all(dpos[1] < p < dpos[2] for p in p1)
        ctx.check(good, "R3", m, L, q, cats[0] if cats else L, f"{q}: concatenated halves are [geometry after the first displacement, geometry after the second]",
                  f"{q}: the two halves of the stacked evaluation are not (x_i + delta, x_i - delta) in that order")
        quots = [st for st in L.body if isinstance(st, ast.Assign) and isinstance(st.value, ast.BinOp) and isinstance(st.value.op, ast.Div)
                 and isinstance(st.targets[0], ast.Subscript) and cv in names_in(st.targets[0].slice)]
        qok = bool(quots)
        for qs in quots:
            num, den = qs.value.left, qs.value.right
            qok = qok and affine(den) == d.scale(2)
            qok = qok and isinstance(num, ast.BinOp) and isinstance(num.op, ast.Sub) and norm(num.left).replace(" ", "").endswith("[:npairs]") \
                and norm(num.right).replace(" ", "").endswith("[npairs:]") and norm(num.left.value) == norm(num.right.value)
        ctx.check(qok, "R3", m, L, q, quots[0] if quots else L, f"{q}: derivative = (first half - second half) / (2*delta) ({len(quots)} quotients)",
                  f"{q}: finite-difference quotient is not (first half - second half)/(2*delta): `{short(quots[0], 70) if quots else ''}`")
        # delta is the module constant
        reb = [st for st in ast.walk(f) if isinstance(st, ast.Assign) and norm(st.targets[0]) == STEP]
        ctx.check(not reb and STEP in m.globals, "R3", m, reb[0] if reb else f, q, reb[0] if reb else STEP, f"{q}: uses the module constant {STEP}", f"{q}: rebinds {STEP} locally")
        steps_seen.add(STEP)
    if n_st < 3:
        raise AnalysisError("stencils not found")
    for STEP in sorted(steps_seen):
        dv = ag.globals.get(STEP)
        ctx.check(isinstance(dv, ast.Constant) and isinstance(dv.value, float) and 1e-7 <= dv.value <= 1e-3, "R3", ag, dv if dv is not None else ag.tree, "<module>", STEP,
                  f"{STEP} = {getattr(dv, 'value', None)} within [1e-7, 1e-3]", f"finite-difference step {STEP} = {getattr(dv, 'value', None)} out of range")

    # ------------------------------------------------------------------ R4
    from ..forcerules import check_force_assembly
    check_force_assembly(ctx, "R4")
    co = ag.func("contract_ao_derivatives_with_density")
    gdefs = [st for st in ast.walk(co) if isinstance(st, ast.Assign) and norm(st.targets[0]) == "grad"]
    gwrites = [c for c in calls_in(co) if isinstance(c.func, ast.Attribute) and norm(c.func.value) == "grad" and c.func.attr.endswith("_")]
    ok = len(gwrites) == 2 and all(c.func.attr == "index_add_" for c in gwrites)
    if ok:
        a, b = gwrites
        ia, ib = norm(a.args[1]), norm(b.args[1])
        sa = {k.arg: norm(k.value) for k in a.keywords}.get("alpha", "1.0")
        sb = {k.arg: norm(k.value) for k in b.keywords}.get("alpha", "1.0")
        ok = {ia, ib} == {"real_atoms[idxi]", "real_atoms[idxj]"} and norm(a.args[2]) == norm(b.args[2]) == "pair_grad" and \
            {float(sa), float(sb)} == {1.0, -1.0} and norm(a.args[0]) == norm(b.args[0]) == "0"
    ctx.check(ok, "R4", ag, co, "contract_ao_derivatives_with_density", gwrites[0] if gwrites else co.name,
              "per-atom gradient is written only by index_add_ of +pair_grad to atom i and -pair_grad to atom j through real-atom indices",
              "gradient scatter is not the antisymmetric pair of index_add_ through real_atoms[idxi]/[idxj]: net force is not zero or padding rows are written")
    ra = [st for st in ast.walk(co) if isinstance(st, ast.Assign) and norm(st.targets[0]) == "real_atoms"]
    ctx.check(bool(ra) and "species.reshape(-1) > 0" in norm(ra[0].value), "R4", ag, ra[0] if ra else co, "contract_ao_derivatives_with_density", ra[0] if ra else "real_atoms",
              "real_atoms selects species > 0 (padding rows are never indexed)", "real_atoms selection changed")
    ctx.check(len(gdefs) == 2 and "torch.zeros" in norm(gdefs[0].value) and "view" in norm(gdefs[1].value), "R4", ag, co, "contract_ao_derivatives_with_density", "grad definitions",
              "gradient starts from zeros and is only reshaped afterwards", f"grad definitions: {[short(g, 40) for g in gdefs]}")
    # restricted exchange prefactor 0.5 and coulomb weight 0.5
    half = [st for st in ast.walk(co) if isinstance(st, ast.AugAssign) and isinstance(st.op, ast.Sub) and "overlap_KAB_x[..., i, j]" in norm(st.target)]
    ctx.check(bool(half) and norm(half[0].value).replace(" ", "").startswith("0.5*torch.sum("), "R4", ag, half[0] if half else co, "contract_ao_derivatives_with_density",
              half[0] if half else "exchange", "restricted exchange enters with -1/2 P (mu nu|la si)", "restricted exchange prefactor changed")
    # spin blocks of an unrestricted density: spin axis first before the (spin, mol, ...) reshape
    pal = [st for st in ast.walk(co) if isinstance(st, ast.Assign) and norm(st.targets[0]) == "PAlpha_"]
    if pal:
        t = norm(pal[0].value).replace(" ", "")
        ctx.check(t.startswith("P0.transpose(0,1).reshape((2,nmol,"), "R4", ag, pal[0], "contract_ao_derivatives_with_density", pal[0],
                  "unrestricted density (nmol, 2, ...) is transposed to (2, nmol, ...) before the spin-major reshape",
                  "unrestricted density is reshaped to (2, nmol, ...) without moving the spin axis first: alpha/beta blocks of different molecules are interleaved in a batch")

    # ------------------------------------------------------------------ R5
    r, ai, aj, Zi, Zj, gam, X, dG = sp.symbols("r alpha_i alpha_j Z_i Z_j gamma X dG", positive=True)
    Ki, Kj, Li, Lj, Mi, Mj = sp.symbols("K_i K_j L_i L_j M_i M_j", real=True)
    a0s = sp.Symbol("a0", positive=True)
    idx = {"tore[ni]": Zi, "tore[nj]": Zj, "alpha[idxi]": ai, "alpha[idxj]": aj, "K[idxi]": Ki, "K[idxj]": Kj, "L[idxi]": Li, "L[idxj]": Lj,
           "M[idxi]": Mi, "M[idxj]": Mj, "w_x[:, :, 0, 0]": dG}
    funcs = {".reshape": lambda a, n: a[0], ".unsqueeze": lambda a, n: a[0]}
    n5 = 0
    for method, xh in itertools.product(("MNDO", "AM1", "PM3"), (False, True)):
        n5 += 1
        alpha_t = sp.Symbol("alpha_tuple")
        par = (alpha_t, sp.Symbol("K"), sp.Symbol("L"), sp.Symbol("M")) if method != "MNDO" else (alpha_t,)
        # energy: rij is in bohr, rija = rij*a0 in Angstrom; take r := rija as the variable
        envE = {"rij": r / a0s, "a0": a0s, "gam": gam, "parameters": par, "const.tore": sp.Symbol("tore"), "const.atomic_num": sp.Symbol("an")}
        se = SymExec(envE, {"XH": xh}, {**__import__("sa.symexec", fromlist=["literal_globals"]).literal_globals(repo.mod("seqm/seqm_functions/energy.py")), "method": method}, dict(idx, **{"parameters[0]": sp.Symbol("alpha")}), funcs)
        se.env["alpha"] = sp.Symbol("alpha")
        try:
            E = se.run([s for s in pne.body])
        except AnalysisError as e:
            raise AnalysisError(f"pair_nuclear_energy not interpretable for {method}, XH={xh}: {e}")
        if E is None or isinstance(E, tuple):
            raise AnalysisError(f"pair_nuclear_energy returned {E} for {method}")
        envD = {"mol.rij": r / a0s, "rij": r / a0s, "a0": a0s, "gam": gam, "parameters": par, "mol.xij": X / r, "xij": X / r, "const.tore": sp.Symbol("tore"),
                "w_x": sp.Symbol("w_x")}
        sd = SymExec(envD, {"XH": xh}, {**__import__("sa.symexec", fromlist=["literal_globals"]).literal_globals(repo.mod("seqm/seqm_functions/anal_grad.py"), repo.mod("seqm/seqm_functions/energy.py")), "method": method}, dict(idx, **{"parameters[0]": sp.Symbol("alpha"), "w_x[:, :, 0, 0]": dG}), funcs)
        first_if = next((s_ for s_ in ccd.body if isinstance(s_, ast.If) and any(callee_attr(c_) == "core_core_der_fd" for c_ in calls_in(s_))), None)
        body = [s for s in ccd.body if s is not first_if]
        # local aliases (ni = mol.ni ...) are bookkeeping; pre-bind the ones that matter
        sd.env.update({"alpha": sp.Symbol("alpha"), "tore": sp.Symbol("tore")})
        try:
            Gd = sd.run(body)
        except AnalysisError as e:
            raise AnalysisError(f"core_core_der not interpretable for {method}, XH={xh}: {e}")
        if Gd is None or isinstance(Gd, tuple):
            raise AnalysisError(f"core_core_der returned {Gd} for {method}")
        want = -sp.diff(E, r) / r * X + sp.diff(E, gam) * dG
        ok = identically(sp.expand(Gd - want), 0)
        ctx.check(ok, "R5", ag, ccd, "core_core_der", f"{method}, XH={xh}",
                  f"{method}, X-H={xh}: pair gradient = -(1/r) dE/dr X + dE/dgamma dgamma/dX of the core-core energy",
                  f"core_core_der ({method}, X-H pair={xh}) returns {sp.simplify(Gd)} but the derivative of pair_nuclear_energy is {sp.simplify(want)}")
    if n5 != 6:
        raise AnalysisError("core-core cases incomplete")


def _r6_derivative_kernel(ctx, repo):
    """der_TETCILF stores, for every local-frame integral, `term * g` with term = -ev/a0^2/r * X.  The energy kernel is re-read as sympy
    expressions (sa.elemexec), differentiated with respect to the distance, and g must equal (d ri/dr)/ev for all 22 heavy-heavy, 4 heavy-H and
    the H-H element (45-digit evaluation at random rational points).  This discharges the assumption that TETCILF / der_TETCILF are
    derivative-consistent."""
    import sympy as sp
    from ..elemexec import ElemExec
    from .c06 import _num_zero, interpret_local_frame
    m, f, ex, r, S, base = interpret_local_frame(repo)
    ag = repo.mod(AG)
    d = ag.func("der_TETCILF")
    T = sp.Symbol("T", positive=True)
    env = dict(base)
    env.update({"term": T, "a0": sp.Symbol("a0", positive=True), "Xij": sp.Symbol("X", positive=True)})
    # `term` is the common vector prefactor: its definition must be -ev/a0/a0/r0 * Xij (checked textually), then it is a symbol
    tdef = [st for st in d.body if isinstance(st, ast.Assign) and isinstance(st.targets[0], ast.Name) and st.targets[0].id == "term"]
    ok_t = bool(tdef) and norm(tdef[0].value).replace(" ", "") in ("-ev/a0/a0/r0.unsqueeze(1)*Xij", "-ev/(a0*a0)/r0.unsqueeze(1)*Xij", "-ev/a0**2/r0.unsqueeze(1)*Xij")
    ctx.check(ok_t, "R6", ag, tdef[0] if tdef else d, "der_TETCILF", "term", "common prefactor term = -ev/a0^2/r * X (chain rule dr/dX in eV/Angstrom)",
              f"prefactor is `{norm(tdef[0].value) if tdef else None}`")
    dx = ElemExec(env)
    dx.run([st for st in d.body if not (tdef and (st is tdef[0] or (isinstance(st, ast.Assign) and norm(st.targets[0]) == "term")))])
    n = 0
    for arr, n_el, earr in (("ri_x", 22, "ri"), ("riXH_x", 4, "riXH")):
        for k in range(n_el):
            if (arr, k) not in dx.elems:
                ctx.fail("R6", ag, d, "der_TETCILF", f"{arr}[{k + 1}]", f"derivative element {arr}[{k + 1}] not found")
                continue
            n += 1
            diff = dx.elems[(arr, k)] / T - sp.diff(ex.elems[(earr, k)], r) / S["ev"]
            ctx.check(_num_zero(diff, 400 + k + (50 if arr == "riXH_x" else 0)), "R6", ag, d, "der_TETCILF", f"{arr}[{k + 1}]",
                      f"{arr}[{k + 1}] / term = (d {earr}[{k + 1}]/dr)/ev identically",
                      f"{arr}[{k + 1}] is not the derivative of the energy integral {earr}[{k + 1}]: the analytical gradient of this two-electron integral is wrong "
                      f"(forces differ from -dE/dx for every molecule that has this integral)")
    if "riHH_x" in dx.env and "riHH" in ex.env:
        n += 1
        diff = dx.env["riHH_x"] / T - sp.diff(ex.env["riHH"], r) / S["ev"]
        ctx.check(_num_zero(diff, 499), "R6", ag, d, "der_TETCILF", "riHH_x", "riHH_x / term = (d riHH/dr)/ev", "H-H derivative element is not the derivative of the H-H integral")
    if n < 27:
        raise AnalysisError(f"only {n} derivative elements compared")


def _r9_dispersion(ctx, repo):
    """E_pair = -C6 (a0 r)^-6 f(r) K with f the logistic damping; dEdisp_dr must return (dE_pair/dR) with R = a0 r in Angstrom, times the
    unit vector with the sign of x_j - x_i.  Both routines are read as sympy expressions of the same symbols (the clipping of f in its
    saturated tails has zero derivative and is skipped)."""
    import sympy as sp
    rel = "seqm/seqm_functions/dispersion_am1_fs1.py"
    if not repo.has(rel):
        return
    m = repo.mod(rel)
    r, C6, Rv, d, SR, a0s, K = sp.symbols("r C6 Rvdw d S_R a0 K", positive=True)
    env = {"mol.rij": r, "C6ij": C6, "R_vdw": Rv, "d": d, "S_R": SR, "a0": a0s, "EV_PER_ATOM_PER_J_PER_MOL": K}
    funcs = torch_funcs()
    funcs["torch.sigmoid"] = lambda a, n: 1 / (1 + sp.exp(-a[0]))
    funcs["torch.pow"] = lambda a, n: a[0] ** a[1]
    funcs[".unsqueeze"] = lambda a, n: a[0]
    damp = m.func("dispersion_damping")
    e_d = dict(env)
    for st in damp.body:
        if isinstance(st, ast.Assign) and len(st.targets) == 1 and isinstance(st.targets[0], ast.Name):
            if isinstance(st.value, ast.Call) and (call_name(st.value) or "") == "torch.where":
                continue                      # clipping in the saturated tails
            try:
                e_d[st.targets[0].id] = to_sympy(st.value, e_d, funcs)
            except AnalysisError:
                pass
    if "f_damp" not in e_d or "alpha" not in e_d:
        raise AnalysisError("dispersion_damping: f_damp / alpha not interpretable")
    want_f = 1 / (1 + sp.exp(-d * (a0s * r / (SR * Rv) - 1)))
    ctx.check(sp.simplify(e_d["f_damp"] - want_f) == 0, "R9", m, damp, "dispersion_damping", "f_damp", "f = logistic(d (R/(S_R R_vdw) - 1))", f"f_damp = {e_d['f_damp']}")
    en = m.func("dispersion_am1_fs1")
    e_e = dict(env, f_damp=e_d["f_damp"])
    Epair = None
    for st in en.body:
        if isinstance(st, ast.Assign) and len(st.targets) == 1 and norm(st.targets[0]) == "E_disp_pair":
            Epair = to_sympy(st.value, e_e, funcs)
    scale = [st for st in en.body if isinstance(st, ast.Assign) and norm(st.targets[0]) == "E_disp" and isinstance(st.value, ast.BinOp) and "E_disp" in norm(st.value.left)]
    if Epair is None or not scale:
        raise AnalysisError("dispersion_am1_fs1: pair energy / unit conversion not found")
    conv = to_sympy(scale[0].value, dict(env, E_disp=sp.Integer(1)), funcs)
    Epair = Epair * conv
    gr = m.func("dEdisp_dr")
    e_g = dict(env, f_damp=e_d["f_damp"], alpha=e_d["alpha"])
    ret = None
    for st in gr.body:
        if isinstance(st, ast.Assign) and len(st.targets) == 1 and isinstance(st.targets[0], ast.Name):
            if isinstance(st.value, ast.Call) and (call_name(st.value) or "") == "dispersion_damping":
                continue
            try:
                e_g[st.targets[0].id] = to_sympy(st.value, e_g, funcs)
            except AnalysisError:
                pass
        elif isinstance(st, ast.Tuple):
            pass
        elif isinstance(st, ast.Return):
            ret = st
    if "dE_pair" not in e_g or ret is None:
        raise AnalysisError("dEdisp_dr: dE_pair not interpretable")
    R = sp.Symbol("R", positive=True)
    dE_dR = sp.diff(Epair.subs(r, R / a0s), R).subs(R, a0s * r)
    resid = sp.simplify(e_g["dE_pair"] - dE_dR)
    ctx.check(resid == 0, "R9", m, gr, "dEdisp_dr", "dE_pair", "dE_pair = d(E_pair)/dR with R = a0 r (eV/Angstrom), including the derivative of the damping function",
              f"dE_pair differs from the derivative of the dispersion pair energy by {resid}: with `dispersion` on, analytical forces are not -dE/dx")
    rt = norm(ret.value).replace(" ", "")
    ctx.check(rt == "-dE_pair.unsqueeze(1)*mol.xij", "R9", m, ret, "dEdisp_dr", "return", "pair gradient = -dE/dR * (x_j - x_i)/|x_j - x_i| (gradient with respect to atom i)",
              f"returned `{rt}`")


def _r10_rotation_derivative(ctx, repo):
    """see sa/rotder.py"""
    import random
    import sympy as sp
    from .. import rotder, rotint
    ag, te = repo.mod(AG), repo.mod(TE)
    d = ag.func("der_TETCILF")
    wq = te.func("w_withquaternion")
    q = te.func("rotate_with_quaternion")
    ri = [sp.Symbol(f"ri{k}") for k in range(22)]
    dri = [sp.Symbol(f"dri{k}") for k in range(22)]
    rx = [sp.Symbol(f"rx{k}") for k in range(4)]
    drx = [sp.Symbol(f"drx{k}") for k in range(4)]
    mk = lambda p: [[sp.Symbol(f"{p}{a}{b}") for b in range(3)] for a in range(3)]
    R, dR, RX, dRX = mk("R"), mk("dR"), mk("X"), mk("dX")
    # ---- (A) product rule: both routines are interpreted (sa.npsym) on an O-C, a C-H and an H-H pair
    iw = rotint.interpret_w(repo, ri, rx, R, RX)
    dt = rotder.interpret_derivative_tail(repo)
    W = dt["w_x_final"]
    names = "s x y z".split()
    combos = rotint.packed_combos()
    n_id = 0
    # directions 1 and 2 must be direction 0 with the derivative symbols of that direction (exact rational evaluation at a random point)
    rng_ = random.Random(77)
    allsyms = set()
    for x_ in W.reshape(-1):
        allsyms |= sp.sympify(x_).free_symbols
    pt_ = {s_: sp.Rational(rng_.randint(-40, 40), rng_.randint(1, 9)) for s_ in allsyms}
    for dirn in (1, 2):
        mp_ = {dt["dri"][0][k_]: dt["dri"][dirn][k_] for k_ in range(22)}
        mp_.update({dt["drx"][0][k_]: dt["drx"][dirn][k_] for k_ in range(4)})
        mp_.update({dt["dhh"][0]: dt["dhh"][dirn]})
        base_dr = dt["dR"]
        for p_ in range(3):
            for a in range(3):
                for b in range(3):
                    s0 = list(sp.sympify(base_dr[p_, 0, a, b]).free_symbols)[0]
                    sd = list(sp.sympify(base_dr[p_, dirn, a, b]).free_symbols)[0]
                    mp_[s0] = sd
        same = all(sp.sympify(W[p_, dirn, i_, j_]).xreplace(pt_) == sp.sympify(W[p_, 0, i_, j_]).xreplace(mp_).xreplace(pt_) for p_ in range(3) for i_ in range(10) for j_ in range(10))
        ctx.check(same, "R10", ag, d, "der_TETCILF", f"direction {dirn}", f"Cartesian direction {dirn} of the derivative block is direction 0 with that direction's derivative inputs",
                  f"Cartesian direction {dirn} of the derivative block is assembled differently from direction 0")
    for dirn in range(1):
        pairsXX = list(zip(ri, dt["dri"][dirn])) + [(R[a][b], dt["dR"][0, dirn, a, b]) for a in range(3) for b in range(3)]
        pairsXH = list(zip(rx, dt["drx"][dirn])) + [(RX[a][b], dt["dR"][1, dirn, a, b]) for a in range(3) for b in range(3)]
        # the derivative tail uses its own symbols for ri / rot: rename them to the energy-side symbols
        ren = {dt["ri"][k_]: ri[k_] for k_ in range(22)}
        ren.update({dt["rx"][k_]: rx[k_] for k_ in range(4)})
        ren.update({dt["rot"][0, a, b]: R[a][b] for a in range(3) for b in range(3)})
        ren.update({dt["rot"][1, a, b]: RX[a][b] for a in range(3) for b in range(3)})
        for i_, c in enumerate(combos):
            lab = f"({names[c[0]]}{names[c[1]]}|{names[c[2]]}{names[c[3]]})"
            got = sp.sympify(W[0, dirn, i_ // 10, i_ % 10]).xreplace(ren)
            ok = sp.expand(got - rotder.derivation(iw["w"][i_], pairsXX)) == 0
            n_id += 1
            if dirn == 0 or not ok:
                ctx.check(ok, "R10", ag, d, "der_TETCILF", f"w_x[{i_}] = d{lab}", f"w_x[{i_}] is the product-rule derivative of the energy-side w[{i_}] = {lab} (all three directions)",
                          f"w_x[{i_}] = d{lab}/dX (direction {dirn}) is not the derivative of the rotated integral the energy uses (w[{i_}] of w_withquaternion): product rule over local "
                          f"integrals and frame elements is violated, analytical forces differ from -dE/dx for every heavy-heavy pair with p orbitals")
            if c[2] == 0 and c[3] == 0:
                p_ = i_ // 10
                got = sp.sympify(W[1, dirn, p_, 0]).xreplace(ren)
                ok = sp.expand(got - rotder.derivation(iw["wXH"][p_], pairsXH)) == 0
                n_id += 1
                if dirn == 0 or not ok:
                    ctx.check(ok, "R10", ag, d, "der_TETCILF", f"wXH_x[{p_}] = d{lab}", f"wXH_x[{p_}] is the product-rule derivative of the energy-side wXH[{p_}] (all three directions)",
                              f"wXH_x[{p_}] = d{lab}/dX (direction {dirn}) is not the derivative of wXH[{p_}] of w_withquaternion: forces on heavy-hydrogen pairs differ from -dE/dx")
        # layout of the unified derivative block: heavy-H integrals occupy column 0 only, H-H the (ss|ss) element only
        okl = all(W[1, dirn, p_, q_] == 0 for p_ in range(10) for q_ in range(1, 10)) and all(W[2, dirn, p_, q_] == 0 for p_ in range(10) for q_ in range(10) if (p_, q_) != (0, 0)) \
            and sp.expand(sp.sympify(W[2, dirn, 0, 0]) - dt["dhh"][dirn]) == 0
        if dirn == 0 or not okl:
            ctx.check(okl, "R10", ag, d, "der_TETCILF", "unified layout", "heavy-H derivatives fill column 0, the H-H derivative the (ss|ss) element, nothing else", "the unified derivative block mixes pair classes")
    if n_id < 110:
        raise AnalysisError(f"der_TETCILF: only {n_id} product-rule identities compared")
    loop = d
    # ---- (C) one variable on both sides
    ctx.check(iw["frame_vector_is_minus_xij"], "R10", te, wq, "w_withquaternion", "frame vector", "the energy builds the frame from v = -xij", "the energy does not build the frame from -xij")
    sag = ag.func("scf_analytic_grad")
    Xd = [st for st in sag.body if isinstance(st, ast.Assign) and norm(st.targets[0]) == "Xij"]
    X, r_, a0s = sp.symbols("xij rij a0", positive=True)
    ok = len(Xd) == 1
    if ok:
        f = torch_funcs()
        f[".unsqueeze"] = lambda a, n: a[0]
        try:
            ok = sp.simplify(to_sympy(Xd[0].value, {"xij": X, "rij": r_, "a0": a0s}, f) - X * r_ * a0s) == 0
        except Exception:
            ok = False
    ctx.check(ok, "R10", ag, Xd[0] if Xd else sag, "scf_analytic_grad", "Xij", "Xij = xij * rij * a0 (the unit vector of the frame scaled to Angstrom)",
              f"Xij is `{norm(Xd[0].value) if Xd else None}`")
    wd = ag.func("w_der")
    dc = [c for c in calls_in(wd) if call_name(c) == "der_TETCILF"]
    params = [a.arg for a in d.args.args]
    okc = len(dc) == 1 and [norm(a) for a in dc[0].args[3:6]] == ["xij", "Xij", "rij"] and params[3:6] == ["xij", "Xij", "r0"]
    ctx.check(okc, "R10", ag, dc[0] if dc else wd, "w_der", "der_TETCILF(...)", "der_TETCILF receives (xij, Xij, rij) as (xij, Xij, r0)", "unit vector / Angstrom vector / distance are not passed in this order")
    # ---- (B) frame derivative: rot_der[a, i, j] = d R_ij(u/|u|) / du_a, both routines interpreted by sa.npsym
    fd = rotder.interpret_frame_derivative(repo)
    ctx.check(fd["v_is_minus_xij"], "R10", ag, d, "der_TETCILF", "frame vector", "the derivative builds the frame from the same vector v = -xij as the energy",
              "the derivative builds the frame from another vector than the energy (-xij)")
    uu = fd["u"]
    for trial in range(2):
        rng = random.Random(91 + trial)
        pt = {uu[0]: sp.Rational(rng.randint(-30, 30), 7), uu[1]: sp.Rational(rng.randint(-30, 30), 11), uu[2]: sp.Rational(rng.randint(-30, 30), 13)}
        for a in range(3):
            for i in range(3):
                for j in range(3):
                    want = sp.N(sp.diff(fd["rot_energy"][i, j], uu[a]).subs(pt), 40)
                    got = sp.N(sp.sympify(fd["rot_der"][a, i, j]).subs(pt), 40)
                    same_fwd = abs(sp.N((sp.sympify(fd["rot"][i, j]) - fd["rot_energy"][i, j]).subs(pt), 40)) < sp.Float("1e-30")
                    ok = abs(want - got) < sp.Float("1e-30") and same_fwd
                    if trial == 0 or not ok:
                        ctx.check(ok, "R10", te, q, "rotate_with_quaternion", f"d rot[{i},{j}] / dX[{a}]",
                                  f"rot_der[{a},{i},{j}] = d rot[{i},{j}](u/|u|) / du_{a} (40 digits at a random rational bond vector)",
                                  f"rot_der[{a},{i},{j}] is not the derivative of the frame element rot[{i},{j}] with respect to the bond vector component {a} "
                                  f"(got {sp.N(got, 8)}, d/du of the energy-side frame is {sp.N(want, 8)}): forces of every pair with p orbitals are wrong")


PACK = {(a, b): b * (b + 1) // 2 + a for b in range(4) for a in range(b + 1)}


def _r11_core_electron(ctx, repo):
    """Both sides are interpreted (sa.npsym) on an O-C, a C-H and an H-H pair.  Energy (w_withquaternion): e1b[pair, a, b] = -Z_j (ab|ss), e2a[pair, a, b] = -Z_i (ss|ab)
    of the pair's rotated block (C19-R4 decides exactly that).  Derivative (w_der after der_TETCILF): e1b_x / e2a_x must be the same linear map of the unified derivative
    block W[pair, direction, 10, 10] -- same charge atom, same packed index p = b (b + 1) / 2 + a, same pair classes, upper triangle only."""
    import sympy as sp
    from .. import rotder
    r = rotder.interpret_core_electron_derivative(repo)
    ag, f = r["module"], r["func"]
    W, tore = r["W"], r["tore"]
    n = 0
    for p_, cls in ((0, "XX"), (1, "XH"), (2, "HH")):
        zi, zj = int(r["ni"][p_]), int(r["nj"][p_])
        for a in range(4):
            for b in range(4):
                pk = PACK.get((a, b))
                for which, arr, z, partner in (("e1b_x", r["e1b_x"], zj, "j"), ("e2a_x", r["e2a_x"], zi, "i")):
                    # which elements exist: hydrogen carries an s orbital only
                    exists = a <= b and ((cls == "XX") or (cls == "XH" and (which == "e1b_x" or (a, b) == (0, 0))) or (cls == "HH" and (a, b) == (0, 0)))
                    oks = []
                    for dirn in range(3):
                        want = sp.Integer(0)
                        if exists:
                            want = -tore[z] * (W[p_, dirn, pk, 0] if which == "e1b_x" else W[p_, dirn, 0, pk])
                        oks.append(sp.expand(sp.sympify(arr[p_, dirn, a, b]) - want) == 0)
                    n += 1
                    if not exists and all(oks):
                        continue
                    ctx.check(all(oks), "R11", ag, f, "w_der", f"{which}[{cls}, {a}, {b}]",
                              f"{which}[{cls},{a},{b}] = -Z_{partner} * w_x[{'%d,0' % pk if which == 'e1b_x' else '0,%d' % pk}] in all three directions, as the energy",
                              f"{which}[{cls},{a},{b}] is `{str(arr[p_, 0, a, b])[:80]}` but the energy term it differentiates is -Z_{partner} times the "
                              f"{'(ab|ss)' if which == 'e1b_x' else '(ss|ab)'} element (packed index {pk}) of this pair's block"
                              f"{'' if exists else ' -- which does not exist for this pair class'}: the gradient of the core-electron attraction is not the derivative of the energy term")
    if n < 90:
        raise AnalysisError(f"core-electron derivative map: only {n} elements compared")
