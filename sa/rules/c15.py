"""C15 -- results depend only on the call's inputs, not on process history or threads (structural clauses)."""
from __future__ import annotations

import ast
import re

from ..exprs import NotConst, fold
from ..guards import controlling
from ..loader import AnalysisError, attr_chain, call_name, callee_attr, calls_in, names_in, norm, short

LEVEL = "other"
EXPLANATION = (
    "R1 autograd Functions keep no class-level state that a later pass reads: backward reads nothing from the class object, and "
    "class attributes written at run time are written by the constructor that every apply site calls immediately before apply; "
    "R2 inventory of module-level mutable state written inside functions: the three caches, each with key completeness (every "
    "input of the cached value is part of the key), id()-keyed caches only fed immortal module constants that are never mutated, "
    "cached results never mutated at call sites, PM6 d-parameter cache a pure function of its key; any other hidden state is a "
    "violation; R3 stores into caller settings dictionaries (seqm_parameters, nested excited_states / nonadiabatic, "
    "xl_bomd_params, sp2) are inventoried and classified by the taint of the stored value: configuration-derived is accepted, "
    "input-derived (species / coordinates / charges) is a violation; R4 parameter-dictionary persistence: keys read optionally "
    "are outside what packing can persist, the sibling implementations that prepare molecule.parameters overwrite the same key "
    "sets, writes into mutable default arguments only in Pack_Parameters.forward; R5 process-global setters are inventoried. "
    "Thread-count independence and bitwise repeatability are not decided."
)
ASSUMPTIONS = ["single-threaded Python driver (intra-op threads only)", "module constants are immortal for the life of the process"]
TRUSTED = ["frozen inventories (caches, settings stores, global setters) with one-line reasons"]

SETTINGS_BASE = re.compile(r"(^|[.\[\"'(])(seqm_parameters|seqm_params|excited_options|exc_cfg|exc|excited_states|xl_bomd_params|na_cfg|sp2|params)\b")
INPUT_NAMES = {"species", "coordinates", "charges", "Z", "tot_charge", "mult", "nocc", "nHeavy", "nHydro", "rij", "xij", "velocities"}
MUT = {"append", "extend", "update", "setdefault", "pop", "clear", "add", "insert", "remove", "popitem"}

KNOWN_CACHES = {"_WEIGHT_CACHE": "seqm/seqm_functions/fock.py", "_INDEX_CACHE": "seqm/seqm_functions/fock.py",
                "_PM6_D_PARAM_CACHE": "seqm/seqm_functions/two_elec_two_center_int.py"}
GLOBAL_SETTERS_OK = {
    ("seqm/MolecularDynamics.py", "<module>", "np.set_printoptions"): "print formatting only",
    ("seqm/seqm_functions/rcis_batch.py", "rcis_batch", "torch.set_printoptions"): "print formatting only",
    ("seqm/seqm_functions/rcis_new.py", "rcis_any_batch", "torch.set_printoptions"): "print formatting only",
    ("seqm/seqm_functions/rpa.py", "rpa", "torch.set_printoptions"): "print formatting only",
    ("seqm/MolecularDynamics.py", "Molecular_Dynamics_Basic._load_checkpoint_base", "torch.set_default_dtype"): "restores the dtype the checkpointed run used (by design)",
    ("seqm/MolecularDynamics.py", "Molecular_Dynamics_Basic.run", "torch.manual_seed"): "seed requested by the caller (C13)",
    ("seqm/MolecularDynamics.py", "Molecular_Dynamics_Basic.run", "torch.cuda.manual_seed_all"): "seed requested by the caller (C13)",
    ("seqm/MolecularDynamics.py", "Molecular_Dynamics_Basic._restore_rng", "torch.random.set_rng_state"): "checkpoint restore (C10)",
    ("seqm/MolecularDynamics.py", "Molecular_Dynamics_Basic._restore_rng", "torch.cuda.set_rng_state_all"): "checkpoint restore (C10)",
}


META_ATTRS = {"device", "dtype", "shape", "ndim"}


def _memo_missing(m, f, store, kname, cache_text):
    """inputs of the value stored by `store` (a statement `<cache>[kname] = value` of function f) that the key does not determine.  Attribute-granular for tensor metadata: a
    key component `x.device` covers uses `x.device` only, not the values of x.  Control dependence counts (a value built under `if flag:` depends on flag).  Reads of the cache
    itself and of the looked-up entry are not inputs."""
    if isinstance(kname, ast.AST):
        kexpr, kname = kname, "<key written in place>"
    else:
        kdefs = [st for st in ast.walk(f) if isinstance(st, ast.Assign) and len(st.targets) == 1 and norm(st.targets[0]) == kname]
        if not kdefs:
            return {"<key definition not found>"}
        kexpr = kdefs[0].value

    def uses(e):
        """(full names, {(name, meta attr)}) read by expression e"""
        full, meta = set(), set()
        called = {c.func.id for c in calls_in(e) if isinstance(c.func, ast.Name)}
        skip = set()
        for n in ast.walk(e):
            if isinstance(n, ast.Attribute) and isinstance(n.value, ast.Name) and n.attr in META_ATTRS:
                meta.add((n.value.id, n.attr))
                skip.add(id(n.value))
            if isinstance(n, (ast.Attribute, ast.Subscript, ast.Call)) and norm(n).startswith(cache_text):
                for x in ast.walk(n):
                    skip.add(id(x))
        for n in ast.walk(e):
            if isinstance(n, ast.Name) and id(n) not in skip and n.id not in called and n.id not in ("torch", "np", "math", "id", "tuple", "frozenset", "sorted", "self", "None", "True", "False"):
                full.add(n.id)
        return full, meta
    kfull, kmeta = uses(kexpr)
    vfull, vmeta = uses(store.value)
    vfull -= {kname}
    inputs = {}      # local -> (full names, meta uses) it is computed from
    for st in ast.walk(f):
        if isinstance(st, ast.Assign):
            tgts, val_ = st.targets, st.value
        elif isinstance(st, ast.AugAssign):
            tgts, val_ = [st.target], st.value
        else:
            continue
        if isinstance(val_, ast.Call) and norm(val_).startswith(cache_text):
            continue        # the memo lookup itself
        cf, cm = set(), set()
        cur_ = m.parents.get(st)
        while cur_ is not None and cur_ is not f:
            src = cur_.test if isinstance(cur_, (ast.If, ast.While)) else cur_.iter if isinstance(cur_, ast.For) else None
            if src is not None:
                a, b = uses(src)
                cf |= a
                cm |= b
            cur_ = m.parents.get(cur_)
        vf, vm = uses(val_)
        for t_ in tgts:
            for e_ in (t_.elts if isinstance(t_, ast.Tuple) else [t_]):
                b_ = e_
                while isinstance(b_, (ast.Subscript, ast.Attribute)):
                    b_ = b_.value
                if isinstance(b_, ast.Name) and b_.id not in (kname, "self"):
                    d = inputs.setdefault(b_.id, (set(), set()))
                    d[0].update(vf | cf)
                    d[1].update(vm | cm)
    for st in ast.walk(f):
        if isinstance(st, ast.For):
            a, b = uses(st.iter)
            for x_ in ast.walk(st.target):
                if isinstance(x_, ast.Name):
                    d = inputs.setdefault(x_.id, (set(), set()))
                    d[0].update(a)
                    d[1].update(b)
    # the looked-up entry (assigned from the cache) is tested by the guard; it is not an input of a freshly computed value
    looked_up = {norm(st.targets[0]) for st in ast.walk(f) if isinstance(st, ast.Assign) and len(st.targets) == 1 and isinstance(st.value, (ast.Call, ast.Subscript))
                 and norm(st.value).startswith(cache_text)}
    derived = set()
    grew = True
    while grew:
        grew = False
        for nm_, (fu, me) in inputs.items():
            if nm_ in derived:
                continue
            if (fu - {nm_} - looked_up) <= kfull | derived and all(x in kfull | derived or (x, a_) in kmeta or x == nm_ or x in looked_up for x, a_ in me):
                derived.add(nm_)
                grew = True
    missing = {x for x in vfull if x not in kfull | derived}
    missing |= {f"{x}.{a_}" for x, a_ in vmeta if x not in kfull | derived and (x, a_) not in kmeta}
    # name the inputs behind the undetermined locals (what the key would have to contain)
    roots, todo, seen = set(), list(missing), set()
    while todo:
        x = todo.pop()
        if x in seen:
            continue
        seen.add(x)
        ins = inputs.get(x)
        if ins is None:
            roots.add(x)
            continue
        nxt = {y for y in ins[0] - {x} - looked_up if y not in kfull | derived}
        if not nxt:
            roots.add(x)
        todo.extend(nxt)
    return roots or missing


def _r2_instance_memos(ctx, repo):
    """instance-level memo tables (`v = self.T.get(key)` ... `if v is None: ... self.T[key] = v`): the key must determine the stored value, otherwise a reused driver returns
    what an earlier call with another input computed"""
    n = 0
    for m in repo.modules("seqm"):
        for q, f in m.functions.items():
            for st in ast.walk(f):
                if not (isinstance(st, ast.Assign) and len(st.targets) == 1 and isinstance(st.targets[0], ast.Subscript)):
                    continue
                base = st.targets[0].value
                if not (isinstance(base, ast.Attribute) and isinstance(base.value, ast.Name) and base.value.id == "self"):
                    continue
                cache_text, kname = norm(base), norm(st.targets[0].slice)
                ktext = {kname, kname.strip("()")}
                # memo pattern: the same table is looked up with the same key in this function and the store is controlled by a test of the looked-up entry / of key membership
                lookups = [a for a in ast.walk(f) if isinstance(a, ast.Assign) and len(a.targets) == 1 and isinstance(a.targets[0], ast.Name) and
                           ((isinstance(a.value, ast.Call) and callee_attr(a.value) == "get" and norm(a.value.func.value) == cache_text and a.value.args and norm(a.value.args[0]).strip("()") in ktext)
                            or (isinstance(a.value, ast.Subscript) and norm(a.value.value) == cache_text and norm(a.value.slice).strip("()") in ktext))]
                entry = {a.targets[0].id for a in lookups}
                guarded = False
                cur = m.parents.get(st)
                while cur is not None and cur is not f:
                    if isinstance(cur, ast.If):
                        t = norm(cur.test)
                        if any(f"{e} is None" in t or f"not {e}" in t for e in entry) or f"{kname} not in {cache_text}" in t or (f"{kname} in {cache_text}" in t and st in ast.walk(ast.Module(body=cur.orelse, type_ignores=[]))):
                            guarded = True
                    cur = m.parents.get(cur)
                if not guarded:
                    continue
                n += 1
                missing = _memo_missing(m, f, st, kname if isinstance(st.targets[0].slice, ast.Name) else st.targets[0].slice, cache_text)
                ctx.check(not missing, "R2", m, st, q, st, f"instance memo `{cache_text}` of {q}: the key determines the stored value",
                          f"`{short(st, 60)}` memoises on the object under a key that does not determine the value: it depends on {sorted(missing)} "
                          f"(a reused driver returns what an earlier call with other inputs computed)")
    # attribute memo: `cached = self.A; if cached is not None and <cond>: return cached; ...; self.A = value; return value` -- the condition is the key
    for m in repo.modules("seqm"):
        for q, f in m.functions.items():
            if "." not in q or not f.args.args or f.args.args[0].arg != "self":
                continue
            stores = [st for st in ast.walk(f) if isinstance(st, ast.Assign) and len(st.targets) == 1 and isinstance(st.targets[0], ast.Attribute)
                      and norm(st.targets[0].value) == "self" and m.qualname_of(st) == q]
            for st in stores:
                attr = "self." + st.targets[0].attr
                aliases = {attr} | {a.targets[0].id for a in ast.walk(f) if isinstance(a, ast.Assign) and len(a.targets) == 1 and isinstance(a.targets[0], ast.Name)
                                    and norm(a.value) in (attr, f"getattr(self, '{st.targets[0].attr}', None)")}
                for r in ast.walk(f):
                    if not (isinstance(r, ast.Return) and r.value is not None and norm(r.value) in aliases and m.qualname_of(r) == q):
                        continue
                    from ..guards import controlling as _ctl
                    conds = [a for a, pol, _ in _ctl(m, r, stop=f) if pol and any(al in norm(a) for al in aliases)]
                    if not conds:
                        continue
                    n += 1
                    test = conds[0] if len(conds) == 1 else ast.BoolOp(op=ast.And(), values=conds)
                    # the cached object itself appears in the key only as the thing compared against: its occurrences are not inputs
                    class _Strip(ast.NodeTransformer):
                        def visit_Name(s_, x_):
                            return ast.copy_location(ast.Constant(value=None), x_) if x_.id in aliases else x_

                        def visit_Attribute(s_, x_):
                            return ast.copy_location(ast.Constant(value=None), x_) if norm(x_) == attr else s_.generic_visit(x_)
                    import copy as _copy
                    key = _Strip().visit(_copy.deepcopy(test))
                    missing = _memo_missing(m, f, st, key, attr)
                    missing -= set(aliases)
                    ctx.check(not missing, "R2", m, r, q, r, f"{q}: the value kept in `{attr}` is returned only under a condition that determines it",
                              f"{q}: `{short(r, 40)}` hands out the value kept in `{attr}` by an earlier call whenever `{short(test, 70)}` holds, but that value depends on {sorted(missing)}, "
                              f"which the condition does not determine (it compares at most shapes / devices): a reused driver returns what an earlier call with other inputs computed")
    return n



def _expand_locals(ns, defs_):
    """names a set of names stands for once single-definition locals are replaced (transitively) by what they read"""
    out, stack, seen = set(), list(ns), set()
    while stack:
        n_ = stack.pop()
        if n_ in seen:
            continue
        seen.add(n_)
        if n_ in defs_:
            stack.extend(names_in(defs_[n_]) - {"id"})
        else:
            out.add(n_)
    return out


def run(ctx):
    repo = ctx.repo
    ctx.rule("R1", "autograd Functions: backward reads no class state; run-time class attributes are set by the constructor at every apply site")
    ctx.rule("R2", "module-level mutable state: only the known caches, with complete keys, immortal id() bases, unmutated results")
    ctx.rule("R3", "stores into caller settings dictionaries are configuration-derived, never input-derived")
    ctx.rule("R4", "parameter-dictionary persistence: optional keys cannot be persisted, sibling preparers overwrite the same keys, mutable defaults written only by packing")
    ctx.rule("R5", "process-global setters are inventoried")
    ctx.rule("R6", "reused driver objects: per-run derived state is recomputed on every run, never memoised behind an 'already set' test")
    _r6(ctx, repo)

    # ------------------------------------------------------------------ R1
    fn_classes = []
    for m in repo.modules("seqm"):
        for cname, c in m.classes.items():
            if any("autograd.Function" in norm(b) for b in c.bases):
                fn_classes.append((m, c))
    names = {c.name for _, c in fn_classes}
    for m in repo.modules("seqm"):
        for cname, c in m.classes.items():
            if c.name not in names and any(norm(b) in names for b in c.bases):
                fn_classes.append((m, c))
                names.add(c.name)
    if len(fn_classes) < 5:
        raise AnalysisError("autograd Functions not found")
    for m, c in fn_classes:
        written = {}
        for st in ast.walk(c):
            if isinstance(st, (ast.Assign, ast.AugAssign)):
                for t in (st.targets if isinstance(st, ast.Assign) else [st.target]):
                    if isinstance(t, ast.Attribute) and isinstance(t.value, ast.Name) and t.value.id in names | {"cls"}:
                        written.setdefault(t.attr, []).append((st, m.qualname_of(st)))
        for meth in ("backward", "forward"):
            fm = [s for s in c.body if isinstance(s, ast.FunctionDef) and s.name == meth]
            if not fm:
                continue
            reads = [n for n in ast.walk(fm[0]) if isinstance(n, ast.Attribute) and isinstance(n.value, ast.Name) and n.value.id in names | {"cls"}
                     and isinstance(n.ctx, ast.Load) and not (isinstance(m.parents.get(n), ast.Call) and m.parents.get(n).func is n)]
            reads = [n for n in reads if not (isinstance(m.parents.get(n), ast.Attribute))]
            rt_reads = [n for n in reads if n.attr in _all_written(fn_classes)]
            if meth == "backward":
                ctx.check(not rt_reads, "R1", m, rt_reads[0] if rt_reads else fm[0], f"{c.name}.backward", rt_reads[0] if rt_reads else "class state",
                          f"{c.name}.backward reads no run-time class attribute",
                          f"{c.name}.backward reads `{norm(rt_reads[0]) if rt_reads else ''}`, which every forward/constructor overwrites: the backward "
                          f"pass of one job uses the settings of whichever job ran last (interleaved jobs leak into each other)")
            else:
                # forward may read attributes that the constructor sets; a forward that also writes class state is a leak
                fw_writes = [st for a, lst in written.items() for st, q in lst if q.endswith(".forward")]
                ctx.check(not fw_writes, "R1", m, fw_writes[0] if fw_writes else fm[0], f"{c.name}.forward", fw_writes[0] if fw_writes else "class writes",
                          f"{c.name}.forward writes no class attribute", f"{c.name}.forward stores `{short(fw_writes[0], 50) if fw_writes else ''}` on the class: later passes of other jobs see it")
                ctor_set = {a for a, lst in written.items() if any(q.endswith(".__init__") for _, q in lst)}
                bad = [n for n in rt_reads if n.attr not in ctor_set]
                ctx.check(not bad, "R1", m, bad[0] if bad else fm[0], f"{c.name}.forward", bad[0] if bad else "class reads",
                          f"{c.name}.forward reads only class attributes its constructor sets ({sorted(ctor_set)})",
                          f"{c.name}.forward reads `{norm(bad[0]) if bad else ''}` which no constructor sets")
    # apply sites construct the Function right before apply
    scf = repo.mod("seqm/seqm_functions/scf_loop.py")
    sl = scf.func("scf_loop")
    applies = [st for st in ast.walk(sl) if isinstance(st, ast.Assign) and isinstance(st.value, ast.Attribute) and st.value.attr == "apply"]
    ok = len(applies) >= 2 and all(isinstance(a.value.value, ast.Call) and norm(a.value.value.func) in names and
                                   {"use_sp2", "scf_converger"} <= {k.arg for k in a.value.value.keywords} for a in applies)
    ctx.check(ok, "R1", scf, applies[0] if applies else sl, "scf_loop", applies[0] if applies else "apply sites",
              "every SCF apply site constructs the Function with this call's solver settings immediately before apply",
              "an SCF apply site does not (re)construct the Function with this call's sp2 / scf_converger: solver settings of a previous job are used")
    bare = [c for c in calls_in(scf.tree) if isinstance(c.func, ast.Attribute) and c.func.attr == "apply" and norm(c.func.value) in names]
    ctx.check(not bare, "R1", scf, bare[0] if bare else sl, scf.qualname_of(bare[0]) if bare else "scf_loop", bare[0] if bare else "X.apply",
              "no bare Class.apply call bypasses the constructor", "an autograd Function is applied without its constructor: class-level settings come from an earlier job")

    # ------------------------------------------------------------------ R2
    n_state = 0
    for m in repo.modules("seqm"):
        globs = {}
        for st in m.tree.body:
            if isinstance(st, (ast.Assign, ast.AnnAssign)):
                t = st.targets[0] if isinstance(st, ast.Assign) else st.target
                if isinstance(t, ast.Name) and st.value is not None:
                    globs[t.id] = st.value
        for q, f in m.functions.items():
            params = {a.arg for a in f.args.args + f.args.kwonlyargs}
            local_assigned = {x.id for n in ast.walk(f) if isinstance(n, ast.Assign) for t in n.targets for x in ast.walk(t) if isinstance(x, ast.Name) and isinstance(t, ast.Name)}
            for n in ast.walk(f):
                gname = None
                if isinstance(n, ast.Global):
                    for nm in n.names:
                        n_state += 1
                        ctx.fail("R2", m, n, q, n, f"`global {nm}`: function rebinds module state (hidden dependence on call history)")
                if isinstance(n, (ast.Assign, ast.AugAssign)):
                    for t in (n.targets if isinstance(n, ast.Assign) else [n.target]):
                        base = t
                        while isinstance(base, ast.Subscript):
                            base = base.value
                        if isinstance(t, ast.Subscript) and isinstance(base, ast.Name) and base.id in globs and base.id not in params and base.id not in local_assigned:
                            gname = base.id
                if isinstance(n, ast.Call) and isinstance(n.func, ast.Attribute) and n.func.attr in MUT | {"zero_", "fill_", "copy_", "add_", "mul_"} \
                        and isinstance(n.func.value, ast.Name) and n.func.value.id in globs and n.func.value.id not in params and n.func.value.id not in local_assigned:
                    gname = n.func.value.id
                if gname:
                    n_state += 1
                    ok = gname in KNOWN_CACHES and KNOWN_CACHES[gname] == m.rel
                    why = "not an inventoried cache"
                    if not ok and isinstance(n, ast.Assign) and isinstance(n.targets[0], ast.Subscript) and isinstance(n.targets[0].slice, ast.Name):
                        # an un-inventoried memo table is acceptable only with a complete key: every input of the stored value is in the key
                        kname = n.targets[0].slice.id
                        kdefs = [st for st in ast.walk(f) if isinstance(st, ast.Assign) and norm(st.targets[0]) == kname]
                        if kdefs:
                            def data_names(e):
                                called = {c.func.id for c in calls_in(e) if isinstance(c.func, ast.Name)}
                                return {x for x in names_in(e) if x not in called and x not in ("torch", "np", "math", "id", "tuple", "frozenset", "sorted")}
                            kin = data_names(kdefs[0].value)
                            # expand one level of local definitions in the key
                            for st in ast.walk(f):
                                if isinstance(st, ast.Assign) and isinstance(st.targets[0], ast.Name) and st.targets[0].id in kin:
                                    pass
                            vin = data_names(n.value) - {kname}
                            # names in the value that are themselves pure functions of key names are fine
                            # inputs of every local: values assigned to it, values / indices stored into it, and the conditions (if tests, loop iterables, with
                            # items) under which those statements run -- a table filled under `if x in elements` depends on `elements`
                            inputs = {}
                            for st in ast.walk(f):
                                tgts = []
                                if isinstance(st, ast.Assign):
                                    tgts, val_ = st.targets, st.value
                                elif isinstance(st, ast.AugAssign):
                                    tgts, val_ = [st.target], st.value
                                else:
                                    continue
                                ctl = set()
                                cur_ = m.parents.get(st)
                                while cur_ is not None and cur_ is not f:
                                    if isinstance(cur_, (ast.If, ast.While)):
                                        ctl |= data_names(cur_.test)
                                    elif isinstance(cur_, ast.For):
                                        ctl |= data_names(cur_.iter)
                                    elif isinstance(cur_, ast.With):
                                        for it_ in cur_.items:
                                            ctl |= data_names(it_.context_expr)
                                    cur_ = m.parents.get(cur_)
                                for t_ in tgts:
                                    for e_ in (t_.elts if isinstance(t_, ast.Tuple) else [t_]):
                                        b_ = e_
                                        idx_ = set()
                                        while isinstance(b_, (ast.Subscript, ast.Attribute)):
                                            if isinstance(b_, ast.Subscript):
                                                idx_ |= data_names(b_.slice)
                                            b_ = b_.value
                                        if isinstance(b_, ast.Name) and b_.id != kname:
                                            inputs.setdefault(b_.id, set()).update(data_names(val_) | ctl | idx_)
                            # loop / with targets take their iterable as input
                            for st in ast.walk(f):
                                if isinstance(st, ast.For):
                                    for x_ in ast.walk(st.target):
                                        if isinstance(x_, ast.Name):
                                            inputs.setdefault(x_.id, set()).update(data_names(st.iter))
                                elif isinstance(st, ast.With):
                                    for it_ in st.items:
                                        if it_.optional_vars is not None:
                                            for x_ in ast.walk(it_.optional_vars):
                                                if isinstance(x_, ast.Name):
                                                    inputs.setdefault(x_.id, set()).update(data_names(it_.context_expr))
                            derived = set()
                            grew = True
                            while grew:
                                grew = False
                                for nm_, ins_ in inputs.items():
                                    if nm_ not in derived and (ins_ - {nm_}) <= kin | derived:
                                        derived.add(nm_)
                                        grew = True
                            missing = vin - kin - derived
                            ok = not missing
                            why = f"stored value depends on {sorted(missing)} which is not part of the key `{norm(kdefs[0].value)}`"
                    ctx.check(ok, "R2", m, n, q, n, f"write to module state `{gname}` is an inventoried cache or a memo table with a complete key",
                              f"`{short(n, 70)}` mutates module-level `{gname}` inside {q} ({why}): results can depend on what ran earlier in the process")
    if n_state < 3:
        raise AnalysisError("module-level caches not found")
    if _r2_instance_memos(ctx, repo) < 2:
        raise AnalysisError("instance-level memo tables (_eye_cache, _arange_cache) not found")
    fk = repo.mod("seqm/seqm_functions/fock.py")
    for fn, cache in (("_cached_tensor", "_WEIGHT_CACHE"), ("_cached_index", "_INDEX_CACHE")):
        f = fk.func(fn)
        keydef = [st for st in ast.walk(f) if isinstance(st, ast.Assign) and norm(st.targets[0]) == "key"]
        valdef = [st for st in ast.walk(f) if isinstance(st, ast.Assign) and norm(st.targets[0]) == "cached" and not (isinstance(st.value, ast.Call) and callee_attr(st.value) == "get")]
        if not keydef or not valdef:
            # delegated form: `return H(<cache table>, <key>, <base>, **to_kwargs)` where H stores `table[key] = base.to(**to_kwargs)` under its own parameters
            key_expr = None
            for r_ in ast.walk(f):
                if not (isinstance(r_, ast.Return) and isinstance(r_.value, ast.Call) and isinstance(r_.value.func, ast.Name) and r_.value.func.id in fk.functions):
                    continue
                c_, h_ = r_.value, fk.functions[r_.value.func.id]
                hp_ = [a.arg for a in h_.args.args]
                if len(c_.args) < 3 or len(hp_) < 3 or not (isinstance(c_.args[0], ast.Name) and c_.args[0].id == cache) or h_.args.kwarg is None:
                    continue
                stores_ = [st for st in ast.walk(h_) if isinstance(st, ast.Assign) and isinstance(st.targets[0], ast.Subscript) and norm(st.targets[0].value) == hp_[0]
                           and norm(st.targets[0].slice) == hp_[1]]
                hdefs_ = {norm(st.targets[0]): st.value for st in ast.walk(h_) if isinstance(st, ast.Assign) and isinstance(st.targets[0], ast.Name)}
                val_ = stores_[0].value if len(stores_) == 1 else None
                if isinstance(val_, ast.Name):
                    val_ = hdefs_.get(val_.id)
                good_ = isinstance(val_, ast.Call) and callee_attr(val_) == "to" and norm(val_.func.value) == hp_[2] and not val_.args \
                    and len(val_.keywords) == 1 and val_.keywords[0].arg is None and norm(val_.keywords[0].value) == h_.args.kwarg.arg
                if good_:
                    key_expr = c_.args[1]
                    vin = names_in(c_.args[2]) | set().union(*[names_in(k_.value) for k_ in c_.keywords] or [set()])
                    # locals of the wrapper that are pure functions of its own parameters count as the parameters they read
                    wdefs_ = {norm(st.targets[0]): st.value for st in ast.walk(f) if isinstance(st, ast.Assign) and isinstance(st.targets[0], ast.Name)}
                    expand_ = lambda ns: _expand_locals(ns, wdefs_)
                    kin, vin = expand_(names_in(key_expr) - {"id"}), expand_(vin)
                    report_ = r_
            if key_expr is None:
                # direct form without named key / value locals: `TABLE[<key expr>] = <value>` (e.g. after the helper above was inlined)
                wdefs_ = {norm(st.targets[0]): st.value for st in ast.walk(f) if isinstance(st, ast.Assign) and isinstance(st.targets[0], ast.Name)}
                st_ = [st for st in ast.walk(f) if isinstance(st, ast.Assign) and isinstance(st.targets[0], ast.Subscript) and norm(st.targets[0].value) == cache]
                if len(st_) == 1:
                    v_ = st_[0].value
                    if isinstance(v_, ast.Name) and v_.id in wdefs_:
                        v_ = wdefs_[v_.id]
                    expand_ = lambda ns: _expand_locals(ns, wdefs_)
                    key_expr, report_ = st_[0].targets[0].slice, st_[0]
                    kin, vin = expand_(names_in(key_expr) - {"id"}), expand_(names_in(v_))
            if key_expr is None:
                raise AnalysisError(f"{fn}: key/value not found")
        else:
            key_expr, report_ = keydef[0].value, keydef[0]
            kin, vin = names_in(keydef[0].value) - {"id"}, names_in(valdef[0].value)
        ctx.check(vin <= kin, "R2", fk, f, fn, report_, f"{fn}: every input of the cached value {sorted(vin)} is part of the key {sorted(kin)}",
                  f"{fn}: cached value depends on {sorted(vin - kin)} which is not in the cache key: a later call with another value gets a stale tensor")
        uses_id = any(isinstance(c.func, ast.Name) and c.func.id == "id" for c in calls_in(key_expr))
        # call sites
        for c in calls_in(fk.tree):
            if isinstance(c.func, ast.Name) and c.func.id == fn:
                a0 = c.args[0]
                bases = [a0.body, a0.orelse] if isinstance(a0, ast.IfExp) else [a0]
                for b in bases:
                    is_const = isinstance(b, ast.Name) and b.id in fk.globals and b.id.upper() == b.id or (isinstance(b, ast.Name) and b.id in ("K_ind_9", "K_ind_4"))
                    mutated = False
                    if isinstance(b, ast.Name):
                        for n in ast.walk(fk.tree):
                            if isinstance(n, (ast.Assign, ast.AugAssign)) and fk.enclosing_function(n) is not None:
                                for t in (n.targets if isinstance(n, ast.Assign) else [n.target]):
                                    bb = t
                                    while isinstance(bb, ast.Subscript):
                                        bb = bb.value
                                    if isinstance(bb, ast.Name) and bb.id == b.id:
                                        mutated = True
                            if isinstance(n, ast.Call) and isinstance(n.func, ast.Attribute) and n.func.attr.endswith("_") and not n.func.attr.startswith("_") \
                                    and isinstance(n.func.value, ast.Name) and n.func.value.id == b.id:
                                mutated = True
                    ctx.check((not uses_id) or (is_const and not mutated), "R2", fk, c, fk.qualname_of(c), c,
                              f"id()-keyed cache is fed the immortal, never-mutated module constant `{norm(b)}`",
                              f"`{short(c, 60)}` feeds `{norm(b)}` to a cache keyed by id(): not an immortal unmutated module constant, a recycled id "
                              f"or an in-place change returns a stale tensor")
                # result not mutated
                st = fk.enclosing_stmt(c)
                if isinstance(st, ast.Assign) and isinstance(st.targets[0], ast.Name):
                    rn = st.targets[0].id
                    fnode = fk.enclosing_function(c)
                    mut = [n for n in ast.walk(fnode) if (isinstance(n, ast.Call) and isinstance(n.func, ast.Attribute) and n.func.attr.endswith("_") and not n.func.attr.startswith("_")
                                                          and isinstance(n.func.value, ast.Name) and n.func.value.id == rn) or
                           (isinstance(n, (ast.Assign, ast.AugAssign)) and any(isinstance(t, ast.Subscript) and isinstance(t.value, ast.Name) and t.value.id == rn
                                                                               for t in (n.targets if isinstance(n, ast.Assign) else [n.target])))]
                    ctx.check(not mut, "R2", fk, c, fk.qualname_of(c), st, f"cached tensor `{rn}` is not modified in place by its user",
                              f"cached tensor `{rn}` is modified in place (`{short(mut[0], 50) if mut else ''}`): every later call sees the modified cache entry")
    te = repo.mod("seqm/seqm_functions/two_elec_two_center_int.py")
    pf = te.func("_pm6_d_param_from_key")
    params = {a.arg for a in pf.args.args}
    local = {x.id for n in ast.walk(pf) if isinstance(n, (ast.Assign, ast.AugAssign, ast.For)) for t in (n.targets if isinstance(n, ast.Assign) else [n.target])
             for x in ast.walk(t) if isinstance(x, ast.Name)}
    free = {x.id for x in ast.walk(pf) if isinstance(x, ast.Name) and isinstance(x.ctx, ast.Load)} - params - local
    callables = {c.func.id for c in calls_in(pf) if isinstance(c.func, ast.Name)}
    state = free - callables - {"_PM6_D_PARAM_CACHE", "math", "torch", "True", "False", "None"}
    ctx.check(not state, "R2", te, pf, "_pm6_d_param_from_key", "free names", "PM6 d-parameter cache entry is a pure function of its key",
              f"_pm6_d_param_from_key reads {sorted(state)} besides its key: cached entries depend on process state")
    # the memo key covers every component of the key tuple that the cached computation reads (a truncated / re-derived key aliases entries)
    par = pf.args.args[0].arg if pf.args.args else None
    unpack = [st for st in pf.body if isinstance(st, ast.Assign) and isinstance(st.targets[0], ast.Tuple) and isinstance(st.value, ast.Name) and st.value.id == par]
    if par is None or len(unpack) != 1:
        raise AnalysisError("_pm6_d_param_from_key: key unpacking not found")
    comp = [e.id for e in unpack[0].targets[0].elts]
    used = {x.id for st in pf.body if st is not unpack[0] for x in ast.walk(st) if isinstance(x, ast.Name) and isinstance(x.ctx, ast.Load) and x.id in comp}
    ldefs = {}
    for st in ast.walk(pf):
        if isinstance(st, ast.Assign) and isinstance(st.targets[0], ast.Name):
            ldefs.setdefault(st.targets[0].id, []).append(st.value)

    def covered(e, depth=0):
        """indices of the key tuple that the expression e determines, or None if not understood"""
        if isinstance(e, ast.Name):
            if e.id == par:
                return set(range(len(comp)))
            if e.id in comp:
                return {comp.index(e.id)}
            if e.id in ldefs and len(ldefs[e.id]) == 1 and depth < 4:
                return covered(ldefs[e.id][0], depth + 1)
            return None
        if isinstance(e, ast.Subscript) and isinstance(e.value, ast.Name) and e.value.id == par:
            sl = e.slice
            try:
                if isinstance(sl, ast.Slice):
                    lo = ast.literal_eval(sl.lower) if sl.lower is not None else None
                    up = ast.literal_eval(sl.upper) if sl.upper is not None else None
                    stp = ast.literal_eval(sl.step) if sl.step is not None else None
                    return set(range(len(comp))[slice(lo, up, stp)])
                return {range(len(comp))[ast.literal_eval(sl)]}
            except Exception:
                return None
        if isinstance(e, (ast.Tuple, ast.List)):
            out = set()
            for x in e.elts:
                c = covered(x, depth)
                if c is None:
                    return None
                out |= c
            return out
        if isinstance(e, ast.Call) and isinstance(e.func, ast.Name) and e.func.id == "tuple" and len(e.args) == 1:
            return covered(e.args[0], depth)
        if isinstance(e, ast.BinOp) and isinstance(e.op, ast.Add):
            a, b = covered(e.left, depth), covered(e.right, depth)
            return None if a is None or b is None else a | b
        return None
    n_acc = 0
    for n in ast.walk(pf):
        kexpr = None
        if isinstance(n, ast.Call) and isinstance(n.func, ast.Attribute) and n.func.attr in ("get", "setdefault", "pop") and norm(n.func.value) == "_PM6_D_PARAM_CACHE" and n.args:
            kexpr = n.args[0]
        elif isinstance(n, ast.Subscript) and norm(n.value) == "_PM6_D_PARAM_CACHE":
            kexpr = n.slice
        elif isinstance(n, ast.Compare) and len(n.ops) == 1 and isinstance(n.ops[0], (ast.In, ast.NotIn)) and norm(n.comparators[0]) == "_PM6_D_PARAM_CACHE":
            kexpr = n.left
        if kexpr is None:
            continue
        n_acc += 1
        cov = covered(kexpr)
        need = {comp.index(u) for u in used}
        miss = sorted(comp[i] for i in (need - cov)) if cov is not None else sorted(used)
        ctx.check(cov is not None and need <= cov, "R2", te, n, "_pm6_d_param_from_key", kexpr,
                  f"PM6 d-parameter memo is addressed by a key that contains every component the cached computation reads ({len(need)} of {len(comp)})",
                  f"PM6 d-parameter memo is addressed by `{norm(kexpr)}` which does not determine {miss}: a later job with other values of these parameters "
                  f"(learned parameters, another parameter directory) silently receives the entry computed for the earlier job")
    if n_acc < 2:
        raise AnalysisError("_pm6_d_param_from_key: cache accesses not found")
    kb = te.func("_pm6_d_param_key")
    kparams = [a.arg for a in kb.args.args]
    rets = [st for st in ast.walk(kb) if isinstance(st, ast.Return)]
    okb = len(rets) == 1 and isinstance(rets[0].value, ast.Tuple)
    lost = list(kparams)
    if okb:
        for e in rets[0].value.elts:
            x = e
            while isinstance(x, ast.Call) and ((isinstance(x.func, ast.Name) and x.func.id in ("int", "float", "str", "bool")) or callee_attr(x) == "item") and (x.args or isinstance(x.func, ast.Attribute)):
                x = x.args[0] if x.args else x.func.value
            if isinstance(x, ast.Name) and x.id in lost:
                lost.remove(x.id)
            else:
                okb = False
    ctx.check(okb and not lost and len(kparams) == len(comp), "R2", te, kb, "_pm6_d_param_key", rets[0] if rets else kb,
              "PM6 d-parameter key is the exact tuple of all its inputs (plain int/float conversions only)",
              f"PM6 d-parameter key drops or coarsens inputs ({lost or 'non-identity element'}): distinct parameter sets collide in the memo")

    # ------------------------------------------------------------------ R3
    n_store = 0
    for m in list(repo.modules("seqm")) + ([repo.mod("scripts/tully_surface_hopping/TullyModels.py")] if repo.has("scripts/tully_surface_hopping/TullyModels.py") else []):
        for q, f in m.functions.items():
            if "<locals>" in q:
                continue
            for n in ast.walk(f):
                stores = []
                if isinstance(n, (ast.Assign, ast.AugAssign)):
                    for t in (n.targets if isinstance(n, ast.Assign) else [n.target]):
                        if isinstance(t, ast.Subscript) and SETTINGS_BASE.search(norm(t.value)) and "molecule.parameters" not in norm(t.value) \
                                and not norm(t.value).endswith(".parameters") and "learned" not in norm(t.value):
                            if norm(t.value) in ("params",) and m.rel != "seqm/NonadiabaticDynamics.py" and "tully" not in m.rel:
                                continue  # `params` elsewhere is the Hamiltonian parameter dict (R4)
                            stores.append((norm(t), n.value))
                elif isinstance(n, ast.Call) and isinstance(n.func, ast.Attribute) and n.func.attr in ("setdefault", "update", "pop") \
                        and SETTINGS_BASE.search(norm(n.func.value)) and "parameters[" not in norm(n.func.value) and not norm(n.func.value).endswith(".parameters") \
                        and "kwargs" not in norm(n.func.value):
                    if norm(n.func.value) == "params" and m.rel != "seqm/NonadiabaticDynamics.py" and "tully" not in m.rel:
                        continue
                    val = n.args[1] if len(n.args) > 1 else (n.args[0] if n.args else None)
                    stores.append((norm(n.func) + "(" + (norm(n.args[0]) if n.args else "") + ")", val))
                for tgt, val in stores:
                    n_store += 1
                    tainted = set()
                    if val is not None:
                        for x in ast.walk(val):
                            if isinstance(x, ast.Name) and x.id in INPUT_NAMES:
                                tainted.add(x.id)
                            if isinstance(x, ast.Attribute) and x.attr in INPUT_NAMES and isinstance(x.value, ast.Name) and x.value.id in ("molecule", "mol", "self"):
                                tainted.add(norm(x))
                    construct = n
                    if tainted:
                        # an input-derived store is identified together with the conditions it runs under (a guard that is dropped is another finding)
                        gs = sorted(("" if p_ else "not ") + norm(a) for a, p_, _ in controlling(m, m.enclosing_stmt(n) if not isinstance(n, ast.stmt) else n))
                        construct = f"{norm(n)} under [{'; '.join(gs)}]"
                    ctx.check(not tainted, "R3", m, n, q, construct,
                              f"{m.rel}::{q}: settings store `{short(tgt, 50)}` is configuration-derived",
                              f"`{short(n, 80)}` stores a value derived from this call's input ({sorted(tainted)}) in the caller's settings dictionary: a "
                              f"later calculation that reuses the dictionary silently inherits it")
    if n_store < 20:
        raise AnalysisError(f"only {n_store} settings stores found")
    # R3 (b): a method that runs per calculation may not *overwrite* a key of the caller's (possibly nested) settings dictionary: the first calculation reads the caller's value
    # before the overwrite, every later calculation that is handed the same dictionary (or a shallow copy of it) starts from the overwritten one.  Accepted: default fills
    # (setdefault / d[k] = d.get(k, default)), private marker keys (_name), stores into a dictionary the method has rebound to a fresh copy first, constructors normalising
    # the value of the same key, and the inventoried idempotent stores below.
    ACCEPTED_OVERWRITES = {
        ("Molecular_Dynamics_Basic._sync_excited_state_output_flags", "save_tdm"): "monotone flag derived from the output configuration: only switches extra output on",
        ("Molecular_Dynamics_Basic._sync_excited_state_output_flags", "compute_transition_properties"): "monotone flag derived from the output configuration",
        ("NonadiabaticDynamicsBase._setup_states", "n_states"): "idempotent: recomputed from the private marker _nad_nstates that keeps the caller's value",
        ("NonadiabaticDynamicsBase.run_from_checkpoint", "n_states"): "the dictionary was read from the checkpoint file in this call (private)",
        ("NonadiabaticDynamicsBase.run_from_checkpoint", "excited_states"): "the dictionary was read from the checkpoint file in this call (private)",
        ("Force.forward", "analytical_gradient"): "fixed point of the test that reads the same key (excited state with scf_backward 0 -> [True]): first and later calls take the same branch",
    }
    n_over = 0
    for m in list(repo.modules("seqm")):
        for q, f in m.functions.items():
            if q.endswith(".__init__") or q == "__init__":
                continue
            # local aliases of attribute chains (energy = self.esdriver.conservative_force.energy)
            alias = {}
            for st in ast.walk(f):
                if isinstance(st, ast.Assign) and len(st.targets) == 1 and isinstance(st.targets[0], ast.Name) and isinstance(st.value, (ast.Attribute, ast.Name)):
                    alias[st.targets[0].id] = norm(st.value)

            def full(e):
                t = norm(e)
                head = t.split(".", 1)[0].split("[", 1)[0]
                for _ in range(4):
                    if head in alias and alias[head] != head:
                        t = alias[head] + t[len(head):]
                        head = t.split(".", 1)[0].split("[", 1)[0]
                return t
            fresh = []      # (text of the rebound dictionary, line)
            for st in ast.walk(f):
                if isinstance(st, ast.Assign) and len(st.targets) == 1 and isinstance(st.value, ast.Call):
                    v = st.value
                    cn = (call_name(v) or "")
                    is_copy = (cn == "dict" and v.args) or callee_attr(v) in ("copy",) or cn in ("copy.deepcopy", "copy.copy", "deepcopy")
                    if is_copy or isinstance(st.value, ast.Dict):
                        fresh.append((full(st.targets[0]), st.lineno))
                elif isinstance(st, ast.Assign) and len(st.targets) == 1 and isinstance(st.value, ast.Dict):
                    fresh.append((full(st.targets[0]), st.lineno))
            for st in ast.walk(f):
                if not isinstance(st, ast.Assign):
                    continue
                for t in st.targets:
                    if not (isinstance(t, ast.Subscript) and isinstance(t.slice, ast.Constant) and isinstance(t.slice.value, str)):
                        continue
                    base_txt = full(t.value)
                    if not SETTINGS_BASE.search(base_txt) or "molecule.parameters" in base_txt or ".parameters" in base_txt.replace("seqm_parameters", "") or "parameters[" in base_txt.replace("seqm_parameters[", ""):
                        continue
                    if base_txt in ("params", "learned_params", "p") and m.rel != "seqm/NonadiabaticDynamics.py":
                        continue
                    key = t.slice.value
                    if key.startswith("_"):
                        continue
                    # default fill of the same key
                    v = st.value
                    if any(callee_attr(c) == "get" and c.args and isinstance(c.args[0], ast.Constant) and c.args[0].value == key and full(c.func.value) == base_txt for c in calls_in(v)):
                        continue
                    if any(isinstance(a, ast.Compare) and isinstance(a.ops[0], ast.NotIn) and isinstance(a.left, ast.Constant) and a.left.value == key and pol
                           for a, pol, _ in controlling(m, st)):
                        continue
                    n_over += 1
                    private = any(base_txt == ft and ln < st.lineno for ft, ln in fresh)
                    reason = ACCEPTED_OVERWRITES.get((q, key))
                    ctx.check(private or reason is not None, "R3", m, st, q, f"overwrite of settings key '{key}' in {q}",
                              f"{q}: `{short(st, 70)}` " + ("writes into a dictionary this method copied first (private)" if private else f"is an inventoried idempotent settings store ({reason})"),
                              f"{q}: `{short(st, 90)}` overwrites the key '{key}' of the caller's settings dictionary while a calculation runs: the first calculation reads the caller's value before "
                              f"this store, every later calculation that is given the same dictionary (or a shallow copy) starts from the overwritten value -- results depend on what ran before")
    if n_over < 5:
        raise AnalysisError(f"only {n_over} run-phase settings overwrites examined")

    # ------------------------------------------------------------------ R4
    bs = repo.mod("seqm/basics.py")
    pl = bs.globals.get("parameterlist")
    try:
        plist = fold(pl)
    except (NotConst, TypeError):
        raise AnalysisError("parameterlist is not a literal")
    union = set().union(*plist.values())
    opt = {}
    for m in repo.modules("seqm"):
        for n in ast.walk(m.tree):
            key = base = None
            if isinstance(n, ast.Compare) and len(n.ops) == 1 and isinstance(n.ops[0], (ast.In, ast.NotIn)) and isinstance(n.left, ast.Constant) and isinstance(n.left.value, str):
                key, base = n.left.value, norm(n.comparators[0])
            elif isinstance(n, ast.Call) and callee_attr(n) == "get" and n.args and isinstance(n.args[0], ast.Constant) and isinstance(n.args[0].value, str):
                key, base = n.args[0].value, norm(n.func.value)
            if key and base and (base.endswith(".parameters") or base in ("params", "parameters", "learned_params", "learned_parameters")) and "seqm" not in base:
                if m.rel == "seqm/NonadiabaticDynamics.py" and base == "params":
                    continue
                opt.setdefault(key, []).append((m, n))
    reset_for_sp = {"zeta_d", "s_orb_exp_tail", "p_orb_exp_tail", "d_orb_exp_tail", "U_dd", "F0SD", "G2SD", "rho_core"}   # verified below on all sibling preparers
    for key, sites in sorted(opt.items()):
        m, n = sites[0]
        ctx.check(key not in union or key in reset_for_sp, "R4", m, n, m.qualname_of(n), n,
                  f"optionally-read parameter key '{key}' " + ("cannot be persisted by parameter packing" if key not in union else "is reset by every preparer for the methods that do not load it"),
                  f"parameter key '{key}' is read optionally but is in the packed parameter lists: a dictionary reused from a method that loads it keeps a stale value")
    if len(opt) < 2:
        raise AnalysisError("optional parameter reads not found")
    # sibling preparers
    sib = [("seqm/basics.py", "Energy._prepare_molecule_inputs"), ("seqm/Molecule.py", "Molecule.__init__"), ("seqm/dynamics/xlbomd.py", "EnergyXL.forward")]
    arms = {}
    for rel, q in sib:
        m = repo.mod(rel)
        f = m.func(q)
        # the preparer may delegate to a helper of the same class / module (one level): look there as well
        scopes_ = [f]
        for c_ in calls_in(f):
            nm_ = callee_attr(c_) if isinstance(c_.func, ast.Attribute) and norm(c_.func.value) in ("self", "cls") else (c_.func.id if isinstance(c_.func, ast.Name) else None)
            if nm_:
                for qq_, ff_ in m.functions.items():
                    if qq_.split(".")[-1] == nm_ and ff_ is not f and ff_ not in scopes_ and "<locals>" not in qq_:
                        scopes_.append(ff_)

        def keys(block, depth=0):
            ks = set()
            for s in block:
                for x in ast.walk(s):
                    if isinstance(x, ast.Assign) and isinstance(x.targets[0], ast.Subscript) and isinstance(x.targets[0].slice, ast.Constant):
                        ks.add(x.targets[0].slice.value)
                    # for name in ("a", "b"): d[name] = ...
                    if isinstance(x, ast.For) and isinstance(x.target, ast.Name) and isinstance(x.iter, (ast.Tuple, ast.List)) \
                            and all(isinstance(e_, ast.Constant) and isinstance(e_.value, str) for e_ in x.iter.elts):
                        if any(isinstance(y, ast.Assign) and isinstance(y.targets[0], ast.Subscript) and isinstance(y.targets[0].slice, ast.Name)
                               and y.targets[0].slice.id == x.target.id for y in ast.walk(x)):
                            ks |= {e_.value for e_ in x.iter.elts}
                    # a helper that fills the dictionary
                    if isinstance(x, ast.Call) and depth < 2:
                        nm2 = callee_attr(x) if isinstance(x.func, ast.Attribute) and norm(x.func.value) in ("self", "cls") else (x.func.id if isinstance(x.func, ast.Name) else None)
                        for qq_, ff_ in m.functions.items():
                            if nm2 and qq_.split(".")[-1] == nm2 and "<locals>" not in qq_ and ff_ is not f:
                                ks |= keys(ff_.body, depth + 1)
            return ks
        for sc_ in scopes_:
            for iff in ast.walk(sc_):
                if not (isinstance(iff, ast.If) and iff.orelse):
                    continue
                t_ = norm(iff.test).replace(" ", "")
                pm6_arm, sp_arm = (iff.body, iff.orelse) if t_.endswith("method=='PM6'") else (iff.orelse, iff.body) if t_.endswith("method!='PM6'") else (None, None)
                if pm6_arm is None:
                    continue
                kp_, ks_ = keys(pm6_arm), keys(sp_arm)
                if "beta" in kp_ and (rel, q) not in arms:
                    arms[(rel, q)] = (kp_, ks_, iff)
    if len(arms) != 3:
        raise AnalysisError(f"parameter preparers: {len(arms)} of 3 siblings recognised")
    ref = arms[(sib[0][0], sib[0][1])]
    need_else = {"beta", "zeta_d", "s_orb_exp_tail", "p_orb_exp_tail", "d_orb_exp_tail", "U_dd", "F0SD", "G2SD", "rho_core"}
    for (rel, q), (pm6, other, iff) in arms.items():
        m = repo.mod(rel)
        ctx.check(pm6 == ref[0] and other == ref[1], "R4", m, iff, q, iff.test, f"{q}: overwrites the same parameter keys as its siblings",
                  f"{q}: overwrites {sorted(other)} / {sorted(pm6)} but Energy._prepare_molecule_inputs overwrites {sorted(ref[1])} / {sorted(ref[0])}: "
                  f"a key left over in a reused dictionary is used by one entry point and reset by the other")
        ctx.check(need_else <= other, "R4", m, iff, q, iff.test, f"{q}: non-PM6 arm resets every PM6-only key that is read unconditionally",
                  f"{q}: non-PM6 arm does not reset {sorted(need_else - other)}: values persisted from a PM6 calculation leak into a later sp calculation")
    # mutable defaults written
    n_md = 0
    for m in repo.modules("seqm"):
        for q, f in m.functions.items():
            args = f.args.args
            defaults = f.args.defaults
            for a, d in zip(args[len(args) - len(defaults):], defaults):
                if isinstance(d, (ast.Dict, ast.List, ast.Set)) or (isinstance(d, ast.Call) and isinstance(d.func, ast.Name) and d.func.id in ("dict", "list", "set")):
                    n_md += 1
                    writes = []
                    for n in ast.walk(f):
                        if isinstance(n, (ast.Assign, ast.AugAssign)):
                            for t in (n.targets if isinstance(n, ast.Assign) else [n.target]):
                                if isinstance(t, ast.Subscript) and isinstance(t.value, ast.Name) and t.value.id == a.arg:
                                    writes.append(n)
                        if isinstance(n, ast.Call) and isinstance(n.func, ast.Attribute) and n.func.attr in MUT and isinstance(n.func.value, ast.Name) and n.func.value.id == a.arg:
                            writes.append(n)
                    allowed = (m.rel, q, a.arg) in {("seqm/basics.py", "Pack_Parameters.forward", "learned_params"),
                                                    ("seqm/seqm_functions/scf_loop.py", "scf_loop", "sp2")}
                    ctx.check(not writes or allowed, "R4", m, writes[0] if writes else f, q, writes[0] if writes else f"{a.arg}=<mutable default>",
                              f"{q}: mutable default `{a.arg}` is " + ("written only by the documented packing mechanism" if writes else "never written"),
                              f"{q}: `{short(writes[0], 60) if writes else ''}` writes into the shared mutable default `{a.arg}`: the value persists into every later call",
                              nontrivial=bool(writes))
    if n_md < 30:
        raise AnalysisError(f"only {n_md} mutable defaults inventoried")

    # ------------------------------------------------------------------ R5
    setters = ("torch.set_default_dtype", "torch.set_default_device", "torch.set_printoptions", "np.set_printoptions", "numpy.set_printoptions", "torch.manual_seed",
               "torch.cuda.manual_seed_all", "torch.cuda.manual_seed", "torch.set_num_threads", "torch.use_deterministic_algorithms", "torch.random.set_rng_state",
               "torch.cuda.set_rng_state_all", "torch.set_rng_state", "torch.set_grad_enabled", "torch.autograd.set_detect_anomaly", "torch.set_float32_matmul_precision")
    n_set = 0
    for m in repo.modules("seqm"):
        for c in calls_in(m.tree):
            cn = call_name(c) or ""
            if cn in setters:
                if cn == "torch.set_grad_enabled" and isinstance(m.parents.get(c), ast.withitem):
                    continue  # context manager: scoped
                q = m.qualname_of(c)
                n_set += 1
                unreachable_debug = m.rel in ("seqm/seqm_functions/XLESMD.py", "seqm/seqm_functions/cg_solver.py", "seqm/seqm_functions/data_loader.py", "seqm/seqm_functions/tools.py")
                ok = (m.rel, q, cn) in GLOBAL_SETTERS_OK or unreachable_debug
                ctx.check(ok, "R5", m, c, q, c, f"{m.rel}::{q}: `{cn}` is inventoried ({GLOBAL_SETTERS_OK.get((m.rel, q, cn), 'debug/utility module off the compute path')})",
                          f"`{short(c, 60)}` in {q} changes process-global state: every later calculation in the process is affected")
    if n_set < 4:
        raise AnalysisError("global setters not found")


def _all_written(fn_classes):
    out = set()
    for m, c in fn_classes:
        names = {cc.name for _, cc in fn_classes} | {"cls"}
        for st in ast.walk(c):
            if isinstance(st, (ast.Assign, ast.AugAssign)):
                for t in (st.targets if isinstance(st, ast.Assign) else [st.target]):
                    if isinstance(t, ast.Attribute) and isinstance(t.value, ast.Name) and t.value.id in names:
                        out.add(t.attr)
    return out


PER_RUN = {"initialize", "initialize_velocity", "run", "set_dof", "forward", "one_step", "_do_integrator_step", "_setup_states", "_init_coeffs",
           "_ensure_active_states", "_sync_excited_state_output_flags"}
MEMO_OK = {
    ("seqm/NonadiabaticDynamics.py", "NonadiabaticDynamicsBase._ensure_active_states", "_active_states"): "continuation/resume mechanism: run_from_checkpoint presets the active states",
    ("seqm/NonadiabaticDynamics.py", "NonadiabaticDynamicsBase._init_coeffs", "_amp_phase"): "continuation/resume mechanism: amplitudes preset by run_from_checkpoint",
    ("seqm/NonadiabaticDynamics.py", "NonadiabaticDynamicsBase._do_integrator_step", "_mos_prev"): "scratch buffer allocation; contents are copied every step",
    ("seqm/NonadiabaticDynamics.py", "NonadiabaticDynamicsBase._do_integrator_step", "_coords_prev"): "scratch buffer allocation; contents are copied every step",
}


def _presence_attr(a):
    """self.X if atom `a` tests whether instance attribute X is set (is None / is not None / hasattr / getattr(...,None) / truthiness)."""
    t = norm(a).replace('"', "'")
    m = re.match(r"^self\.(\w+) is (not )?None$", t)
    if m:
        return m.group(1)
    m = re.match(r"^(not )?hasattr\(self, '(\w+)'\)$", t)
    if m:
        return m.group(2)
    m = re.match(r"^getattr\(self, '(\w+)', None\)( is (not )?None)?$", t)
    if m:
        return m.group(1)
    return None


def _r6(ctx, repo):
    n = 0
    for rel in ("seqm/MolecularDynamics.py", "seqm/NonadiabaticDynamics.py", "seqm/basics.py", "seqm/ElectronicStructure.py", "seqm/dynamics/xlbomd.py"):
        m = repo.mod(rel)
        for cname, c in m.classes.items():
            # configuration attributes: assigned in some __init__ of the hierarchy and nowhere else
            init_set, other_set = set(), set()
            for mm, cc in repo.mro(m, c):
                for fn in [s for s in cc.body if isinstance(s, ast.FunctionDef)]:
                    for st in ast.walk(fn):
                        if isinstance(st, (ast.Assign, ast.AugAssign, ast.AnnAssign)):
                            for t in (st.targets if isinstance(st, ast.Assign) else [st.target]):
                                for x in ast.walk(t):
                                    if isinstance(x, ast.Attribute) and norm(x.value) == "self" and isinstance(x.ctx, ast.Store):
                                        (init_set if fn.name == "__init__" else other_set).add(x.attr)
            derived = other_set
            for fn in [s for s in c.body if isinstance(s, ast.FunctionDef) and s.name in PER_RUN]:
                q = f"{cname}.{fn.name}"
                for st in ast.walk(fn):
                    is_state = False
                    what = None
                    if isinstance(st, ast.Assign):
                        for t in st.targets:
                            for x in ast.walk(t):
                                if isinstance(x, ast.Attribute) and norm(x.value) == "self" and isinstance(x.ctx, ast.Store):
                                    is_state, what = True, "self." + x.attr
                    elif isinstance(st, ast.Expr) and isinstance(st.value, ast.Call) and isinstance(st.value.func, ast.Attribute) and norm(st.value.func.value) == "self" \
                            and st.value.func.attr.startswith(("set_", "initialize", "_setup", "_init_")):
                        is_state, what = True, norm(st.value.func) + "()"
                    if not is_state:
                        continue
                    for a, pol, src in controlling(m, st):
                        x = _presence_attr(a)
                        if x is None or x not in derived:
                            continue
                        n += 1
                        key = (rel, q, x)
                        ctx.check(key in MEMO_OK, "R6", m, src, q, src.test,
                                  f"{q}: `{what}` under `{short(a, 40)}` is an accepted continuation mechanism ({MEMO_OK.get(key)})",
                                  f"{q}: `{short(st, 50)}` only runs depending on whether self.{x} was already set by an earlier run (`{short(a, 50)}`): a reused "
                                  f"driver object keeps state derived from its previous run (different molecule, temperature, remove_com mode...) instead of recomputing it")
    if n < 2:
        raise AnalysisError("memoisation-guard inventory found nothing (anchor drift)")
