"""C07 -- outputs are correctly differentiable in coordinates and Hamiltonian parameters (structural/algebraic clauses)."""
from __future__ import annotations

import ast

from ..cfg import build_cfg
from ..exprs import identically, to_sympy, torch_funcs
from ..guards import controlling
from ..loader import AnalysisError, attr_chain, call_name, callee_attr, calls_in, names_in, norm, short
from ..mdstep import local_defs

LEVEL = "other"
SCF = "seqm/seqm_functions/scf_loop.py"
BASICS = "seqm/basics.py"
EXPLANATION = (
    "R1 gradient-path integrity: every store that builds molecule.parameters from caller-supplied tensors is free of graph-"
    "breaking operations (deepcopy, detach, .data, .item, numpy, re-wrapping, enclosing no_grad); parameter packing only fills the "
    "non-learned keys; every graph-breaking operation and no_grad block in the energy-path functions is in a frozen, reasoned "
    "inventory (a new one on parameter- or coordinate-carrying values is a violation); R2 custom backward interface of the four "
    "autograd Functions: number of returned cotangents = number of forward inputs, save_for_backward / saved_tensors name and "
    "order agreement, SCF.backward's differentiated list = first eight forward inputs in order and returned in that order; "
    "R3 implicit-function derivative of the rho1/rho2 root solves decided by expression algebra: from the residual the secant "
    "loop solves and the output map rho = 0.5/d, backward must equal grad/(ev * df/drho) and -(df/dD)/(df/drho) * grad; "
    "R4 the implicit SCF adjoint takes gradients w.r.t. detached leaves (no saved non-leaf is followed twice) and reads no "
    "class-level state; R5 with backward=True every unrolled driver updates the density out of place. "
    "Finite-difference agreement and Hessian symmetry are not decided numerically."
)
ASSUMPTIONS = ["torch autograd semantics for the listed graph-breaking operations"]
TRUSTED = ["sympy", "frozen inventory table of accepted graph cuts (each with a reason)"]

BREAKERS_ATTR = {"detach", "item", "numpy", "tolist", "cpu"}
PARAM_TEXT = ("learned_param", "parameters", "adict", "packed", "params")

# accepted graph cuts on the energy path: (file, function) -> reason.  no_grad blocks / detach calls in these functions are
# inventoried by normalised first statement; anything not listed is reported.
ACCEPTED_CUTS = {
    ("seqm/seqm_functions/scf_loop.py", "adaptive_mix"): "extrapolation factor FAC is a step-size heuristic, held constant by design",
    ("seqm/seqm_functions/scf_loop.py", "scf_forward2"): "Pulay/adaptive mixing coefficients are solver heuristics, held constant by design",
    ("seqm/seqm_functions/scf_loop.py", "SCF.backward"): "adjoint solve itself; does not support double backward (documented)",
    ("seqm/seqm_functions/scf_loop.py", "SCF0.backward"): "Hellmann-Feynman cut (scf_backward=0, documented)",
    ("seqm/seqm_functions/scf_loop.py", "scf_loop"): "non-convergence report only",
    ("seqm/seqm_functions/scf_loop.py", "scf_forward3"): "iteration report only",
    ("seqm/seqm_functions/scf_loop.py", "fixed_point_anderson"): "adjoint solver residual test",
    ("seqm/basics.py", "Energy.forward"): "analytical-gradient / dipole / excited-state blocks are explicitly non-differentiable outputs; MO bookkeeping",
    ("seqm/basics.py", "Energy._crossing_match_molecular_orbitals"): "orbital relabelling bookkeeping (permutation), not a numeric path",
    ("seqm/basics.py", "Energy._crossing_match_molecular_orbitals_grouped"): "orbital relabelling bookkeeping",
    ("seqm/basics.py", "Force.forward"): "results handed to the MD/ES driver are detached at the API boundary; gradients are taken through Energy",
    ("seqm/ElectronicStructure.py", "Electronic_Structure.forward"): "driver stores detached results on the molecule (API boundary)",
    ("seqm/seqm_functions/diag.py", "construct_P"): "integer index of degenerate block",
    ("seqm/seqm_functions/diag.py", "sym_eig_trunc"): "padding width (integer layout)",
    ("seqm/seqm_functions/diag.py", "sym_eig_trunc1"): "padding width (integer layout)",
    ("seqm/seqm_functions/pack.py", "pack"): "orbital counts (integer layout)",
    ("seqm/seqm_functions/pack.py", "unpack"): "orbital counts (integer layout)",
    ("seqm/seqm_functions/two_elec_two_center_int.py", "_pm6_d_param_key"): "PM6 d-orbital parameter cache key (d-elements only; known limitation, outside the sp methods C07 quantifies over)",
    ("seqm/seqm_functions/two_elec_two_center_int.py", "_build_pm6_d_params"): "PM6 d-orbital parameter cache (d-elements only)",
    ("seqm/seqm_functions/cal_par.py", "POIJ"): "PM6 d-orbital additive terms by golden-section search in Python floats (d-elements only)",
    ("seqm/Molecule.py", "Molecule.__init__"): "species list (integers)",
    ("seqm/seqm_functions/two_elec_two_center_int.py", "two_elec_two_center_int"):
        ("PM6 d-orbital parameter cache key, only for d-element atoms (known limitation outside the sp methods C07 quantifies over)", "active.any()"),
    ("seqm/Molecule.py", "check_input"): "error message (integers)",
    ("seqm/seqm_functions/parameters.py", "params"): "parameter file parsing",
    ("seqm/seqm_functions/parameters.py", "PWCCT"): "parameter file parsing",
}
ENERGY_PATH = ["seqm/basics.py", "seqm/Molecule.py", "seqm/ElectronicStructure.py", "seqm/seqm_functions/scf_loop.py", "seqm/seqm_functions/diag.py",
               "seqm/seqm_functions/pack.py", "seqm/seqm_functions/hcore.py", "seqm/seqm_functions/two_elec_two_center_int.py",
               "seqm/seqm_functions/two_elec_two_center_int_local_frame.py", "seqm/seqm_functions/diat_overlap_PM6_SP.py", "seqm/seqm_functions/energy.py",
               "seqm/seqm_functions/fock.py", "seqm/seqm_functions/fock_u_batch.py", "seqm/seqm_functions/cal_par.py", "seqm/seqm_functions/parameters.py"]


def _is_breaker(call: ast.Call, mod=None):
    cn = call_name(call) or ""
    if mod is not None and cn in ("torch.tensor", "float", "np.array", "numpy.array", "np.asarray") and call.args and isinstance(call.args[0], ast.Name):
        # a module-level literal constant re-wrapped as a tensor carries no graph
        gv = getattr(mod, "globals", {}).get(call.args[0].id)
        if gv is not None:
            try:
                ast.literal_eval(gv)
                return None
            except (ValueError, SyntaxError, TypeError):
                pass
    if cn in ("copy.deepcopy", "deepcopy", "copy.copy"):
        return cn
    if isinstance(call.func, ast.Attribute) and call.func.attr in BREAKERS_ATTR and not call.args:
        return "." + call.func.attr + "()"
    if cn in ("torch.tensor", "float", "np.array", "numpy.array", "np.asarray") and call.args and not isinstance(call.args[0], (ast.Constant, ast.List, ast.Tuple, ast.ListComp)):
        return cn
    return None


def _under_no_grad(mod, node) -> bool:
    cur = mod.parents.get(node)
    while cur is not None and not isinstance(cur, (ast.FunctionDef, ast.Lambda)):
        if isinstance(cur, ast.With) and any("no_grad" in norm(i.context_expr) for i in cur.items):
            return True
        cur = mod.parents.get(cur)
    return False


_MODULE_CONSTS = {}      # name -> literal tuple / list of the module under analysis (set by the caller): `tuple(f(x) for x in NAMES)` is enumerable through it


_LIST_SIZES = {}         # local list name -> length, for `(*name[k:], ...)` in the function under analysis (set by the caller)


_DICT_KEYS = {}          # local dict name -> (keys in insertion order, value texts or None): `{"M": M, ...}`, `dict.fromkeys(<such a dict>)`
_LOCAL_EXPRS = {}        # local name -> its single defining expression in the function under analysis (for `name + (None,) * k` with `name = tuple(...)`)


def _list_sizes(func):
    _LIST_SIZES.clear()
    _LOCAL_EXPRS.clear()
    _DICT_KEYS.clear()
    for st in ast.walk(func):
        if isinstance(st, ast.Assign) and len(st.targets) == 1 and isinstance(st.targets[0], ast.Name):
            v = st.value
            if isinstance(v, ast.Dict) and v.keys and all(isinstance(k, ast.Constant) and isinstance(k.value, str) for k in v.keys):
                _DICT_KEYS[st.targets[0].id] = ([k.value for k in v.keys], [norm(x) for x in v.values])
    for st in ast.walk(func):
        if isinstance(st, ast.Assign) and len(st.targets) == 1 and isinstance(st.targets[0], ast.Name):
            v = st.value
            if isinstance(v, ast.Call) and norm(v.func) == "dict.fromkeys" and v.args and isinstance(v.args[0], ast.Name) and v.args[0].id in _DICT_KEYS:
                _DICT_KEYS[st.targets[0].id] = (_DICT_KEYS[v.args[0].id][0], _DICT_KEYS[v.args[0].id][1])
            elif isinstance(v, ast.Call) and norm(v.func) == "dict.fromkeys" and v.args and isinstance(v.args[0], ast.Dict) and v.args[0].keys \
                    and all(isinstance(k, ast.Constant) and isinstance(k.value, str) for k in v.args[0].keys):
                _DICT_KEYS[st.targets[0].id] = ([k.value for k in v.args[0].keys], [norm(x) for x in v.args[0].values])
    counts = {}
    for st in ast.walk(func):
        if isinstance(st, ast.Assign) and len(st.targets) == 1 and isinstance(st.targets[0], ast.Name):
            counts[st.targets[0].id] = counts.get(st.targets[0].id, 0) + 1
    for st in ast.walk(func):
        if isinstance(st, ast.Assign) and len(st.targets) == 1 and isinstance(st.targets[0], ast.Name):
            v = _tuple_elements(st.value) if isinstance(st.value, (ast.List, ast.Tuple, ast.BinOp)) else None
            if v is not None:
                _LIST_SIZES[st.targets[0].id] = len(v)
            elif counts[st.targets[0].id] == 1 and isinstance(st.value, ast.Call) and isinstance(st.value.func, ast.Name) and st.value.func.id in ("tuple", "list"):
                _LOCAL_EXPRS[st.targets[0].id] = st.value


def _int_of(n):
    """small integer expressions over literals, module-level integer constants and len() of module-level tuples"""
    if isinstance(n, ast.Constant) and isinstance(n.value, int) and not isinstance(n.value, bool):
        return n.value
    if isinstance(n, ast.Name) and isinstance(_MODULE_CONSTS.get(n.id), int):
        return _MODULE_CONSTS[n.id]
    if isinstance(n, ast.Call) and isinstance(n.func, ast.Name) and n.func.id == "len" and len(n.args) == 1 and isinstance(n.args[0], ast.Name) \
            and isinstance(_MODULE_CONSTS.get(n.args[0].id), (tuple, list)):
        return len(_MODULE_CONSTS[n.args[0].id])
    if isinstance(n, ast.BinOp) and isinstance(n.op, (ast.Add, ast.Sub)):
        a, b = _int_of(n.left), _int_of(n.right)
        return None if a is None or b is None else (a + b if isinstance(n.op, ast.Add) else a - b)
    return None


def _tuple_elements(e):
    """element texts of a tuple-valued expression: literals, tuple(<comprehension over range(a, b)>), concatenation `+`, repetition `(x,) * k`; None if not enumerable"""
    if isinstance(e, (ast.Tuple, ast.List)):
        out_ = []
        for x in e.elts:
            if isinstance(x, ast.Starred):
                v = x.value
                if isinstance(v, ast.Subscript) and isinstance(v.value, ast.Name) and v.value.id in _LIST_SIZES and isinstance(v.slice, ast.Slice) and v.slice.step is None:
                    try:
                        lo = ast.literal_eval(v.slice.lower) if v.slice.lower is not None else 0
                        hi = ast.literal_eval(v.slice.upper) if v.slice.upper is not None else _LIST_SIZES[v.value.id]
                    except (ValueError, SyntaxError):
                        return None
                    out_ += [f"{v.value.id}[{i}]" for i in range(*slice(lo, hi).indices(_LIST_SIZES[v.value.id]))]
                    continue
                if isinstance(v, ast.Name) and v.id in _LIST_SIZES:
                    out_ += [f"{v.id}[{i}]" for i in range(_LIST_SIZES[v.id])]
                    continue
                if isinstance(v, ast.Call) and isinstance(v.func, ast.Attribute) and v.func.attr == "values" and not v.args and isinstance(v.func.value, ast.Name) \
                        and v.func.value.id in _DICT_KEYS:
                    # dictionary values come out in insertion order of the keys
                    out_ += [f"{v.func.value.id}['{k}']" for k in _DICT_KEYS[v.func.value.id][0]]
                    continue
                sub = _tuple_elements(v)
                if sub is None:
                    return None
                out_ += sub
            else:
                out_.append(norm(x))
        return out_
    if isinstance(e, ast.Name) and e.id in _LOCAL_EXPRS:
        v_ = _LOCAL_EXPRS.pop(e.id)      # (popped while in use: no recursion through a self-referential definition)
        try:
            return _tuple_elements(v_)
        finally:
            _LOCAL_EXPRS[e.id] = v_
    if isinstance(e, ast.BinOp) and isinstance(e.op, ast.Add):
        a, b = _tuple_elements(e.left), _tuple_elements(e.right)
        return None if a is None or b is None else a + b
    if isinstance(e, ast.BinOp) and isinstance(e.op, ast.Mult):
        for seq, k in ((e.left, e.right), (e.right, e.left)):
            kv = _int_of(k)
            if kv is not None and isinstance(seq, (ast.Tuple, ast.List, ast.BinOp, ast.Call)):
                a = _tuple_elements(seq)
                return None if a is None else a * kv
    if isinstance(e, ast.Call) and isinstance(e.func, ast.Name) and e.func.id in ("tuple", "list") and len(e.args) == 1:
        a = e.args[0]
        if isinstance(a, (ast.GeneratorExp, ast.ListComp)) and len(a.generators) == 1 and not a.generators[0].ifs and isinstance(a.generators[0].target, ast.Name) \
                and ((isinstance(a.generators[0].iter, ast.Call) and norm(a.generators[0].iter.func) == "range")
                     or (isinstance(a.generators[0].iter, ast.Name) and a.generators[0].iter.id in _MODULE_CONSTS)
                     or isinstance(a.generators[0].iter, (ast.Tuple, ast.List))):
            try:
                it_ = a.generators[0].iter
                if isinstance(it_, ast.Call):
                    rargs_ = [_int_of(x) for x in it_.args]
                    if any(v is None for v in rargs_):
                        return None
                    rng = range(*rargs_)
                elif isinstance(it_, ast.Name):
                    rng = list(_MODULE_CONSTS[it_.id])
                else:
                    rng = list(ast.literal_eval(it_))
            except Exception:
                return None
            var = a.generators[0].target.id
            out = []
            for v in rng:
                class S(ast.NodeTransformer):
                    def visit_Name(s_, n):
                        return ast.copy_location(ast.Constant(value=v), n) if n.id == var else n
                import copy
                out.append(norm(S().visit(copy.deepcopy(a.elt))))
            return out
        if isinstance(a, ast.Name) and a.id in _LIST_SIZES:
            return [f"{a.id}[{i}]" for i in range(_LIST_SIZES[a.id])]
        return _tuple_elements(a)
    return None


def run(ctx):
    import sympy as sp
    repo = ctx.repo
    ctx.rule("R1", "gradient-path integrity from caller tensors to molecule.parameters and through the energy path (inventory of graph cuts)")
    ctx.rule("R2", "custom backward interface: arity, saved-tensor order, input/cotangent alignment")
    ctx.rule("R3", "implicit-function derivative of the rho1 / rho2 root solves (expression algebra)")
    ctx.rule("R4", "implicit SCF adjoint differentiates detached leaves and uses only ctx state")
    ctx.rule("R5", "unrolled backward mode (backward=True) updates the density out of place in every driver")
    ctx.rule("R6", "no singularity is merely masked by torch.where on a differentiable path (0*inf = NaN gradients)")
    ctx.rule("R7", "caller-supplied parameter tensors survive packing: the packed dictionary contains every entry of the caller's dictionary")
    ctx.rule("R8", "the SCF adjoint halves the unrestricted density like the forward drivers (it linearises the map the solver iterates)")
    _r7_passthrough(ctx, repo)
    _r8_adjoint_halving(ctx, repo)
    from .. import wherenan
    if wherenan.check(ctx, "R6") < 10:
        raise AnalysisError("C07-R6: where-sites with singular branches not inventoried")

    # ------------------------------------------------------------------ R1 (a) stores into the parameter dictionary
    n_store = 0
    for rel, q in ((BASICS, "Energy._prepare_molecule_inputs"), ("seqm/Molecule.py", "Molecule.__init__"), (BASICS, "Pack_Parameters.forward")):
        m = repo.mod(rel)
        f = m.func(q)
        for st in ast.walk(f):
            if not isinstance(st, ast.Assign):
                continue
            tgt_txt = " ".join(norm(t) for t in st.targets)
            if "seqm_parameters" in tgt_txt or not any(k in tgt_txt for k in (".parameters", "packed", "learned_params[", "params[", "adict")):
                continue
            n_store += 1
            br = [b for c in calls_in(st.value) for b in [_is_breaker(c)] if b]
            ng = _under_no_grad(m, st)
            ctx.check(not br and not ng, "R1", m, st, q, st,
                      f"{q}: `{short(st, 60)}` keeps caller tensors in the autograd graph",
                      f"{q}: `{short(st, 90)}` cuts the autograd graph between the caller's parameter tensors and molecule.parameters "
                      f"({', '.join(br) if br else 'enclosing torch.no_grad()'}): gradients w.r.t. supplied parameters are None or the call raises for non-leaf tensors")
    if n_store < 8:
        raise AnalysisError(f"only {n_store} parameter-dictionary stores found")
    pf = repo.mod(BASICS).func("Pack_Parameters.forward")
    from ..assembly import interpreted_parameter_packing
    okp, msgp = interpreted_parameter_packing(repo)
    ctx.check(okp, "R1", repo.mod(BASICS), pf, "Pack_Parameters.forward", "packing (interpreted)", msgp, "Pack_Parameters: " + msgp)

    # ------------------------------------------------------------------ R1 (b,c) inventory of graph cuts on the energy path
    n_cut = 0
    for rel in ENERGY_PATH:
        m = repo.mod(rel)
        for q, f in m.functions.items():
            sites = []
            for n in ast.walk(f):
                if m.enclosing_function(n) is not f and n is not f:
                    continue
                if isinstance(n, ast.Call):
                    b = _is_breaker(n, m)
                    if b:
                        sites.append((n, b))
                elif isinstance(n, ast.Attribute) and n.attr == "data" and isinstance(n.ctx, ast.Load) and not isinstance(m.parents.get(n), ast.Call):
                    sites.append((n, ".data"))
                elif isinstance(n, ast.With) and any("no_grad" in norm(i.context_expr) for i in n.items):
                    sites.append((n, "torch.no_grad()"))
            base_q = q.split(".<locals>.")[0]
            for n, b in sites:
                n_cut += 1
                # automatic classes: the operand carries only integer layout information
                operand = n.func.value if isinstance(n, ast.Call) and isinstance(n.func, ast.Attribute) else (n.args[0] if isinstance(n, ast.Call) and n.args else n)
                txt = norm(operand) if not isinstance(n, ast.With) else ""
                int_only = bool(txt) and not isinstance(n, ast.With) and all(
                    any(k in nm for k in ("nocc", "norb", "nHeavy", "nHydro", "nho", "species", "notconverged", "nmol", "idx", "mask", "Nnot", "diverged", "cond", "nH", "Z", "perm", "argsort", "where", "ch_", "row_ok", "pnorb", "nheavy", "size"))
                    for nm in names_in(operand)) and bool(names_in(operand))
                key = (rel, base_q)
                acc = ACCEPTED_CUTS.get(key)
                if isinstance(acc, tuple):
                    # accepted only under the stated guard
                    guard_ok = any(p and norm(a) == acc[1] for a, p, _ in controlling(m, m.enclosing_stmt(n) if not isinstance(n, ast.With) else n))
                    acc = acc[0] if guard_ok else None
                ok = int_only or acc is not None
                ctx.check(ok, "R1", m, n, q, m.enclosing_stmt(n) if not isinstance(n, ast.With) else n.items[0].context_expr,
                          f"{rel}::{q}: graph cut `{b}` is " + ("integer layout data" if int_only else f"inventoried ({acc})"),
                          f"{rel}::{q}: new graph-breaking operation `{b}` on `{short(txt or n, 60)}` in an energy-path function that has no accepted "
                          f"cut: derivatives w.r.t. coordinates/parameters stop here", nontrivial=not int_only)
    if n_cut < 40:
        raise AnalysisError(f"only {n_cut} graph-cut sites inventoried")

    # ------------------------------------------------------------------ R2
    funcs = []
    for m in repo.modules("seqm"):
        for cname, c in m.classes.items():
            if any("autograd.Function" in norm(b) or norm(b) in [x for x, _ in funcs_names(funcs)] for b in c.bases) or \
                    any(norm(b) in {n for n, _, _ in funcs} for b in c.bases):
                funcs.append((cname, m, c))
    # include subclasses of found Functions (SCF0)
    changed = True
    while changed:
        changed = False
        names = {n for n, _, _ in funcs}
        for m in repo.modules("seqm"):
            for cname, c in m.classes.items():
                if cname not in names and any(norm(b) in names for b in c.bases):
                    funcs.append((cname, m, c))
                    changed = True
    if len(funcs) < 5:
        raise AnalysisError(f"only {len(funcs)} autograd Functions found")
    for cname, m, c in funcs:
        fw = repo.find_method(m, c, "forward")
        bw = repo.find_method(m, c, "backward")
        if not fw or not bw:
            raise AnalysisError(f"{cname}: forward/backward not found")
        n_in = len(fw[2].args.args) - 1
        _MODULE_CONSTS.clear()
        for gname_, gval_ in bw[0].globals.items():
            try:
                v_ = ast.literal_eval(gval_)
                if isinstance(v_, (tuple, list)) or (isinstance(v_, int) and not isinstance(v_, bool)):
                    _MODULE_CONSTS[gname_] = v_
            except (ValueError, SyntaxError, TypeError):
                pass
        rets = [r for r in ast.walk(bw[2]) if isinstance(r, ast.Return) and m.enclosing_function(r) is bw[2]]
        _list_sizes(bw[2])
        for r in rets:
            te_ = _tuple_elements(r.value)
            tuple_like_ = any(isinstance(x, (ast.Tuple, ast.List, ast.Starred)) or (isinstance(x, ast.Call) and isinstance(x.func, ast.Name) and x.func.id in ("tuple", "list"))
                              for x in ast.walk(r.value)) if r.value is not None else False
            if te_ is None and tuple_like_ and not isinstance(r.value, (ast.Name, ast.Constant, ast.Attribute, ast.Subscript)):
                raise AnalysisError(f"{cname}.backward: return expression `{short(r.value, 60)}` is not a tuple this analysis can enumerate")
            n_out = len(te_) if te_ is not None else 1
            ctx.check(n_out == n_in, "R2", bw[0], r, f"{cname}.backward", f"{cname}.backward return arity",
                      f"{cname}: backward returns {n_out} cotangents for {n_in} forward inputs",
                      f"{cname}.backward returns {n_out} values but forward takes {n_in} inputs: cotangents are misaligned with inputs")
        # saved tensors order
        saves = [cc for cc in calls_in(fw[2]) if callee_attr(cc) == "save_for_backward"]
        unp = [st for st in ast.walk(bw[2]) if isinstance(st, ast.Assign) and "ctx.saved_tensors" in norm(st.value) and isinstance(st.targets[0], ast.Tuple)]
        if saves and unp and bw[1] is fw[1]:
            saved = [norm(a) for a in saves[0].args]
            got = [norm(e) for e in unp[0].targets[0].elts]
            alias = {"Pin": "P"}
            ok = len(saved) == len(got) and all(alias.get(g, g) == s for g, s in zip(got, saved))
            ctx.check(ok, "R2", bw[0], unp[0], f"{cname}.backward", f"{cname} saved_tensors",
                      f"{cname}: ctx.saved_tensors is unpacked in the order it was saved ({len(saved)} tensors)",
                      f"{cname}: saved_tensors unpacked as {got} but saved as {saved}")
    scf = repo.mod(SCF)
    fw = scf.func("SCF.forward")
    bw = scf.func("SCF.backward")
    first8 = [a.arg for a in fw.args.args[1:9]]
    lists = [n for n in ast.walk(bw) if isinstance(n, ast.For) and isinstance(n.iter, ast.Call) and norm(n.iter.func) == "enumerate" and isinstance(n.iter.args[0], (ast.List, ast.Tuple))]
    _deferred_stop = None
    if not lists:
        # the bookkeeping of (input -> cotangent slot) is not spelled as `for i, x in enumerate([inputs...])`: any literal list of the eight inputs must at least be in
        # forward order (a violation otherwise); beyond that this rule cannot follow the slots -- analysis stop, not a verdict
        lits_ = [n for n in ast.walk(bw) if isinstance(n, (ast.List, ast.Tuple)) and len(n.elts) == 8 and all(isinstance(e, ast.Name) for e in n.elts)
                 and {e.id for e in n.elts} == set(first8) and isinstance(n.ctx, ast.Load)]
        for l_ in lits_:
            ctx.check([e.id for e in l_.elts] == first8, "R2", scf, l_, "SCF.backward", l_, "the list of differentiated inputs is in forward order",
                      f"SCF.backward lists its differentiated inputs as {[e.id for e in l_.elts]}, forward takes {first8}")
        if not any(f.message for f in ctx.findings if f.rule.endswith("R2") and "lists its differentiated inputs" in f.message):
            _deferred_stop = "SCF.backward: the bookkeeping of cotangent slots is not spelled as an enumerate loop over the literal list of inputs; slot alignment not decided for this spelling"
    ok = bool(lists) and [norm(e) for e in lists[0].iter.args[0].elts] == first8
    if lists:
      ctx.check(ok, "R2", scf, lists[0] if lists else bw, "SCF.backward", lists[0].iter if lists else "differentiated inputs",
              f"SCF.backward differentiates {first8}: the first eight forward inputs in order",
              f"SCF.backward differentiates {[norm(e) for e in lists[0].iter.args[0].elts] if lists else None}, forward takes {first8}")
    if lists:
        body_txt = norm(lists[0])
        # the slot of the k-th input (k = 0..7) is k + 1: `i + 1` with enumerate(seq), or the loop index itself with enumerate(seq, start=1)
        it = lists[0].iter
        start = 0
        for kw in it.keywords:
            if kw.arg == "start":
                start = ast.literal_eval(kw.value)
        if len(it.args) > 1:
            start = ast.literal_eval(it.args[1])
        iv_ = lists[0].target.elts[0].id if isinstance(lists[0].target, ast.Tuple) and isinstance(lists[0].target.elts[0], ast.Name) else "i"
        slot = iv_ if start == 1 else f"{iv_} + 1" if start == 0 else None
        ctx.check(slot is not None and f"gvind.append({slot})" in body_txt and f"grads[{slot}] = None" in body_txt, "R2", scf, lists[0], "SCF.backward", "grads index",
                  "cotangent slot of the k-th input is grads[k] (1-based)", "index bookkeeping of the cotangent slots changed")
    rets = [r for r in ast.walk(bw) if isinstance(r, ast.Return) and scf.enclosing_function(r) is bw]
    _MODULE_CONSTS.clear()
    for gname_, gval_ in scf.globals.items():
        try:
            v_ = ast.literal_eval(gval_)
            if isinstance(v_, (tuple, list)) or (isinstance(v_, int) and not isinstance(v_, bool)):
                _MODULE_CONSTS[gname_] = v_
        except (ValueError, SyntaxError, TypeError):
            pass
    _list_sizes(bw)
    for r in rets:
        e = _tuple_elements(r.value)
        if e is None:
            raise AnalysisError(f"SCF.backward: return expression `{short(r.value, 60)}` is not a tuple this analysis can enumerate")
        ok = (e[:8] == [f"grads[{i}]" for i in range(1, 9)] or e[:8] == [f"grads['{nm}']" for nm in first8]) and all(x == "None" for x in e[8:])
        if not ok and all(x == "None" for x in e[8:]):
            # name-keyed cotangents: `d['K']` stands for the input that the dictionary literal pairs with K
            import re as _re
            mapped = []
            for x in e[:8]:
                m_ = _re.fullmatch(r"(\w+)\['([^']+)'\]", x)
                dk = _DICT_KEYS.get(m_.group(1)) if m_ else None
                mapped.append(dk[1][dk[0].index(m_.group(2))] if dk and m_.group(2) in dk[0] else (m_.group(2) if m_ and m_.group(2) in first8 else None))
            if all(v is not None for v in mapped):
                ok = mapped == first8
                if not ok:
                    ctx.fail("R2", scf, r, "SCF.backward", "return order",
                             f"SCF.backward returns the cotangents of {mapped} in that order, forward takes {first8}: the gradients of {[a for a, b in zip(mapped, first8) if a != b]} reach the wrong inputs")
                    continue
        if not ok and _deferred_stop:
            continue        # integer slots cannot be tied to inputs when the slot bookkeeping itself was not recognised: covered by the analysis stop below, not a verdict
        ctx.check(ok, "R2", scf, r, "SCF.backward", "return order", "SCF.backward returns grads[1..8] followed by None for the non-differentiable inputs",
                  f"SCF.backward returns {e[:10]}...: cotangents do not line up with (M, w, W, gss, gpp, gsp, gp2, hsp)")

    if _deferred_stop:
        raise AnalysisError(_deferred_stop)

    # ------------------------------------------------------------------ R3
    cp = repo.mod("seqm/seqm_functions/cal_par.py")
    for cname in ("additive_term_rho1", "additive_term_rho2"):
        _rho_backward(ctx, cp, cname, sp)

    # ------------------------------------------------------------------ R4
    g = build_cfg(bw)
    agrads = [c for c in calls_in(bw) if (call_name(c) or "") in ("agrad", "torch.autograd.grad")]
    if len(agrads) < 2:
        raise AnalysisError("SCF.backward: autograd.grad calls not found")
    # names unpacked from saved tensors that are differentiated
    unp = [st for st in ast.walk(bw) if isinstance(st, ast.Assign) and "ctx.saved_tensors" in norm(st.value)]
    saved_names = [norm(e) for e in unp[0].targets[0].elts] if unp else []
    diff_names = first8
    det = None
    for st in ast.walk(bw):
        if isinstance(st, ast.Assign) and isinstance(st.targets[0], ast.Tuple) and [norm(e) for e in st.targets[0].elts] == diff_names \
                and "detach()" in norm(st.value):
            det = st
    per_name = {nm: any(isinstance(st, ast.Assign) and norm(st.targets[0]) == nm and norm(st.value).startswith(f"{nm}.detach()") for st in ast.walk(bw)) for nm in diff_names}
    ok = det is not None or all(per_name.values())
    if ok and det is not None:
        # re-marked requires_grad and placed before the local graph is built
        gen = norm(det.value)
        ok = "requires_grad_(" in gen and all(nm in gen for nm in diff_names)
        dn = g.nodes_of(det)
        fock_nodes = [n.id for n in g.nodes if n.kind == "stmt" and any(callee_attr(c) == "fock" for c in calls_in(n.stmt))]
        ok = ok and bool(dn) and bool(fock_nodes) and all(g.dominates(dn[0], fn) for fn in fock_nodes)
    ctx.check(ok, "R4", scf, det or bw, "SCF.backward", det.targets[0] if det is not None else "saved inputs",
              "the eight differentiated saved inputs are detached (and re-marked requires_grad) before the local graph is rebuilt",
              "SCF.backward builds its local graph on the raw saved tensors: saved non-leaf inputs (M, w depend on g_ss, g_pp, g_p2, h_sp) are "
              "followed inside the adjoint and again by the outer engine (gap/charge gradients wrong by 10-40%)")
    cls_reads = [n for n in ast.walk(bw) if isinstance(n, ast.Attribute) and isinstance(n.value, ast.Name) and n.value.id in ("SCF", "SCF0", "cls")
                 and isinstance(n.ctx, ast.Load)]
    ctx.check(not cls_reads, "R4", scf, cls_reads[0] if cls_reads else bw, "SCF.backward", cls_reads[0] if cls_reads else "class state",
              "backward reads no class-level state (method name / tolerance come from ctx)",
              f"SCF.backward reads `{norm(cls_reads[0]) if cls_reads else ''}` from the class: it belongs to whichever job ran forward last")
    en = [w for w in ast.walk(bw) if isinstance(w, ast.With) and any("enable_grad" in norm(i.context_expr) for i in w.items)]
    ctx.check(bool(en) and any(callee_attr(c) == "fock" for c in calls_in(en[0])), "R4", scf, bw, "SCF.backward", "torch.enable_grad()",
              "local graph P_out = g(P_in; theta) is rebuilt under enable_grad", "local graph is not rebuilt under torch.enable_grad()")
    ae = [st for st in ast.walk(bw) if isinstance(st, ast.FunctionDef) and st.name == "affine_eq"]
    ok = bool(ae) and norm(ae[0].body[-1].value).replace(" ", "") == "grad_P+agrad(Pout,Pin,grad_outputs=u,retain_graph=True)[0]"
    ctx.check(ok, "R4", scf, ae[0] if ae else bw, "SCF.backward", "affine_eq", "adjoint equation is z = grad_P + (dg/dP)^T z", "adjoint fixed-point equation changed")

    # ------------------------------------------------------------------ R5
    check_unrolled_graph(ctx, scf, "R5")


def check_unrolled_graph(ctx, scf, rid):
    """unrolled (scf_backward=2) drivers keep the density / Fock history on the autograd graph (shared with C01: autograd forces of
    non-variational quantities need the response of the converged density)"""
    for d in ("scf_forward0", "scf_forward1", "scf_forward2"):
        f = scf.func(d)
        arms = [i for i in ast.walk(f) if isinstance(i, ast.If) and norm(i.test) == "backward"]
        n_arm = 0
        for arm in arms:
            stores = [st for st in arm.body if isinstance(st, ast.Assign)]
            if not any(norm(t).startswith("P") for st in stores for t in st.targets):
                continue
            n_arm += 1
            fresh = False
            bad = None
            for st in arm.body:
                if isinstance(st, ast.Assign):
                    t = st.targets[0]
                    if isinstance(t, ast.Name) and t.id == "P":
                        fresh = True   # P rebound to a new tensor
                    elif isinstance(t, ast.Subscript) and norm(t.value) == "P" and not fresh:
                        bad = st
                    elif isinstance(t, ast.Name) and t.id == "Pold":
                        if not (isinstance(st.value, (ast.Call, ast.BinOp))):
                            bad = st
            ctx.check(bad is None, rid, scf, bad or arm, d, bad or arm.test,
                      f"{d}: the backward=True arm rebinds P to a fresh tensor before any masked store",
                      f"{d}: with backward=True `{short(bad, 60) if bad else ''}` modifies the density in place: autograd cannot unroll through it")
        if n_arm == 0:
            raise AnalysisError(f"{d}: no backward arm updating P")
    # solver state on the differentiable path is never written under no_grad in the unrolled drivers
    STATE = {"F", "FOCK", "P", "Pnew", "Pold", "Eelec", "Eelec_new", "Hcore", "Pmix", "Pmix_0", "Pmix_1"}
    for d in ("scf_forward0", "scf_forward1", "scf_forward2", "adaptive_mix"):
        f = scf.func(d)
        blocks = [w for w in ast.walk(f) if isinstance(w, ast.With) and any("no_grad" in norm(i.context_expr) for i in w.items)]
        bad = []
        for w in blocks:
            for st in ast.walk(w):
                tg = []
                if isinstance(st, ast.Assign):
                    tg = st.targets
                elif isinstance(st, ast.AugAssign):
                    tg = [st.target]
                elif isinstance(st, ast.Expr) and isinstance(st.value, ast.Call) and isinstance(st.value.func, ast.Attribute) and st.value.func.attr.endswith("_") \
                        and not st.value.func.attr.startswith("_"):
                    tg = [st.value.func.value]
                for t in tg:
                    base = t
                    while isinstance(base, ast.Subscript):
                        base = base.value
                    if isinstance(base, ast.Name) and base.id in STATE:
                        bad.append(st)
        ctx.check(not bad, rid, scf, bad[0] if bad else f, d, bad[0] if bad else "no_grad blocks",
                  f"{d}: the {len(blocks)} no_grad block(s) only compute mixing heuristics; Fock matrices, densities and energies are written outside them",
                  f"{d}: `{short(bad[0], 70) if bad else ''}` writes solver state under torch.no_grad(): with scf_backward=2 everything downstream "
                  f"(extrapolated Fock matrix, later densities) drops out of the autograd graph while forward values stay identical")
    sl = scf.func("scf_loop")
    n2 = 0
    for c in calls_in(sl):
        names_ = [callee_attr(c)] if callee_attr(c) in ("scf_forward0", "scf_forward1", "scf_forward2") else []
        if not names_ and isinstance(c.func, ast.Name):
            # a driver chosen through a local: the call stands for a call of every driver the local is bound to
            binds = [a_.value for a_ in ast.walk(sl) if isinstance(a_, ast.Assign) and any(isinstance(t_, ast.Name) and t_.id == c.func.id for t_ in a_.targets)]
            if binds and all(isinstance(b_, ast.Name) or (isinstance(b_, ast.Constant) and b_.value is None) for b_ in binds):
                names_ = [b_.id for b_ in binds if isinstance(b_, ast.Name) and b_.id in ("scf_forward0", "scf_forward1", "scf_forward2")]
        for nm_ in names_:
            kws = {k.arg: norm(k.value) for k in c.keywords}
            n2 += 1
            ctx.check(kws.get("backward") == "True", rid, scf, c, "scf_loop", f"{nm_}(backward=True)", "scf_backward=2 calls the driver with backward=True",
                      f"scf_backward=2 calls {nm_} with backward={kws.get('backward')}")
    if n2 < 3:
        raise AnalysisError("scf_loop: unrolled driver calls not found")




def funcs_names(funcs):
    return [(n, None) for n, _, _ in funcs]


def _rho_backward(ctx, cp, cname, sp):
    fw = cp.func(f"{cname}.forward")
    bw = cp.func(f"{cname}.backward")
    h_ev_name, D_name = fw.args.args[1].arg, fw.args.args[2].arg
    rho, D, hev, ev, G, dsym = sp.symbols("rho D h_ev ev G d", positive=True)
    funcs = torch_funcs()
    # floors / caps applied to the integral parameter inside the Function are part of the map that backward has to differentiate
    _v = lambda x: x() if callable(x) and not isinstance(x, sp.Basic) else x
    funcs[".clamp_min"] = lambda a, n: sp.Max(a[0], _v(a[1]))
    funcs[".clamp_max"] = lambda a, n: sp.Min(a[0], _v(a[1]))
    funcs["torch.clamp_min"] = lambda a, n: sp.Max(a[0], _v(a[1]))
    funcs["torch.maximum"] = lambda a, n: sp.Max(a[0], _v(a[1]))
    from ..exprs import NotConst as _NC, fold as _fold
    consts = {}
    for gname, gval in cp.globals.items():
        try:
            v_ = _fold(gval)
            if isinstance(v_, (int, float)) and not isinstance(v_, bool):
                consts[gname] = sp.nsimplify(v_)
        except (_NC, TypeError, ValueError):
            pass
    loops = [l for l in ast.walk(fw) if isinstance(l, ast.For)]
    if len(loops) != 1:
        raise AnalysisError(f"{cname}.forward: secant loop not found")
    wh = [st for st in loops[0].body if isinstance(st, ast.Assign) and isinstance(st.value, ast.Call) and call_name(st.value) == "torch.where"]
    if not wh:
        raise AnalysisError(f"{cname}.forward: secant update not found")
    upd = wh[0].value.args[1]   # x1 + (x2 - x1) * (T - g1) / (g2 - g1)
    subs = [n for n in ast.walk(upd) if isinstance(n, ast.BinOp) and isinstance(n.op, ast.Sub) and isinstance(n.left, ast.Name) and isinstance(n.right, ast.Name)]
    x1 = upd.left.id if isinstance(upd, ast.BinOp) and isinstance(upd.left, ast.Name) else None
    tgt = g1 = None
    ldefs = {st.targets[0].id: st.value for st in loops[0].body if isinstance(st, ast.Assign) and isinstance(st.targets[0], ast.Name)}
    for s_ in subs:
        if s_.right.id in ldefs and s_.left.id not in ldefs and x1 in names_in(ldefs[s_.right.id]):
            tgt, g1 = s_.left.id, s_.right.id
    if not (x1 and tgt and g1):
        raise AnalysisError(f"{cname}.forward: cannot identify residual of the secant iteration")
    g_expr = to_sympy(ldefs[g1], {x1: dsym, D_name: D}, funcs)
    pre = local_defs(fw)
    t_def = [v for v in pre.get(tgt, []) if h_ev_name in names_in(v)]
    if not t_def:
        raise AnalysisError(f"{cname}.forward: target `{tgt}` is not derived from {h_ev_name}")
    t_expr = to_sympy(t_def[0], {**consts, h_ev_name: hev, "ev": ev}, funcs)
    # output map rho = f(d_final)
    out_defs = [st for st in fw.body if isinstance(st, ast.Assign) and isinstance(st.targets[0], ast.Name) and st.targets[0].id.startswith("rho")]
    if not out_defs:
        raise AnalysisError(f"{cname}.forward: output map not found")
    it_name = [n for n in names_in(out_defs[-1].value)][0]
    rho_of_d = to_sympy(out_defs[-1].value, {it_name: dsym}, funcs)
    sol = sp.solve(sp.Eq(rho_of_d, rho), dsym)
    if len(sol) != 1:
        raise AnalysisError(f"{cname}: cannot invert output map")
    g_rho = sp.simplify(g_expr.subs(dsym, sol[0]))
    dgdrho = sp.diff(g_rho, rho)
    want0 = G * sp.diff(t_expr, hev) / dgdrho
    want1 = -G * sp.diff(g_rho, D) / dgdrho
    # interpret backward
    unp = [st for st in bw.body if isinstance(st, ast.Assign) and "ctx.saved_tensors" in norm(st.value)]
    if not unp:
        raise AnalysisError(f"{cname}.backward: saved tensors not unpacked")
    nm = [e.id for e in unp[0].targets[0].elts]
    env = {nm[0]: rho, nm[1]: D, bw.args.args[1].arg: G, "ev": ev}
    ret = None
    for st in bw.body:
        if isinstance(st, ast.Assign) and len(st.targets) == 1 and isinstance(st.targets[0], ast.Name) and st is not unp[0]:
            env[st.targets[0].id] = to_sympy(st.value, env, funcs)
        elif isinstance(st, ast.Return):
            ret = st
    if ret is None or not isinstance(ret.value, ast.Tuple) or len(ret.value.elts) != 2:
        raise AnalysisError(f"{cname}.backward: return tuple not found")
    b0 = to_sympy(ret.value.elts[0], env, funcs)
    b1 = to_sympy(ret.value.elts[1], env, funcs)
    r0 = sp.simplify(b0 / want0)
    r1 = sp.simplify(b1 / want1)
    ok0, ok1 = identically(b0 / want0, 1), identically(b1 / want1, 1)
    # a forward that is not linear in the integral parameter (a floor, a cap) has a derivative that depends on the parameter itself; a backward that never sees the
    # parameter cannot reproduce it (zero gradient on the clamped side)
    dT = sp.diff(t_expr, hev)
    if t_expr.has(sp.Max, sp.Min, sp.Piecewise, sp.Heaviside) or sp.simplify(sp.diff(dT, hev)) != 0:
        if hev not in b0.free_symbols:
            ok0 = False
            r0 = "backward ignores the floor / cap that forward applies to the parameter"
    ctx.check(ok0, "R3", cp, ret, f"{cname}.backward", f"{cname}: d rho / d h",
              f"{cname}: cotangent of the integral parameter is grad / (ev * df/drho) (implicit-function theorem)",
              f"{cname}.backward returns {sp.simplify(b0)} for the integral parameter; the implicit-function derivative is {sp.simplify(want0)} "
              f"(ratio {r0}; returning df/drho * grad is the reciprocal)")
    ctx.check(ok1, "R3", cp, ret, f"{cname}.backward", f"{cname}: d rho / d D",
              f"{cname}: cotangent of the charge separation is -(df/dD)/(df/drho) * grad",
              f"{cname}.backward returns {sp.simplify(b1)} for the charge separation; the implicit-function derivative is {sp.simplify(want1)} (ratio {r1})")
    saves = [c for c in calls_in(fw) if callee_attr(c) == "save_for_backward"]
    ctx.check(bool(saves) and [norm(a) for a in saves[0].args] == [nm[0], D_name], "R3", cp, fw, f"{cname}.forward", "save_for_backward",
              f"{cname}: the converged root and the charge separation are saved for backward", f"{cname}: saved tensors changed")


def _r7_passthrough(ctx, repo):
    """Pack_Parameters.forward(Z, learned_params) returns the dictionary handed to the integrals.  Whatever the caller put into
    learned_params (listed in `learned` or not: pair parameters such as Kbeta, g_ss_nuc) must still be in it, as the same tensor objects:
    the returned dictionary is the parameter itself or is built from *all* of it (dict(p), p.copy(), {**p, ...}, d.update(p))."""
    bas = repo.mod("seqm/basics.py")
    f = bas.func("Pack_Parameters.forward")
    params = [a.arg for a in f.args.args if a.arg != "self"]
    if len(params) < 2:
        raise AnalysisError("Pack_Parameters.forward signature changed")
    lp = params[1]
    rets = [r for r in ast.walk(f) if isinstance(r, ast.Return) and r.value is not None]
    if not rets:
        raise AnalysisError("Pack_Parameters.forward has no return")
    defs = {}
    for st in ast.walk(f):
        if isinstance(st, ast.Assign) and len(st.targets) == 1 and isinstance(st.targets[0], ast.Name):
            defs.setdefault(st.targets[0].id, []).append(st.value)

    def full_copy_of_lp(e, depth=0):
        """does `e` denote a dictionary that contains every entry of the caller's dictionary"""
        if depth > 4:
            return False
        if isinstance(e, ast.Name):
            if e.id == lp:
                return True
            # rebinding of the parameter to itself-or-default:  lp = lp if lp is not None else {}
            ds = defs.get(e.id, [])
            if ds and all(full_copy_of_lp(d, depth + 1) or _is_default_guard(d, lp) for d in ds):
                # additionally: some later `e.update(lp)` also qualifies
                return True
            for c in calls_in(f):
                if callee_attr(c) == "update" and isinstance(c.func, ast.Attribute) and norm(c.func.value) == e.id and c.args and full_copy_of_lp(c.args[0], depth + 1):
                    return True
            return False
        if isinstance(e, ast.Call):
            nm = call_name(e) or ""
            if nm == "dict" and e.args and full_copy_of_lp(e.args[0], depth + 1):
                return True
            if callee_attr(e) == "copy" and isinstance(e.func, ast.Attribute) and full_copy_of_lp(e.func.value, depth + 1):
                return True
        if isinstance(e, ast.Dict):
            return any(k is None and full_copy_of_lp(v, depth + 1) for k, v in zip(e.keys, e.values))
        if isinstance(e, ast.IfExp):
            if _is_default_guard(e, lp):
                return True
            # <full copy> if lp is not None else {}
            return lp in norm(e.test) and full_copy_of_lp(e.body, depth + 1) and isinstance(e.orelse, (ast.Dict, ast.Call)) and not getattr(e.orelse, "keys", None)
        return False
    for r in rets:
        first = r.value.elts[0] if isinstance(r.value, ast.Tuple) else r.value
        ctx.check(full_copy_of_lp(first), "R7", bas, r, "Pack_Parameters.forward", r,
                  f"the returned parameter dictionary `{norm(first)}` contains every entry of the caller's `{lp}` (same tensor objects)",
                  f"the returned dictionary `{norm(first)}` is not the caller's `{lp}` nor built from all of it: entries the caller supplied but that are not re-inserted here "
                  f"(pair parameters such as Kbeta, g_ss_nuc) are silently dropped - the energy stops depending on them and their gradient is None")
    # tabulated entries are inserted by subscript store, never by a detaching copy of a caller tensor
    for st in ast.walk(f):
        if isinstance(st, ast.Assign) and isinstance(st.targets[0], ast.Subscript):
            v = st.value
            bad = any(isinstance(x, ast.Call) and callee_attr(x) in ("detach", "item", "tolist", "numpy", "clone") and lp in norm(x) for x in ast.walk(v))
            ctx.check(not bad, "R7", bas, st, "Pack_Parameters.forward", st, "entries are stored without detaching caller tensors", f"`{short(norm(st), 70)}` stores a detached copy of a caller tensor")


def _is_default_guard(e, lp):
    """`lp if lp is not None else {}` / `lp or {}`"""
    if isinstance(e, ast.IfExp):
        return norm(e.body) == lp and isinstance(e.orelse, (ast.Dict, ast.Call)) and lp in norm(e.test)
    if isinstance(e, ast.BoolOp) and isinstance(e.op, ast.Or):
        return norm(e.values[0]) == lp
    return False


def _r8_adjoint_halving(ctx, repo):
    scf = repo.mod("seqm/seqm_functions/scf_loop.py")
    bw = scf.func("SCF.backward")
    from ..guards import controlling
    halves = [st for st in ast.walk(bw) if isinstance(st, ast.Assign) and isinstance(st.value, ast.BinOp) and isinstance(st.value.op, (ast.Div, ast.Mult))
              and norm(st.targets[0]) == norm(st.value.left) and norm(st.value.right) in (("2", "2.0") if isinstance(st.value.op, ast.Div) else ("0.5",))]
    ok = False
    for h in halves:
        ctrl = [(norm(a), p) for a, p, _ in controlling(scf, h)]
        if any(p and a in ("unrestricted", "P.dim() == 4", "Pin.dim() == 4") for a, p in ctrl):
            ok = True
    # alternatively the rebuilt density comes from a helper that is itself asked for the per-spin density
    ctx.check(ok, "R8", scf, halves[0] if halves else bw, "SCF.backward", halves[0] if halves else "Pout / 2",
              "the density rebuilt inside the adjoint is halved under the unrestricted branch (builder returns 2 C C^T per spin)",
              "SCF.backward does not halve the rebuilt unrestricted density: the implicit-function adjoint linearises P -> 2 C C^T instead of the per-spin map the forward "
              "solver iterates; for open shells the adjoint fixed point diverges or returns wrong d(eps)/d(theta)")
