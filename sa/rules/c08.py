"""C08 -- NVE dynamics is a second-order, time-reversible, momentum-conserving integrator (structural clauses)."""
from __future__ import annotations

import ast
import math
import re

from ..cfg import build_cfg
from ..exprs import NotConst, fold, to_sympy
from ..loader import AnalysisError, attr_chain, call_name, callee_attr, calls_in, names_in, norm, short
from ..mdstep import MD, NAD, STEP_FUNCS, StepEvents, local_defs, md_env, md_funcs, md_symbols, mutated_phase_attr

LEVEL = "other"
EXPLANATION = (
    "R1 kick-drift-force-acc-kick typestate on every CFG path of all five step implementations (velocity Verlet word "
    "T?KDEAKT?H?, thermostat on both sides or neither), with the coefficient of every event checked as an expression "
    "(half kick = acc*dt/2, drift = velocities*dt, acc = force*mass_inverse*ACC_SCALE, dt = self.timestep); R2 unit constants folded "
    "from PhysicalConstants: ACC_SCALE*KINETIC_ENERGY_SCALE = 1, VEL_SCALE^2*KES*TEMPERATURE_SCALE = 1, each within 1e-6 of "
    "CODATA; R3 thermo bookkeeping freshness in run(): on every path, Ek/T/V handed to a writer are recomputed after the last "
    "velocity mutation of the iteration and no mutation follows a writer; kinetic energy / temperature formulas; R4 who-may-write "
    "inventory of molecule.velocities/coordinates/acc in the MD modules. Measured order, reversibility error and drift are not decided."
)
ASSUMPTIONS = ["phase-space state is only reached through attributes of the parameter named `molecule`",
               "the force evaluation call (esdriver / _compute_electronic_structure) refreshes molecule.force for the current coordinates (C01/C14)"]
TRUSTED = ["sympy normal form for the event coefficients", "CODATA 2018 values embedded in the checker"]

E_CHARGE = 1.602176634e-19
AMU = 1.66053906660e-27
KB_EV = 8.617333262e-5

# velocity/coordinate mutation sites that are part of the documented algorithm (who-may-write table); keyed by function
ALLOWED_MUTATORS = {
    "Molecular_Dynamics_Basic.one_step": "velocity Verlet",
    "Molecular_Dynamics_Langevin.one_step": "velocity Verlet",
    "XL_BOMD.one_step": "velocity Verlet",
    "XL_ESMD.one_step": "velocity Verlet",
    "NonadiabaticDynamicsBase._do_integrator_step": "velocity Verlet",
    "NonadiabaticDynamicsBase.initialize": "acc from force at t=0",
    "Molecular_Dynamics_Basic.initialize": "acc from force at t=0",
    "Molecular_Dynamics_Basic.initialize_velocity": "initial velocity draw / rescale (C13)",
    "Molecular_Dynamics_Basic._zero_com": "centre-of-mass removal (C13)",
    "Molecular_Dynamics_Basic.run": "opt-in velocity scaling / energy-shift control, each followed by recomputation (R3)",
    "Molecular_Dynamics_Langevin._apply_langevin_thermostat": "O-step (C12)",
    "SurfaceHoppingDynamics._rescale_velocity_along_nac": "hop momentum adjustment (C17)",
    "SurfaceHoppingDynamics._after_electronic_update": "acc refresh after a hop (C17)",
    "Geometry_Optimization_SD.onestep": "steepest-descent update (C20)",
    "Molecular_Dynamics_Basic._restore_molecule_from_ckpt": "checkpoint restore (C10)",
}


def _sym_of(expr, func, sym, extra=None):
    """Translate an update expression to sympy, resolving local names through single straight-line defs."""
    env = md_env(sym)
    defs = local_defs(func)
    if extra:
        env.update(extra)

    def atom(n):
        if isinstance(n, ast.Name) and n.id in defs and len(defs[n.id]) == 1:
            return to_sympy(defs[n.id][0], env, md_funcs(), atom)
        return None

    return to_sympy(expr, env, md_funcs(), atom)


def run(ctx):
    import sympy as sp
    repo = ctx.repo
    sym = md_symbols()
    ctx.rule("R1", "velocity-Verlet typestate T?KDEAKT?H? on every path of every step implementation, with exact event coefficients")
    ctx.rule("R2", "unit-constant identities and CODATA agreement (constant analysis of PhysicalConstants)")
    ctx.rule("R3", "bookkeeping freshness: Ek/T/V given to writers are recomputed after the last velocity mutation; formulas of Ek and T")
    ctx.rule("R4", "who-may-write inventory for molecule.velocities / coordinates / acc")
    # options whose documented meaning is their truth value (default False / True): deciding them by *presence* of the key turns an explicit `False` into `True`
    # (e.g. control_energy_shift=False forwarded from a configuration dictionary would rescale the velocities of an NVE run every step)
    BOOLEAN_OPTIONS = {"control_energy_shift", "write_mo", "transition_properties", "decohere_on_hop", "detect_crossings"}
    n_bool = 0
    for rel_ in (MD, "seqm/NonadiabaticDynamics.py"):
        m_ = repo.mod(rel_)
        for n_ in ast.walk(m_.tree):
            if isinstance(n_, ast.Compare) and len(n_.ops) == 1 and isinstance(n_.ops[0], (ast.In, ast.NotIn)) and isinstance(n_.left, ast.Constant) and n_.left.value in BOOLEAN_OPTIONS:
                ctx.fail("R4", m_, n_, m_.qualname_of(n_), n_, f"`{norm(n_)}` decides the boolean option '{n_.left.value}' by the presence of its key: an explicit False switches the feature on "
                         f"(for control_energy_shift: the velocities of a plain NVE run are rescaled every step; reversibility and the O(dt^2) energy fluctuation are lost)")
            if isinstance(n_, ast.Call) and callee_attr(n_) == "get" and n_.args and isinstance(n_.args[0], ast.Constant) and n_.args[0].value in BOOLEAN_OPTIONS:
                n_bool += 1
    ctx.check(n_bool >= 4, "R4", repo.mod(MD), repo.mod(MD).tree, "<module>", "boolean options", f"boolean options are read by value ({n_bool} reads through .get(key, default))",
              f"only {n_bool} of the documented boolean options are read by value")

    # the plain and the thermostatted velocity-Verlet step are decided by value (sa.npsym: polynomial identities on symbolic x, v, a, 1/m, dt with a stand-in force driver);
    # where that holds, findings of the event-word reading about the same two routines are artefacts of spelling
    from ..assembly import interpreted_verlet_step
    by_value_steps = set()
    try:
        for cls_, ok_, msg_ in interpreted_verlet_step(repo):
            m_ = repo.mod(MD)
            ctx.check(ok_, "R1", m_, m_.func(f"{cls_}.one_step"), f"{cls_}.one_step", "velocity-Verlet identities",
                      f"{cls_}.one_step: x' = x + v dt + a dt^2/2, one force evaluation at x', a' = F'/m ACC_SCALE, v' = v + (a + a') dt/2"
                      + (" between two thermostat half-steps" if "Langevin" in cls_ else ""), f"{cls_}.one_step: {msg_}")
            if ok_:
                by_value_steps.add(f"{cls_}.one_step")
    except AnalysisError as e_:
        ctx.note(f"one_step could not be interpreted ({str(e_)[:100]}); event-word reading only")
    if by_value_steps:
        ctx.demote = lambda rid, rel, function, message: ("decided by value (velocity-Verlet identities)" if rid == "R1" and function in by_value_steps else None)
    word_re = re.compile(r"^(TKDEAKT|KDEAK)H?$")
    for rel, q in STEP_FUNCS:
        m = repo.mod(rel)
        f = m.func(q)
        se = StepEvents(m, f)
        words = se.words()
        bad = sorted(w for w in words if not word_re.match(w))
        ctx.check(not bad and bool(words), "R1", m, f, q, f.name,
                  f"{q}: every path spells the velocity-Verlet word (paths: {sorted(words)})",
                  f"{q}: integration step is not kick-drift-force-acc-kick on some path: event word(s) {bad} "
                  f"(K half-kick, D drift, E force evaluation, A acceleration update, T thermostat, H hop; lower case = foreign write)")
        # coefficients
        for k in se.all_events("K"):
            try:
                e = _sym_of(k.args[0], f, sym)
                # acc*dt/2, or the same acceleration written out from the current force (ACC_SCALE * F * mass_inverse): wherever a kick stands in the accepted
                # words the stored acceleration and the current force describe the same geometry, or the force is the newer one that the kick must use
                ok = sp.simplify(e - sym["a"] * sym["dt"] / 2) == 0 or sp.simplify(e - sym["ACC"] * sym["F"] * sym["minv"] * sym["dt"] / 2) == 0
            except AnalysisError as ex:
                e, ok = str(ex), False
            ctx.check(ok, "R1", m, k, q, k, "half kick adds acc*dt/2 with dt = self.timestep",
                      f"velocity kick adds `{norm(k.args[0])}` (= {e}), not acc*dt/2")
        for d in se.all_events("D"):
            try:
                e = _sym_of(d.args[0], f, sym)
                ok = sp.simplify(e - sym["v"] * sym["dt"]) == 0
            except AnalysisError as ex:
                e, ok = str(ex), False
            ctx.check(ok, "R1", m, d, q, d, "drift adds velocities*dt with dt = self.timestep",
                      f"position drift adds `{norm(d.args[0])}` (= {e}), not velocities*dt")
        for a in se.all_events("A"):
            try:
                e = _sym_of(a.value, f, sym)
                ok = sp.simplify(e - sym["F"] * sym["minv"] * sym["ACC"]) == 0
            except AnalysisError as ex:
                e, ok = str(ex), False
            ctx.check(ok, "R1", m, a, q, a, "acceleration = force * mass_inverse * ACC_SCALE",
                      f"acceleration update is `{norm(a.value)}` (= {e}), not force*mass_inverse*ACC_SCALE")
        # the updates run without autograd tracking and drift uses post-kick velocities by construction of the word
    ctx.demote = None
    ctx.floor("R1", 5 + 10 + 5 + 5)

    # the step hook is what run() calls, and each class's hook reaches its own one_step
    md = repo.mod(MD)
    hook = md.func("Molecular_Dynamics_Basic._do_integrator_step")
    ctx.check(any(callee_attr(c) == "one_step" for c in calls_in(hook)), "R1", md, hook, "Molecular_Dynamics_Basic._do_integrator_step", hook.name,
              "base integrator hook calls one_step", "base _do_integrator_step does not call one_step")
    xh = md.func("XL_BOMD._do_integrator_step")
    ctx.check(any(callee_attr(c) == "one_step" for c in calls_in(xh)), "R1", md, xh, "XL_BOMD._do_integrator_step", xh.name,
              "XL integrator hook calls one_step", "XL_BOMD._do_integrator_step does not call one_step")
    # initial acceleration at t=0 in initialize uses the same formula
    for rel, q in ((MD, "Molecular_Dynamics_Basic.initialize"), (NAD, "NonadiabaticDynamicsBase.initialize"), (NAD, "SurfaceHoppingDynamics._after_electronic_update")):
        m = repo.mod(rel)
        f = m.func(q)
        for st in ast.walk(f):
            for attr, how, node in (mutated_phase_attr(st) if isinstance(st, ast.Assign) else []):
                if attr == "acc" and how == "assign":
                    e = _sym_of(node.value, f, sym)
                    ctx.check(sp.simplify(e - sym["F"] * sym["minv"] * sym["ACC"]) == 0, "R1", m, node, q, node,
                              "acceleration = force * mass_inverse * ACC_SCALE", f"acceleration set to `{norm(node.value)}`")

    _r2(ctx, md)
    _r3(ctx, md, sym)
    _r4(ctx, repo)
    ctx.rule("R5", "centre-of-mass projection conserves what it should: COM-relative positions, momentum expressions, kinetic energy restored (shared with C13)")
    from .c13 import check_zero_com
    check_zero_com(ctx, md, "R5")
    ctx.rule("R6", "batch-row discipline in the writers: per-molecule values are indexed by the molecule id that names the file/handle")
    ctx.rule("R7", "every molecule's force and energy come from its own row: no per-molecule quantity (sizes, active state) is taken from row 0 for the whole batch (representative-row rule)")
    from .c05 import check_rep_rows
    check_rep_rows(ctx, "R7")
    check_writer_row_index(ctx, md, "R6")


def _r2(ctx, md):
    cls = md.cls("PhysicalConstants")
    vals = {}
    for st in cls.body:
        if isinstance(st, ast.AnnAssign) and isinstance(st.target, ast.Name) and st.value is not None:
            try:
                vals[st.target.id] = float(fold(st.value))
            except NotConst:
                pass
    need = ["ACC_SCALE", "VEL_SCALE", "KINETIC_ENERGY_SCALE", "TEMPERATURE_SCALE"]
    if any(k not in vals for k in need):
        raise AnalysisError(f"PhysicalConstants: constants {need} not all literal ({sorted(vals)})")
    # CONSTANTS is an instance with default arguments, never mutated
    inst = md.globals.get("CONSTANTS")
    ctx.check(inst is not None and isinstance(inst, ast.Call) and norm(inst.func) == "PhysicalConstants" and not inst.args and not inst.keywords,
              "R2", md, inst or cls, "<module>", "CONSTANTS = PhysicalConstants()", "CONSTANTS uses the literal defaults",
              "CONSTANTS is not PhysicalConstants() with default values")
    for m in (ctx.repo.mod(MD), ctx.repo.mod(NAD)):
        for st in ast.walk(m.tree):
            if isinstance(st, (ast.Assign, ast.AugAssign)):
                tg = st.targets if isinstance(st, ast.Assign) else [st.target]
                for t in tg:
                    if isinstance(t, ast.Attribute) and norm(t.value) == "CONSTANTS":
                        ctx.fail("R2", m, st, m.qualname_of(st), st, "unit constant reassigned at run time")
    A, V, K, T = (vals[k] for k in need)

    def rel(a, b):
        return abs(a - b) / abs(b)

    checks = [
        ("ACC_SCALE * KINETIC_ENERGY_SCALE = 1 (kinetic and potential energy share one unit system)", rel(A * K, 1.0), 1e-9),
        ("VEL_SCALE^2 * KINETIC_ENERGY_SCALE * TEMPERATURE_SCALE = 1 (k_B consistent between draw/thermostat and thermometer)", rel(V * V * K * T, 1.0), 1e-6),
        ("ACC_SCALE = e/amu * 1e-10 (CODATA)", rel(A, E_CHARGE / AMU * 1e-10), 1e-6),
        ("KINETIC_ENERGY_SCALE = amu*1e10/e (CODATA)", rel(K, AMU * 1e10 / E_CHARGE), 1e-6),
        ("TEMPERATURE_SCALE = 1/k_B[eV/K] (CODATA)", rel(T, 1.0 / KB_EV), 1e-6),
        ("VEL_SCALE = sqrt(k_B/amu) in A/fs (CODATA)", rel(V, math.sqrt(KB_EV * E_CHARGE / AMU) * 1e-5), 1e-6),
    ]
    for what, err, tol in checks:
        ctx.check(err <= tol, "R2", md, cls, "PhysicalConstants", what, f"{what}: relative error {err:.2e} <= {tol:g}",
                  f"{what} violated: relative error {err:.3e} > {tol:g} (values {vals})")


def _r3(ctx, md, sym):
    import sympy as sp
    f = md.func("Molecular_Dynamics_Basic.run")
    g = build_cfg(f)
    head = [n.id for n in g.nodes if n.kind == "for" and "step_offset" in norm(n.expr)]
    if not head:
        raise AnalysisError("run(): step loop not found")
    head = head[0]
    body = g.loop_body(head)

    def stmt_nodes(pred):
        return [n.id for n in g.nodes if n.kind == "stmt" and n.id in body and pred(n.stmt)]

    def calls(st, names):
        return any(callee_attr(c) in names for c in calls_in(st))

    mutators = stmt_nodes(lambda st: calls(st, {"_do_integrator_step", "_zero_com"}) or
                          any(a in ("velocities", "coordinates") for a, _, _ in mutated_phase_attr(st)))
    writers = stmt_nodes(lambda st: any((callee_attr(c) in ("append_data", "_output_to_screen", "append_vectors")) or
                                        (callee_attr(c) == "write" and "_xyz_writer" in norm(c.func)) or callee_attr(c) == "save_checkpoint"
                                        for c in calls_in(st)))
    ek_defs = set(stmt_nodes(lambda st: isinstance(st, ast.Assign) and norm(st.targets[0]) == "Ek"))
    t_defs = set(stmt_nodes(lambda st: isinstance(st, ast.Assign) and norm(st.targets[0]) == "T"))
    v_defs = set(stmt_nodes(lambda st: isinstance(st, ast.Assign) and norm(st.targets[0]) == "V"))
    if not (mutators and writers and ek_defs and t_defs and v_defs):
        raise AnalysisError("run(): bookkeeping anchors not found")
    for n in ek_defs:
        ctx.check(norm(g.nodes[n].stmt.value) == "self._kinetic_energy(molecule)", "R3", md, g.nodes[n].stmt, "Molecular_Dynamics_Basic.run",
                  g.nodes[n].stmt, "Ek is computed by _kinetic_energy(molecule)", f"Ek defined as `{norm(g.nodes[n].stmt.value)}`")
    for n in t_defs:
        ctx.check(norm(g.nodes[n].stmt.value) == "self._calc_temperature(Ek)", "R3", md, g.nodes[n].stmt, "Molecular_Dynamics_Basic.run",
                  g.nodes[n].stmt, "T is computed from the current Ek", f"T defined as `{norm(g.nodes[n].stmt.value)}`")
    for n in v_defs:
        ctx.check(norm(g.nodes[n].stmt.value) == "self._thermo_potential(molecule)", "R3", md, g.nodes[n].stmt, "Molecular_Dynamics_Basic.run",
                  g.nodes[n].stmt, "V is the engine's thermodynamic potential", f"V defined as `{norm(g.nodes[n].stmt.value)}`")
    for w in writers:
        wst = g.nodes[w].stmt
        used = names_in(wst)
        for mu in mutators:
            mst = g.nodes[mu].stmt
            if w not in g.reachable(mu, avoid={head}, labels_avoid={"exc"}):
                # mutation after the writer within the iteration?
                if mu in g.reachable(w, avoid={head}, labels_avoid={"exc"}):
                    ctx.fail("R3", md, mst, "Molecular_Dynamics_Basic.run", mst,
                             f"phase-space mutation `{short(mst, 50)}` happens after output `{short(wst, 50)}` of the same step: "
                             f"what is written is not the state the next step starts from")
                continue
            if "Ek" in used or "T" in used:
                ok = g.must_pass(mu, w, ek_defs, labels_avoid={"exc"}) if w not in () else True
                # must_pass ignores paths through the loop head (next iteration) by construction of reachable(avoid)
                reach = g.reachable(mu, avoid=ek_defs | {head}, labels_avoid={"exc"})
                ctx.check(w not in reach, "R3", md, wst, "Molecular_Dynamics_Basic.run", wst,
                          f"Ek written by `{short(wst, 40)}` is recomputed after `{short(mst, 40)}` on every path",
                          f"`{short(wst, 60)}` can receive a kinetic energy computed before `{short(mst, 60)}` changed the velocities "
                          f"(energies/temperature written are not those of the velocities written for the step)")
            if "V" in used and calls(mst, {"_do_integrator_step"}):
                reach = g.reachable(mu, avoid=v_defs | {head}, labels_avoid={"exc"})
                ctx.check(w not in reach, "R3", md, wst, "Molecular_Dynamics_Basic.run", wst,
                          f"potential energy written by `{short(wst, 40)}` is read after the integrator step",
                          f"`{short(wst, 60)}` can receive a potential energy read before the integrator step")
        if "T" in used:
            for ek in ek_defs:
                if w in g.reachable(ek, avoid={head}, labels_avoid={"exc"}):
                    reach = g.reachable(ek, avoid=t_defs | {head}, labels_avoid={"exc"})
                    ctx.check(w not in reach, "R3", md, wst, "Molecular_Dynamics_Basic.run", wst,
                              f"T written by `{short(wst, 40)}` is recomputed after each Ek update",
                              f"`{short(wst, 60)}` can receive a temperature that was not recomputed from the latest kinetic energy")
        # arguments are the loop's own Ek/T/V names (not stale copies)
        for c in calls_in(wst):
            if callee_attr(c) == "append_data":
                args = [norm(a) for a in c.args]
                ctx.check(args[2:5] == ["T", "Ek", "V"], "R3", md, c, "Molecular_Dynamics_Basic.run", c,
                          "append_data receives (T, Ek, V) in the writer's parameter order",
                          f"append_data receives {args[2:5]} for (T, Ek, Ep)")
            if callee_attr(c) == "_output_to_screen":
                args = [norm(a) for a in c.args]
                ctx.check(args[1:4] == ["T", "Ek", "V"], "R3", md, c, "Molecular_Dynamics_Basic.run", c,
                          "_output_to_screen receives (T, Ek, V)", f"_output_to_screen receives {args[1:4]}")
            if callee_attr(c) == "write" and "_xyz_writer" in norm(c.func):
                args = [norm(a) for a in c.args]
                ctx.check(args[2:4] == ["Ek", "V"], "R3", md, c, "Molecular_Dynamics_Basic.run", c,
                          "XYZ frame header receives (Ek, V)", f"XYZ writer receives {args[2:4]}")
    ctx.floor("R3", 10)
    # formulas
    ke = md.func("Molecular_Dynamics_Basic._kinetic_energy")
    ret = [n for n in ast.walk(ke) if isinstance(n, ast.Return)][0]
    e = to_sympy(ret.value, md_env(sym), md_funcs())
    ctx.check(sp.simplify(e - sp.Rational(1, 2) * sym["m"] * sym["v"] ** 2 * sym["KES"]) == 0, "R3", md, ret, "Molecular_Dynamics_Basic._kinetic_energy",
              ret, "Ek = sum 1/2 m v^2 * KINETIC_ENERGY_SCALE", f"kinetic energy summand is {e}")
    dims = [k for c in calls_in(ret) if (call_name(c) or "").endswith("sum") for k in c.keywords if k.arg == "dim"]
    ctx.check(bool(dims) and norm(dims[0].value).replace(" ", "") in ("(1,2)", "[1,2]"), "R3", md, ret, "Molecular_Dynamics_Basic._kinetic_energy", ret,
              "kinetic energy is summed per molecule over atoms and components (dim=(1,2))", "kinetic energy is not reduced over dim=(1,2) per molecule")
    ct = md.func("Molecular_Dynamics_Basic._calc_temperature")
    ret = [n for n in ast.walk(ct) if isinstance(n, ast.Return)][0]
    Ek = sp.Symbol("Ek", positive=True)
    env = md_env(sym)
    env[ct.args.args[1].arg] = Ek
    e = to_sympy(ret.value, env, md_funcs())
    ctx.check(sp.simplify(e - 2 * Ek * sym["TS"] / sym["ndof"]) == 0, "R3", md, ret, "Molecular_Dynamics_Basic._calc_temperature", ret,
              "T = 2 Ek * TEMPERATURE_SCALE / n_dof", f"temperature formula is {e}")
    # XL thermo potential and base potential
    tp = md.func("Molecular_Dynamics_Basic._thermo_potential")
    ret = [n for n in ast.walk(tp) if isinstance(n, ast.Return)][0]
    ctx.check(norm(ret.value) == "molecule.Etot", "R3", md, ret, "Molecular_Dynamics_Basic._thermo_potential", ret,
              "potential energy reported is molecule.Etot", f"potential energy reported is `{norm(ret.value)}`")


def _helper_of_allowed(repo, q):
    """a method whose only callers (self.<name>(...) anywhere in the MD modules) are allowed mutators is a helper of those mutators:
    its writes are placed in the callers' event order by StepEvents inlining (R1), so the inventory accepts it"""
    name = q.split(".")[-1]
    callers = set()
    for rel in (MD, NAD):
        m = repo.mod(rel)
        for cq, cf in m.functions.items():
            for c in calls_in(cf):
                if callee_attr(c) == name and isinstance(c.func, ast.Attribute) and norm(c.func.value) == "self" and m.qualname_of(c) == cq:
                    callers.add(cq)
    if callers and all(c in ALLOWED_MUTATORS for c in callers):
        return sorted(callers)
    return None


def _r4(ctx, repo):
    n = 0
    for rel in (MD, NAD):
        m = repo.mod(rel)
        for q, f in m.functions.items():
            if "<locals>" in q:
                continue
            sites = []
            for st in ast.walk(f):
                if isinstance(st, ast.stmt):
                    for attr, how, node in mutated_phase_attr(st):
                        if m.enclosing_function(node) is f or m.enclosing_function(node) is None:
                            sites.append((attr, how, node))
            # dedupe nodes (ast.walk over nested statements repeats)
            seen = set()
            for attr, how, node in sites:
                if id(node) in seen:
                    continue
                seen.add(id(node))
                if how == "assign" and isinstance(node.value, ast.Constant) and node.value.value is None:
                    continue
                n += 1
                helper_of = None if q in ALLOWED_MUTATORS else _helper_of_allowed(repo, q)
                ctx.check(q in ALLOWED_MUTATORS or helper_of is not None, "R4", m, node, q, node,
                          f"write to molecule.{attr} in {q}: {ALLOWED_MUTATORS.get(q) or 'helper called only from ' + ', '.join(helper_of or [])}",
                          f"`{short(node, 70)}` writes molecule.{attr} outside the integrator / documented velocity controls "
                          f"(breaks the symplectic step or the momentum bookkeeping)")
    if n < 25:
        raise AnalysisError(f"only {n} phase-space write sites found")


def check_writer_row_index(ctx, md, rid):
    """In every writer loop `for mol in self.config.molid` (possibly via enumerate/zip), whole-batch tensors must be
    indexed by the molecule-id variable, never by an enumeration counter."""
    n = 0
    for q in ("HDF5Writer.append_data", "HDF5Writer.append_vectors", "HDF5Writer.append_nonadiabatic", "XYZWriter.write",
              "Molecular_Dynamics_Basic._output_to_screen", "HDF5Writer.open"):
        f = md.func(q)
        for loop in ast.walk(f):
            if not (isinstance(loop, ast.For) and "molid" in norm(loop.iter)):
                continue
            bound = [x.id for x in ast.walk(loop.target) if isinstance(x, ast.Name)]
            it = loop.iter
            if isinstance(it, ast.Call) and isinstance(it.func, ast.Name) and it.func.id == "enumerate" and isinstance(loop.target, ast.Tuple):
                mol_var = [x.id for x in ast.walk(loop.target.elts[1]) if isinstance(x, ast.Name)]
                counters = [x.id for x in ast.walk(loop.target.elts[0]) if isinstance(x, ast.Name)]
            elif isinstance(it, ast.Call) and isinstance(it.func, ast.Name) and it.func.id == "zip":
                pos = [i for i, a in enumerate(it.args) if "molid" in norm(a)]
                elts = loop.target.elts if isinstance(loop.target, ast.Tuple) else [loop.target]
                mol_var = [elts[pos[0]].id] if pos and isinstance(elts[pos[0]], ast.Name) else []
                counters = []
                # every other zipped sequence must itself be aligned with molid (built per molid, or a whole-batch array selected by molid):
                # zipping a whole-batch array pairs batch row k with the k-th *selected* molecule
                fdefs = {}
                for st_ in ast.walk(f):
                    if isinstance(st_, ast.Assign) and len(st_.targets) == 1 and isinstance(st_.targets[0], ast.Name):
                        fdefs.setdefault(st_.targets[0].id, []).append(st_.value)

                def aligned(e, depth=0):
                    if "molid" in norm(e):
                        return True
                    if isinstance(e, ast.Name) and depth < 4 and fdefs.get(e.id):
                        return all(aligned(v, depth + 1) for v in fdefs[e.id])
                    return False
                for i_, a_ in enumerate(it.args):
                    if i_ in pos:
                        continue
                    ctx.check(aligned(a_), rid, md, loop, q, f"zip(molid, {short(norm(a_), 40)})",
                              f"{q}: `{short(norm(a_), 40)}` is built per selected molecule",
                              f"{q}: `zip({norm(it.args[pos[0]]) if pos else '?'}, {short(norm(a_), 40)})` pairs the k-th selected molecule with row k of a whole-batch array "
                              f"(`{short(norm(fdefs.get(a_.id, [a_])[0]) if isinstance(a_, ast.Name) else norm(a_), 60)}`): with molid != [0..n-1] the thermodynamic values written "
                              f"to a molecule's file belong to another molecule")
            else:
                mol_var = bound[:1]
                counters = []
            if not mol_var:
                raise AnalysisError(f"{q}: molecule-id loop variable not recognised")
            mv = mol_var[0]
            # local names that are built per-molid (lists aligned with molid) may be indexed by a counter
            per_molid = set()
            for st in ast.walk(f):
                if isinstance(st, ast.Assign) and len(st.targets) == 1 and isinstance(st.targets[0], ast.Name) \
                        and isinstance(st.value, (ast.ListComp, ast.List)) and "molid" in norm(st.value):
                    per_molid.add(st.targets[0].id)
            n += 1
            bad = []
            used_mol = False
            for sub in ast.walk(loop):
                if isinstance(sub, ast.Subscript):
                    first = sub.slice.elts[0] if isinstance(sub.slice, ast.Tuple) and sub.slice.elts else sub.slice
                    if isinstance(first, ast.Name):
                        if first.id == mv:
                            used_mol = True
                        elif first.id in counters and not (isinstance(sub.value, ast.Name) and sub.value.id in per_molid):
                            bad.append(sub)
            ctx.check(not bad, rid, md, bad[0] if bad else loop, q, bad[0] if bad else loop.target,
                      f"{q}: per-molecule values are indexed by the molecule id `{mv}`",
                      f"{q}: `{norm(bad[0]) if bad else ''}` indexes a whole-batch array by the enumeration counter instead of the molecule id "
                      f"`{mv}`: with molid != [0..n-1] the values written to a molecule's file belong to another molecule")
            ctx.check(used_mol, rid, md, loop, q, loop.target, f"{q}: loop body selects rows with `{mv}`", f"{q}: loop over molid never indexes by the molecule id")
    if n < 5:
        raise AnalysisError("writer loops over molid not found")
