"""C09 -- XL-BOMD propagation is consistent with SCF, fixed-point preserving and stable (algebraic/structural clauses)."""
from __future__ import annotations

import ast
import types

from ..exprs import NotConst, fold, int_eval, to_sympy
from ..guards import controlling
from ..loader import AnalysisError, attr_chain, call_name, callee_attr, calls_in, names_in, norm, short
from ..mdstep import MD, md_funcs

LEVEL = "other"
EXPLANATION = (
    "R1 the literal coefficient table in XL_BOMD.__init__ is folded and compared, exhaustively for k=3..9, with Niklasson et al. "
    "JCP 130, 214109 (2009) Table I (embedded specification); additionally row length k+1, sum_j c_j = 0 and all roots of the "
    "characteristic polynomial of the executed recurrence inside the closed unit disk for 200 values of kappa_eff in (0, kappa]; "
    "R2 the straight-line block that builds coeff/coeff_D is constant-propagated and every propagate variant is translated to a "
    "linear form: with D = P = every history slot the result is P (coefficients sum to one), the D coefficient is delta*kappa; "
    "R3 circular-buffer index agreement: the expressions for cindx, the write slot, the coefficient window and the restart read "
    "are re-interpreted over m=4..10 and two buffer periods: each slot is paired with the coefficient of its age, the written "
    "slot is the oldest, the restart reads the slot written by the last completed step; R4 shadow energy with D:=P reduces to "
    "the SCF energy expression (sympy); R5 fresh history = m copies of the converged density and is not rebuilt on resume. "
    "Rank-m kernel numerics and measured drift are not decided."
)
ASSUMPTIONS = ["Niklasson Table I as embedded is the intended scheme", "history buffers are only indexed through the expressions extracted here"]
TRUSTED = ["numpy.roots for the root locus", "sympy for R4"]

# Niklasson, Steneteg, Odell, Bock, Challacombe, Tymczak, Holmstrom, Zheng, Weber, JCP 130, 214109 (2009), Table I
NIKLASSON = {
    3: (1.69, 150e-3, [-2, 3, 0, -1]),
    4: (1.75, 57e-3, [-3, 6, -2, -2, 1]),
    5: (1.82, 18e-3, [-6, 14, -8, -3, 4, -1]),
    6: (1.84, 5.5e-3, [-14, 36, -27, -2, 12, -6, 1]),
    7: (1.86, 1.6e-3, [-36, 99, -88, 11, 32, -25, 8, -1]),
    8: (1.88, 0.44e-3, [-99, 286, -286, 78, 78, -90, 42, -10, 1]),
    9: (1.89, 0.12e-3, [-286, 858, -936, 364, 168, -300, 184, -63, 12, -1]),
}


class _Vec(list):
    pass


def _vfold(node, env):
    """Constant propagation with list-valued (vector) constants: scalar*vector, vector[i], vector[a:b], .repeat(n)."""
    if isinstance(node, ast.Call):
        cn = call_name(node) or ""
        if cn in ("torch.as_tensor", "torch.tensor", "torch.nn.Parameter", "np.array", "numpy.array") and node.args:
            v = _vfold(node.args[0], env)
            return _Vec(v) if isinstance(v, list) else v
        if isinstance(node.func, ast.Attribute) and node.func.attr == "repeat" and len(node.args) == 1:
            v = _vfold(node.func.value, env)
            return _Vec(list(v) * int(_vfold(node.args[0], env)))
        if isinstance(node.func, ast.Attribute) and node.func.attr in ("clone", "double", "float", "to", "detach"):
            return _vfold(node.func.value, env)
    if isinstance(node, ast.BinOp):
        a, b = _vfold(node.left, env), _vfold(node.right, env)
        import operator
        op = {ast.Add: operator.add, ast.Sub: operator.sub, ast.Mult: operator.mul, ast.Div: operator.truediv}.get(type(node.op))
        if op is None:
            raise NotConst(norm(node))
        if isinstance(a, list) and not isinstance(b, list):
            return _Vec(op(x, b) for x in a)
        if isinstance(b, list) and not isinstance(a, list):
            return _Vec(op(a, x) for x in b)
        if isinstance(a, list) and isinstance(b, list):
            if len(a) != len(b):
                raise NotConst("vector length mismatch")
            return _Vec(op(x, y) for x, y in zip(a, b))
        return op(a, b)
    if isinstance(node, ast.Subscript):
        v = _vfold(node.value, env)
        if isinstance(node.slice, ast.Slice):
            lo = _vfold(node.slice.lower, env) if node.slice.lower else None
            hi = _vfold(node.slice.upper, env) if node.slice.upper else None
            r = v[lo:hi]
            return _Vec(r) if isinstance(r, list) else r
        i = _vfold(node.slice, env)
        r = v[i]
        return _Vec(r) if isinstance(r, list) else r
    if isinstance(node, ast.Attribute):
        d = norm(node)
        if d in env:
            return env[d]
        raise NotConst(d)
    if isinstance(node, ast.Name):
        if node.id in env:
            return env[node.id]
        raise NotConst(node.id)
    return fold(node, env)


def _r1_r2_literal(ctx, md, np):
    """R1 / R2 read from the literal coefficient table of XL_BOMD.__init__ and constant propagation of the constructor"""
    init = md.func("XL_BOMD.__init__")
    table_stmt = None
    for st in ast.walk(init):
        if isinstance(st, ast.Assign) and isinstance(st.value, ast.Dict) and len(st.value.keys) >= 5 \
                and all(isinstance(k, ast.Constant) and isinstance(k.value, int) for k in st.value.keys):
            table_stmt = st
    if table_stmt is None:
        raise AnalysisError("XL_BOMD.__init__: coefficient table literal not found")
    table_name = norm(table_stmt.targets[0])
    table = fold(table_stmt.value)
    ctx.check(sorted(table) == list(range(3, 10)), "R1", md, table_stmt, "XL_BOMD.__init__", "table keys", "table has rows k = 3..9",
              f"table rows are {sorted(table)}")
    ctx.exhaustive = True
    for k in sorted(set(table) | set(NIKLASSON)):
        if k not in table or k not in NIKLASSON:
            continue
        row = table[k]
        kappa, alpha, c = row[0], row[1], row[2:]
        sk, sa, sc = NIKLASSON[k]
        same = abs(kappa - sk) < 1e-12 and abs(alpha - sa) < 1e-15 and len(c) == len(sc) and all(abs(x - y) < 1e-12 for x, y in zip(c, sc))
        ctx.check(same, "R1", md, table_stmt, "XL_BOMD.__init__", f"coeffs[{k}]", f"k={k}: row equals the published (kappa, alpha, c_0..c_k)",
                  f"k={k}: coefficient row {row} differs from Niklasson Table I {[sk, sa] + sc}")
        ctx.check(len(c) == k + 1, "R1", md, table_stmt, "XL_BOMD.__init__", f"coeffs[{k}] length", f"k={k}: k+1 dissipation coefficients", f"k={k}: {len(c)} coefficients")
        ctx.check(abs(sum(c)) < 1e-12, "R1", md, table_stmt, "XL_BOMD.__init__", f"coeffs[{k}] sum", f"k={k}: sum_j c_j = 0 (D = P is a fixed point)",
                  f"k={k}: sum of c_j is {sum(c)}: a stationary auxiliary density would drift")
        # root locus of z^{k+1} = (2-ke+a c0) z^k + (a c1 - 1) z^{k-1} + sum_{j>=2} a c_j z^{k-j}
        worst = 0.0
        worst_ke = None
        for t in range(1, 201):
            ke = kappa * t / 200.0
            coef = [alpha * x for x in c]
            coef[0] += 2.0 - ke
            coef[1] -= 1.0
            poly = [1.0] + [-x for x in coef]
            r = np.abs(np.roots(poly)).max()
            if r > worst:
                worst, worst_ke = float(r), ke
        ctx.check(worst <= 1.0 + 1e-4, "R1", md, table_stmt, "XL_BOMD.__init__", f"coeffs[{k}] root locus",
                  f"k={k}: max |root| over kappa_eff in (0,{kappa}] is {worst:.6f} <= 1",
                  f"k={k}: recurrence is linearly unstable: |root| = {worst:.6f} at kappa_eff = {worst_ke:.4f}")
    ctx.floor("R1", 7 * 4)

    # ---------------------------------------------------------------- R2: constant-propagate __init__ per k
    for k in sorted(table):
        env = {table_name: table, "self.k": k}
        try:
            for st in init.body:
                if isinstance(st, ast.Assign) and len(st.targets) == 1:
                    t = st.targets[0]
                    if st is table_stmt:
                        continue
                    try:
                        env[norm(t)] = _vfold(st.value, env)
                    except (NotConst, KeyError, TypeError, IndexError):
                        pass
                elif isinstance(st, ast.AugAssign) and isinstance(st.target, ast.Subscript):
                    base = norm(st.target.value)
                    idx = _vfold(st.target.slice, env)
                    val = _vfold(st.value, env)
                    vec = env[base]
                    if isinstance(st.op, ast.Add):
                        vec[idx] = vec[idx] + val
                    elif isinstance(st.op, ast.Sub):
                        vec[idx] = vec[idx] - val
                    else:
                        raise NotConst(norm(st))
        except (NotConst, KeyError) as e:
            raise AnalysisError(f"XL_BOMD.__init__: cannot constant-propagate coefficient block: {e}")
        coeff, coeff_D, m = env.get("self.coeff"), env.get("self.coeff_D"), env.get("self.m")
        if coeff is None or coeff_D is None or m is None:
            raise AnalysisError("XL_BOMD.__init__: self.coeff / coeff_D / m not derivable")
        kappa, alpha, c = table[k][0], table[k][1], table[k][2:]
        want = [alpha * x for x in c]
        want[0] += 2.0 - kappa
        want[1] -= 1.0
        ok = m == k + 1 and len(coeff) == 2 * m and all(abs(a - b) < 1e-12 for a, b in zip(coeff, want + want)) and abs(coeff_D - kappa) < 1e-12
        ctx.check(ok, "R2", md, init, "XL_BOMD.__init__", f"coeff(k={k})",
                  f"k={k}: coeff = [2-kappa+alpha c0, alpha c1-1, alpha c2, ...] repeated twice, coeff_D = kappa, m = k+1",
                  f"k={k}: built coefficients {coeff} / coeff_D {coeff_D} / m {m} are not the published recurrence {want} / {kappa}")
        ctx.check(abs(coeff_D + sum(coeff[:m]) - 1.0) < 1e-12, "R2", md, init, "XL_BOMD.__init__", f"sum(k={k})",
                  f"k={k}: coeff_D + sum(coeff) = 1 (stationary density is reproduced)", f"k={k}: coefficients sum to {coeff_D + sum(coeff[:m])}")


def _r1_r2_interpreted(ctx, md, np):
    from ..assembly import interpreted_xl_constructor
    init = md.func("XL_BOMD.__init__")
    built = interpreted_xl_constructor(ctx.repo)
    ctx.check(sorted(built) == list(range(3, 10)), "R1", md, init, "XL_BOMD.__init__", "supported k", "the constructor builds coefficients for k = 3..9",
              f"the constructor builds coefficients only for k in {sorted(built)} (k = 3..9 are published)")
    ctx.exhaustive = True
    for k, b in sorted(built.items()):
        sk, sa, sc = NIKLASSON[k]
        m, coeff, coeff_D = b["m"], [float(x) for x in b["coeff"]], float(b["coeff_D"])
        want = [sa * x for x in sc]
        want[0] += 2.0 - sk
        want[1] -= 1.0
        same = m == k + 1 and len(coeff) == 2 * m and all(abs(x - y) < 1e-12 for x, y in zip(coeff, want + want)) and abs(coeff_D - sk) < 1e-12
        ctx.check(same, "R1", md, init, "XL_BOMD.__init__", f"coeffs[{k}]", f"k={k}: the built recurrence weights equal the published (kappa, alpha c_0..c_k) of Niklasson Table I",
                  f"k={k}: built weights {[round(x, 9) for x in coeff[:m]]} / coeff_D {coeff_D} differ from Niklasson Table I {[round(x, 9) for x in want]} / {sk}")
        ctx.check(len(coeff) == 2 * (k + 1), "R1", md, init, "XL_BOMD.__init__", f"coeffs[{k}] length", f"k={k}: k+1 dissipation coefficients, stored twice for the circular window",
                  f"k={k}: {len(coeff)} stored coefficients")
        # sum_j c_j = 0  <=>  sum(coeff[:m]) = 1 - kappa
        ctx.check(abs(sum(coeff[:m]) - (1.0 - coeff_D)) < 1e-12, "R1", md, init, "XL_BOMD.__init__", f"coeffs[{k}] sum", f"k={k}: sum_j c_j = 0 (D = P is a fixed point)",
                  f"k={k}: the dissipation coefficients do not sum to zero (sum of weights {sum(coeff[:m])}, expected {1.0 - coeff_D}): a stationary auxiliary density would drift")
        worst, worst_ke = 0.0, None
        for t in range(1, 201):
            ke = coeff_D * t / 200.0
            coef = list(coeff[:m])
            coef[0] += coeff_D - ke
            poly = [1.0] + [-x for x in coef]
            r = np.abs(np.roots(poly)).max()
            if r > worst:
                worst, worst_ke = float(r), ke
        ctx.check(worst <= 1.0 + 1e-4, "R1", md, init, "XL_BOMD.__init__", f"coeffs[{k}] root locus", f"k={k}: max |root| over kappa_eff in (0,{coeff_D}] is {worst:.6f} <= 1",
                  f"k={k}: recurrence is linearly unstable: |root| = {worst:.6f} at kappa_eff = {worst_ke:.4f}")
        ctx.check(same, "R2", md, init, "XL_BOMD.__init__", f"coeff(k={k})", f"k={k}: coeff = [2-kappa+alpha c0, alpha c1-1, alpha c2, ...] repeated twice, coeff_D = kappa, m = k+1",
                  f"k={k}: built coefficients are not the published recurrence")
        ctx.check(abs(coeff_D + sum(coeff[:m]) - 1.0) < 1e-12, "R2", md, init, "XL_BOMD.__init__", f"sum(k={k})",
                  f"k={k}: coeff_D + sum(coeff) = 1 (stationary density is reproduced)", f"k={k}: coefficients sum to {coeff_D + sum(coeff[:m])}")
    ctx.floor("R1", 7 * 4)


def _history_sites(md, ctx=None, rid="R3"):
    """(routine, circular index, write slot, store, step parameter, -) of every history store of the XL integrators, written in terms of the step parameter"""
    sites = []
    for q in ("XL_BOMD.one_step", "XL_ESMD.one_step"):
        f = md.func(q)
        step_param = f.args.args[2].arg
        writes = [st for st in ast.walk(f) if isinstance(st, ast.Assign) and isinstance(st.targets[0], ast.Subscript)
                  and norm(st.targets[0].value) in ("Pt", "es_amp_t")]
        if not writes:
            raise AnalysisError(f"{q}: history write not found")
        # the circular index is the local the write slot is computed from (name-independent)
        local_assigned = {st.targets[0].id: st for st in ast.walk(f) if isinstance(st, ast.Assign) and len(st.targets) == 1 and isinstance(st.targets[0], ast.Name)}
        ci = sorted({x.id for w in writes for x in ast.walk(w.targets[0].slice) if isinstance(x, ast.Name) and x.id in local_assigned})
        if len(ci) != 1:
            raise AnalysisError(f"{q}: the history write slot does not depend on exactly one local index ({ci})")
        CI = ci[0]
        cdef = [st for st in ast.walk(f) if isinstance(st, ast.Assign) and norm(st.targets[0]) == CI]
        if len(cdef) != 1:
            raise AnalysisError(f"{q}: circular index `{CI}` is not defined exactly once")
        # the index may itself be computed from other single-assignment locals (e.g. slot = m - 1 - cindx): write everything in terms of parameters / attributes
        import copy as _copy

        def _expand(e, depth=0):
            class _S(ast.NodeTransformer):
                def visit_Name(s_, n):
                    st_ = local_assigned.get(n.id)
                    if isinstance(n.ctx, ast.Load) and st_ is not None and n.id != step_param and depth < 5 and \
                            sum(1 for x in ast.walk(f) if isinstance(x, ast.Name) and x.id == n.id and isinstance(x.ctx, ast.Store)) == 1:
                        return _expand(_copy.deepcopy(st_.value), depth + 1)
                    return n
            return _S().visit(_copy.deepcopy(e))
        # roles: the circular index c is what the propagators receive as their window start (3rd argument); the write slot is the subscript of the history store.
        # Both are written out in terms of the step parameter, so it does not matter through which locals they are computed.
        props = [c_ for c_ in calls_in(f) if callee_attr(c_) in ("_propagate_P", "_propagate_excited_state") and len(c_.args) >= 3]
        cands = {norm(_expand(c_.args[2])) for c_ in props}
        if len(cands) != 1:
            raise AnalysisError(f"{q}: the propagators do not receive one common circular index ({sorted(cands)})")
        cexpr_full = _expand(props[0].args[2])
        for w in writes:
            sites.append((q, cexpr_full, _expand(w.targets[0].slice), w, step_param, None))
            # value written is the freshly propagated quantity
            if ctx is not None:
                ctx.check(norm(w.value) in ("P", "es_amp"), rid, md, w, q, w, "history slot receives the newly propagated quantity",
                          f"history slot receives `{norm(w.value)}`")
    return sites


def check_restart_read(ctx, md, rid="R3", sites=None):
    """the history slot read on restart is the one written by the last completed step, for every history length and phase (shared with C10)"""
    sites = sites if sites is not None else _history_sites(md)
    # restart read
    rfc = md.func("Molecular_Dynamics_Basic.run_from_checkpoint")
    rdefs = {norm(st.targets[0]): st.value for st in ast.walk(rfc) if isinstance(st, ast.Assign) and len(st.targets) == 1 and isinstance(st.targets[0], ast.Name)}
    def _depends_on_step(e, depth=0):
        """does the expression depend, through single-definition locals, on the checkpoint's step_done entry"""
        for x in ast.walk(e):
            if isinstance(x, ast.Subscript) and isinstance(x.slice, ast.Constant) and x.slice.value == "step_done":
                return True
            if isinstance(x, ast.Name) and x.id in rdefs and depth < 6 and _depends_on_step(rdefs[x.id], depth + 1):
                return True
        return False
    # the history reads on restart, by role: subscripts whose index is computed from the checkpoint's step_done (whatever the arrays and locals are called)
    reads = [n for n in ast.walk(rfc) if isinstance(n, ast.Subscript) and isinstance(n.ctx, ast.Load) and not isinstance(n.slice, (ast.Constant, ast.Slice))
             and _depends_on_step(n.slice) and not (isinstance(n.slice, ast.Constant))]
    if len(reads) < 1:
        raise AnalysisError("run_from_checkpoint: restart reads of the history not found")
    q0, cexpr0, wexpr0, _, spn, CI0 = sites[0]

    def ck_key(n):
        """'k' / 'step_done' for <ckpt>['xl_bomd_params']['k'] and <ckpt>['step_done'] whatever the dictionary local is called"""
        if isinstance(n, ast.Subscript) and isinstance(n.slice, ast.Constant) and isinstance(n.slice.value, str):
            if n.slice.value == "step_done" and isinstance(n.value, ast.Name):
                return "step_done"
            if n.slice.value == "k" and isinstance(n.value, ast.Subscript) and isinstance(n.value.slice, ast.Constant) and n.value.slice.value == "xl_bomd_params":
                return "k"
        return None

    def closure_eval(expr, vals, depth=0):
        """evaluate an integer expression of run_from_checkpoint, resolving locals through their single definitions"""
        class T(ast.NodeTransformer):
            def visit_Subscript(self, n):
                kk = ck_key(n)
                if kk is not None:
                    return ast.Constant(vals[kk])
                return self.generic_visit(n)

            def visit_Attribute(self, n):
                # <engine>.k / <engine>.m of the engine object rebuilt from the checkpoint: the dissipation order it was constructed with (= the recorded `k`, C10-R9 /
                # C12-R5 decide that the recorded settings reach the constructor) and the history length m = k + 1 (decided for XL_BOMD.__init__ by this rule set)
                if n.attr in ("k", "m") and isinstance(n.value, ast.Name) and isinstance(rdefs.get(n.value.id), ast.Call) \
                        and not norm(rdefs[n.value.id].func).startswith(("torch.", "dict", "int", "float", "len")):
                    return ast.Constant(vals["k"] + (1 if n.attr == "m" else 0))
                return self.generic_visit(n)
        import copy
        e2 = T().visit(copy.deepcopy(expr))
        env = {}
        for x in ast.walk(e2):
            if isinstance(x, ast.Name) and x.id in rdefs and depth < 6:
                env[x.id] = closure_eval(rdefs[x.id], vals, depth + 1)
        return int_eval(e2, env)
    # the local that holds the history length on restart: the one defined from ...['k']
    mlen = [nm for nm, v in rdefs.items() if any(ck_key(x) == "k" for x in ast.walk(v))]
    # (when the history length has no local of its own the read slot alone is decided: equality with the written slot for every phase and every m pins the modulus as well)
    mlen = [nm for nm in mlen if not _depends_on_step(rdefs[nm])]
    mlen = mlen if len(mlen) == 1 else []
    for rd in reads:
        bad = []
        for m in range(4, 11):
            k = m - 1
            for done in range(1, 3 * m):
                vals = {"k": k, "step_done": done}
                xl_m = closure_eval(rdefs[mlen[0]], vals) if mlen else m
                slot = closure_eval(rd.slice, vals)
                last_c = int_eval(cexpr0, {"self.m": m, spn: done - 1})
                last_slot = int_eval(wexpr0, {"self.m": m, spn: done - 1})
                if xl_m != m or slot != last_slot:
                    bad.append((m, done, slot, last_slot))
        ctx.check(not bad, rid, md, rd, "Molecular_Dynamics_Basic.run_from_checkpoint", rd,
                  f"restart reads `{norm(rd)}` = the slot written by the last completed step, for m=4..10 and every phase",
                  f"restart reads history slot `{norm(rd)}` which is not the one written by the last completed step; first (m,step_done,read,written): {bad[:3]}")


def run(ctx):
    import numpy as np
    import sympy as sp
    repo = ctx.repo
    md = repo.mod(MD)
    ctx.rule("R1", "coefficient table equals Niklasson Table I, sum c = 0, root locus inside the unit disk (exhaustive k=3..9)")
    ctx.rule("R2", "executed recurrence: coefficients built by __init__ and every propagate variant sum to one; D coefficient = delta*kappa")
    ctx.rule("R3", "circular history buffer: write slot, coefficient window and restart read agree for every phase and every m")
    ctx.rule("R4", "shadow energy E(D,P) with D=P equals the SCF energy expression")
    ctx.rule("R5", "history initialisation and resume")

    try:
        _r1_r2_literal(ctx, md, np)
    except AnalysisError as e_:
        # the constructor is not in the literal-table shape (table moved to a module constant, weights built by a helper, ...): the coefficients it builds are obtained by
        # interpreting the constructor for every k (sa.npsym) and decided by value
        ctx.note(f"XL_BOMD.__init__ not in the literal-table shape ({str(e_)[:80]}); coefficients obtained by interpreting the constructor for k = 3..9")
        _r1_r2_interpreted(ctx, md, np)
    # propagate variants as linear forms
    D, P, R, W, H = sp.symbols("D P R W H")
    variants = [q for q in md.functions if q.split(".")[-1].startswith("_propagate_") and "<locals>" not in q]
    if len(variants) < 5:
        raise AnalysisError(f"only {len(variants)} propagate variants found")
    kap = sp.Symbol("kappa", positive=True)
    for q in variants:
        f = md.func(q)
        params = [a.arg for a in f.args.args]
        aux, hist, cidx = params[1], params[2], params[3]
        rets = []
        # each result expression: a returned expression, or every assignment to the returned local name
        for st in ast.walk(f):
            if isinstance(st, ast.Return) and st.value is not None:
                if isinstance(st.value, ast.Name):
                    for a in ast.walk(f):
                        if isinstance(a, ast.Assign) and len(a.targets) == 1 and norm(a.targets[0]) == st.value.id:
                            rets.append(a)
                else:
                    rets.append(st)
        if not rets:
            raise AnalysisError(f"{q}: no result expression found")
        for ret in rets:
            blk = md.parents[ret]
            body = blk.body if ret in getattr(blk, "body", []) else getattr(blk, "orelse", [])
            env = {"self.coeff_D": kap, aux: P, hist: H, "molecule.dm": D, "molecule.transition_density_matrices": D,
                   "molecule.cis_amplitudes": D, "molecule.dP2dt2": R, "molecule.dxi2dt2": R}
            funcs = md_funcs()
            window_ok = [True]

            def sub(n, rec, _window_ok=window_ok, _cidx=cidx):
                if norm(n.value) == "self.coeff":
                    s = n.slice
                    good = isinstance(s, ast.Slice) and s.lower is not None and s.upper is not None and norm(s.lower) == _cidx \
                        and norm(s.upper).replace(" ", "") in (f"{_cidx}+self.m", f"self.m+{_cidx}")
                    if not good:
                        _window_ok[0] = False
                    return W
                raise AnalysisError(f"unexpected subscript {norm(n)}")
            funcs["[]"] = sub
            def apply_assigns(env_, stmts_):
                for s_ in stmts_:
                    if isinstance(s_, ast.Assign) and len(s_.targets) == 1 and isinstance(s_.targets[0], ast.Name):
                        try:
                            env_[s_.targets[0].id] = to_sympy(s_.value, env_, funcs)
                        except AnalysisError:
                            env_.pop(s_.targets[0].id, None)      # bookkeeping the result does not read (an unbound name fails later if it does)
            try:
                envs = [env]
                for st in body:
                    if st is ret:
                        break
                    if isinstance(st, ast.Assign):
                        for e_ in envs:
                            apply_assigns(e_, [st])
                    elif isinstance(st, ast.If):
                        # a temporary defined in both arms of a configuration test: every arm is a variant of the result
                        forked = []
                        for e_ in envs:
                            for arm in (st.body, st.orelse):
                                e2 = dict(e_)
                                apply_assigns(e2, arm)
                                forked.append(e2)
                        envs = forked
                exprs = [to_sympy(ret.value, e_, funcs) for e_ in envs]
            except AnalysisError as e:
                raise AnalysisError(f"{q}: cannot interpret propagate expression `{short(ret, 80)}`: {e}")
            for expr in exprs:
                expr = sp.expand(expr)
                ctx.check(window_ok[0], "R3", md, ret, q, ret, f"{q}: coefficient window is coeff[cindx : cindx + m]",
                          f"{q}: coefficient window is not coeff[{cidx} : {cidx} + self.m]")
                # fixed point: D = P, residual-like term 0, every history slot = P  (W*H -> (1-kappa)*P since sum(window) = 1 - kappa)
                fp = sp.simplify(expr.subs({W * H: (1 - kap) * P}).subs({D: P, R: 0}) - P)
                ctx.check(fp == 0, "R2", md, ret, q, ret, f"{q}: D = P = history is a fixed point of the propagation",
                          f"{q}: a stationary auxiliary density is not preserved: P_new - P = {fp}")
                lin = sp.Poly(expr, D, P, R, W * H) if False else None
                cD = sp.simplify(sp.diff(expr, D) + sp.diff(expr, R))
                ok = sp.simplify(cD - kap).is_zero or (sp.simplify(cD / kap).is_number and 0.5 <= float(cD / kap) <= 1.0)
                ctx.check(bool(ok), "R2", md, ret, q, ret, f"{q}: response coefficient is delta*kappa with delta in [0.5,1] ({sp.simplify(cD / kap)})",
                          f"{q}: coefficient of the response term is {cD} (expected delta*kappa, 0.5 <= delta <= 1): outside the stability range")
                cH = sp.simplify(sp.diff(expr, H) / W) if expr.has(H) else 0
                ctx.check(cH == 1, "R2", md, ret, q, ret, f"{q}: history enters as sum_j coeff_j * slot_j", f"{q}: history term has weight {cH}")

    # ---------------------------------------------------------------- R3 index agreement
    sites = _history_sites(md, ctx, "R3")
    for q, cexpr, wexpr, wst, sp_name, CI in sites:
        bad = []
        n = 0
        for m in range(4, 11):
            env0 = {"self.m": m}
            slot_written_at = {}
            for s in range(0, 3 * m):
                c = int_eval(cexpr, {**env0, sp_name: s})
                wslot = int_eval(wexpr, {**env0, sp_name: s})
                if not (0 <= c < m and 0 <= wslot < m):
                    bad.append((m, s, "range", c, wslot))
                    break
                if s >= m:
                    # every slot i holds the quantity written at step t_i; its age is s-1-t_i; coefficient index is (c+i) mod m
                    for i, t in slot_written_at.items():
                        n += 1
                        age = s - 1 - t
                        if (c + i) % m != age:
                            bad.append((m, s, "age", i, age, (c + i) % m))
                    oldest = min(slot_written_at, key=lambda i: slot_written_at[i])
                    if wslot != oldest:
                        bad.append((m, s, "overwrites", wslot, "oldest", oldest))
                slot_written_at[wslot] = s
            if len(slot_written_at) != m:
                bad.append((m, "slots used", sorted(slot_written_at)))
        ctx.check(not bad, "R3", md, wst, q, wst, f"{q}: slot<->coefficient age pairing and oldest-slot overwrite hold for m=4..10, all phases ({n} pairings)",
                  f"{q}: circular history indexing is inconsistent: cindx=`{norm(cexpr)}`, write slot=`{norm(wexpr)}`; first problems {bad[:3]}")
    check_restart_read(ctx, md, "R3", sites)
    hook = md.func("XL_BOMD._do_integrator_step")
    os_calls = [c for c in calls_in(hook) if callee_attr(c) == "one_step"]
    ipar = hook.args.args[1].arg
    ctx.check(bool(os_calls) and len(os_calls[0].args) > 1 and norm(os_calls[0].args[1]) == ipar, "R3", md, hook, "XL_BOMD._do_integrator_step", hook.name,
              "the absolute step index drives the buffer phase", "one_step does not receive the absolute loop index as `step`")
    ini = md.func("XL_BOMD.__init__")
    mdef = [st for st in ast.walk(ini) if isinstance(st, ast.Assign) and norm(st.targets[0]) == "self.m"]
    ctx.check(bool(mdef) and norm(mdef[0].value).replace(" ", "") == "self.k+1", "R3", md, ini, "XL_BOMD.__init__", "self.m", "history length m = k + 1", "m != k+1")

    # ---------------------------------------------------------------- R4
    from ..assembly import check_energy_functions, interpreted_core_parameters
    check_energy_functions(ctx, "R4", which=("xl",))
    # the nuclear part of the shadow energy uses the same core-core parameter tuple as the SCF energy (interpreted per method, shared with C06-R4)
    for rel_, qual_, line_, method_, ok_, msg_ in interpreted_core_parameters(repo):
        if "xlbomd" not in rel_:
            continue
        m_ = repo.mod(rel_)
        ctx.check(ok_, "R4", m_, m_.func(qual_), qual_, f"core-core parameters ({method_})",
                  f"{qual_}: pair_nuclear_energy receives the same parameter tuple as in the SCF energy for {method_}",
                  msg_ + ": the XL-BOMD energy at P = D differs from the SCF energy (the dynamics does not converge to the Born-Oppenheimer surface of the SCF model)")

    # ---------------------------------------------------------------- R5
    xi = md.func("XL_BOMD.initialize")
    def _bound(key):
        """(statement, value expression) wherever the fresh context binds `key`: a local of that name, an entry of a dict literal, a keyword of dict(...) / .update(...)"""
        out_ = [(st, st.value) for st in ast.walk(xi) if isinstance(st, ast.Assign) and norm(st.targets[0]) == key]
        for n_ in ast.walk(xi):
            if isinstance(n_, ast.Dict):
                for k_, v_ in zip(n_.keys, n_.values):
                    if isinstance(k_, ast.Constant) and k_.value == key and not isinstance(v_, ast.Name):
                        out_.append((md.enclosing_stmt(n_), v_))
            if isinstance(n_, ast.Call) and (callee_attr(n_) == "update" or (isinstance(n_.func, ast.Name) and n_.func.id == "dict")):
                for kw_ in n_.keywords:
                    if kw_.arg == key and not isinstance(kw_.value, ast.Name):
                        out_.append((md.enclosing_stmt(n_), kw_.value))
        return out_
    pt_b, p_b = _bound("Pt"), _bound("P")
    ptdef = [types.SimpleNamespace(value=v_, stmt=st_) for st_, v_ in pt_b]
    pdef = [types.SimpleNamespace(value=v_, stmt=st_) for st_, v_ in p_b]
    ok = bool(ptdef and pdef) and "molecule.dm" in norm(ptdef[0].value) and "self.m" in norm(ptdef[0].value) and "expand" in norm(ptdef[0].value) \
        and ".clone()" in norm(ptdef[0].value) and norm(pdef[0].value) == "molecule.dm.clone()"
    ctx.check(ok, "R5", md, xi, "XL_BOMD.initialize", "Pt", "fresh history = m independent copies of the converged density; P = copy of it",
              "fresh XL history is not m cloned copies of the converged density")
    if ptdef:
        ctrl = controlling(md, ptdef[0].stmt)
        conds = sorted((norm(a).replace(" ", ""), p) for a, p, _ in ctrl)
        ctx.check(conds == [("self.step_offset>0", False)], "R5", md, ptdef[0].stmt, "XL_BOMD.initialize", ptdef[0].stmt,
                  "history is rebuilt exactly when the run is fresh (step_offset == 0): every run() that restarts its step counter also resets the buffer phase",
                  f"XL history initialisation is controlled by {conds} instead of exactly `not (self.step_offset > 0)`: a run that starts its step "
                  f"counter at 0 can keep a buffer rotated by an earlier run (coefficients paired with the wrong history ages) or a resumed run can lose its history")
    store = [st for st in ast.walk(xi) if isinstance(st, ast.Assign) and norm(st.targets[0]) == "self._xl_ctx"]
    ctx.check(len(store) == 1 and norm(store[0].value) == "ctx", "R5", md, xi, "XL_BOMD.initialize", "self._xl_ctx = ctx", "fresh context replaces any previous one",
              "self._xl_ctx store changed")
    # XL forces: same force assembly discipline as the SCF path (shared with C01)
    ctx.rule("R6", "XL force assembly: force = -dL/dx of the XL Hf, gradient buffer zeroed after each read")
    ctx.rule("R7", "the potential energy reported (and used as the energy-control reference) by the XL engines is the shadow free energy Etot + electronic entropy term")
    _r7_shadow_potential(ctx, repo)
    from ..forcerules import check_force_assembly
    check_force_assembly(ctx, "R6", which=("seqm/dynamics/xlbomd.py::ForceXL.forward",))


def _r7_shadow_potential(ctx, repo):
    """With fractional occupations (finite electronic temperature, KSA) the quantity conserved to O(dt^2) by XL-BOMD is
    E_tot(D,P) + the electronic-entropy term published by the XL energy path.  Every XL engine must resolve `_thermo_potential`
    (the hook the run loop uses for Ep, for the conserved-quantity report and for the energy-shift control) to a definition that adds
    molecule.Electronic_entropy to molecule.Etot, and the run loop must read the potential through that hook."""
    md = repo.mod(MD)
    for cname in ("XL_BOMD", "KSA_XL_BOMD", "XL_ESMD"):
        if cname not in md.classes:
            raise AnalysisError(f"class {cname} not found")
        hit = repo.find_method(md, md.classes[cname], "_thermo_potential")
        if hit is None:
            ctx.fail("R7", md, md.classes[cname], cname, "_thermo_potential", f"{cname} has no _thermo_potential")
            continue
        hm, hc, hf = hit
        rets = [r for r in ast.walk(hf) if isinstance(r, ast.Return) and r.value is not None]
        attrs = {x.attr for r in rets for x in ast.walk(r.value) if isinstance(x, ast.Attribute) and isinstance(x.value, ast.Name) and x.value.id in ("molecule", "mol")}
        plus = all(isinstance(r.value, ast.BinOp) and isinstance(r.value.op, ast.Add) for r in rets)
        ctx.check(bool(rets) and {"Etot", "Electronic_entropy"} <= attrs and plus, "R7", hm, hf, f"{hc.name}._thermo_potential", f"{cname} -> {hc.name}._thermo_potential",
                  f"{cname} reports Ep = molecule.Etot + molecule.Electronic_entropy (resolved to {hc.name}._thermo_potential)",
                  f"{cname} resolves _thermo_potential to {hc.name}._thermo_potential which returns `{[norm(r.value) for r in rets]}`: the electronic-entropy term is missing from the "
                  f"reported potential energy, so with fractional occupations (KSA, finite T_el) the reported conserved quantity no longer follows the dt^2 law and the "
                  f"energy-shift control uses the wrong reference")
    run = md.func("Molecular_Dynamics_Basic.run")
    vdefs = [st for st in ast.walk(run) if isinstance(st, ast.Assign) and isinstance(st.targets[0], ast.Name) and st.targets[0].id in ("V", "V0")]
    ctx.check(bool(vdefs) and all(isinstance(st.value, ast.Call) and callee_attr(st.value) == "_thermo_potential" for st in vdefs), "R7", md, vdefs[0] if vdefs else run,
              "Molecular_Dynamics_Basic.run", "V = self._thermo_potential(molecule)", "the run loop reads the potential energy through the engine's hook",
              f"the run loop computes the potential as {[norm(st.value) for st in vdefs]}")
    # the entropy term is published by the XL electronic-structure path
    es = repo.mod("seqm/ElectronicStructure.py")
    f = es.func("Electronic_Structure.forward")
    published = any(isinstance(x, ast.Attribute) and x.attr == "Electronic_entropy" and isinstance(x.ctx, ast.Store) for x in ast.walk(f))
    ctx.check(published, "R7", es, f, "Electronic_Structure.forward", "molecule.Electronic_entropy", "the XL electronic-structure path publishes molecule.Electronic_entropy",
              "molecule.Electronic_entropy is no longer assigned by Electronic_Structure.forward")
